"""Bounded stand-in for C07 -- records and record sets have value semantics and exact set
algebra (DESIGN.md section 4, C07, item B5).

Oracles (all independent of the code under test):
  * records: bounded._c07_model encodes every generated record into its RFC 4034 section 6.2
    canonical RDATA (type codes and layouts from the RFCs, names lower-cased for the types of
    that section, relative names completed with the root); ==, !=, hash, <, <=, >, >= and
    sorted() are compared with equality / octet order of those encodings;
  * record sets: ordered lists of equivalence-class keys (Python list/set) as the reference
    for dns.set.Set, Rdataset, RRset and ImmutableRdataset, including first-insertion order,
    operand preservation, aliasing (S op S) and independence of copies;
  * TTL: minimum of the TTLs merged since the set was last empty;
  * singleton types: the documented list CNAME, SOA, NXT, DNAME, NSEC, swept over type codes;
  * immutability: behavioural -- assignment, deletion and new attributes are attempted on an
    instance of every record class found under dns/rdtypes, on names and on nested objects.

Helper modules: _c07_model (reference), _c07_records, _c07_sets, _c07_rdataset, _c07_immut.
Every check is a function returning [(clause, what, sig)], used both by run and by replay.
"""

from __future__ import annotations

import itertools

import bounded._c07_immut as I
import bounded._c07_model as M
import bounded._c07_rdataset as D
import bounded._c07_records as RC
import bounded._c07_sets as S

BOUNDS = (
    "Records: 24 types (A NS CNAME SOA PTR HINFO MX TXT RP AFSDB RT PX AAAA SRV NAPTR KX DNAME DS "
    "RRSIG NSEC DNSKEY SPF CAA and an unknown type), classes IN and CH; per type every listed "
    "value of every field varied once around a base record (names: 21 quick / 35 thorough, "
    "absolute and relative, case twins, octets @`[{ and C0/E0 next to the letter range, 63-octet "
    "labels) plus seeded combinations (6 / 30 per type); each spec built twice through different "
    "routes (constructor, from_wire of the model's wire form, from_text); quick ~670 specs / "
    "~1300 objects, thorough ~1190 / ~2400.  Exhaustive: all pairs within a class+type group "
    "(quick: one orientation, thorough: both), IN x CH pairs of a type, cross-type pairs inside "
    "the families NS/CNAME/PTR/DNAME, MX/AFSDB/RT/KX, TXT/SPF (quick ~51 000 pairs, thorough "
    "~365 000), sorted() per group.  No claim is made for absolute-against-relative pairs nor "
    "for case variants of names outside RFC 4034 6.2 (NSEC).  Sets: dns.set.Set over a universe "
    "of names, ints, bytes and records with case-twin duplicates, Rdataset(MX), Rdataset(TXT), "
    "Rdataset(RRSIG covering A), RRset(A), ImmutableRdataset(MX); exhaustive: every pair of "
    "insertion sequences of length <= 3 over 4 (quick) / 5 (thorough) universe objects for Set "
    "(quick: all left operands, right operands of length <= 2 and a quarter of those of length "
    "3) and of length <= 2 (quick) / 3 (thorough) over 4 objects for the TTL-carrying sets with "
    "2-3 TTL pairs, times 24 binary operations (9 copying, 10 in-place, 5 predicates), the aliased "
    "form S op S, and 9 element operations (read/index/slice/in, add, remove, discard, pop, "
    "clear, copy, del item, del slice) per sequence and universe object; seeded longer pairs "
    "(length <= 6, quick 6 000, thorough 60 000) incl. Rdataset x RRset x ImmutableRdataset "
    "operands.  Refusal: class / type / covered-type intruders through add, update, "
    "union_update, |=, += and union on every base sequence of length <= 2 (RRSIG and SIG sets, "
    "explicit covers).  Singleton sweep: type codes 0-300 plus 120 seeded (quick) / all 65 536 "
    "(thorough) with generic records, real CNAME SOA DNAME NSEC MX NS TXT PTR records.  TTL: all "
    "add/update_ttl step lists of length <= 3 over 4 TTL values (incl. none) and 2-3 items.  "
    "Seeded operation sequences of 30 operations over three sets with aliasing, copies and "
    "immutable snapshots: quick 3 000, thorough 40 000 spread over 5 implementations.  Immutability: 3 "
    "instances of each of the 69 record classes discovered under dns/rdtypes (plus OPT, TKEY, "
    "TSIG by constructor), 11 kinds of names, generic records; 11 constructors fed lists, dicts "
    "and bytearrays that are mutated afterwards; 5 construction-context scenarios.  Not "
    "demanded: the exception type of a refused operation, the TTL after intersection / "
    "difference / symmetric difference or after merging an empty set (either old or merged "
    "value accepted), whether set equality looks at the TTL (equal TTLs used), union on "
    "singleton types, back doors (object.__setattr__, re-calling __init__, __dict__ of the "
    "three classes without __slots__), constructor arguments that violate the annotated types."
)


# =========================================================================== records
def _entries(R, thorough):
    specs = M.gen_specs(R.rng, thorough)
    groups = {}
    n = 0
    for spec in specs:
        rel = M.spec_relative(spec)
        routes = ["ctor", "ctor"] if rel else ["ctor", "wire" if n % 2 == 0 else "text"]
        n += 1
        for r in routes:
            try:
                e = RC.Entry(spec, r)
            except Exception as ex:
                R.note(f"could not build {spec} via {r}: {type(ex).__name__}: {ex}")
                continue
            groups.setdefault((spec["c"], spec["t"]), []).append(e)
    return groups


def _do_pair(R, a, b, full, key):
    res, claim = RC.chk_pair(a, b, full)
    R.case(RC.EQ, key=key, nontrivial=claim)
    if a.key == b.key or a.hash == b.hash:
        R.case(RC.HASH, key=key, nontrivial=claim)
    if a.spec["c"] == b.spec["c"] and a.spec["t"] == b.spec["t"] and not a.rel and not b.rel:
        R.case(RC.ORDER, key=key, nontrivial=RC.claim_order(a, b))
    for clause, what, sig in res:
        R.violation(clause, what, sig, {"kind": "pair", "a": a.desc(), "b": b.desc()})
    return res


def run_records(R):
    thorough = not R.quick
    groups = _entries(R, thorough)
    gl = sorted(groups)
    sampled = False
    for gk in gl:
        es = groups[gk]
        if R.deadline():
            R.note("deadline reached in record pairs")
            return
        for i in range(len(es)):
            for j in range(i, len(es)):
                a, b = (es[i], es[j]) if (i + j) % 2 == 0 else (es[j], es[i])
                _do_pair(R, a, b, thorough, (gk, i, j))
                if thorough and i != j:
                    _do_pair(R, b, a, True, (gk, j, i))
        if not sampled and gk[1] == "MX":
            R.sample(RC.EQ, {"a": es[1].desc(), "b": es[3].desc(), "model_equal": es[1].key == es[3].key})
            sampled = True
        for clause, what, sig in RC.chk_sorted(es):
            R.violation(clause, what, sig, {"kind": "sorted", "entries": [e.desc() for e in es]})
        R.case(RC.SORT, key=gk, nontrivial=len(es) > 1)
    # same type, different class
    for (c, t) in gl:
        if c == M.IN and (M.CH, t) in groups:
            xs = [e for e in groups[(c, t)] if e.route == "ctor"]
            for i, a in enumerate(xs):
                for j, b in enumerate(groups[(M.CH, t)]):
                    _do_pair(R, a, b, False, ("class", t, i, j)) if (i + j) % 2 else _do_pair(R, b, a, False, ("class", t, j, i))
    # different types with the same layout
    for fam in M.FAMILIES:
        for t1, t2 in itertools.combinations(fam, 2):
            xs = [e for e in groups.get((M.IN, t1), []) if e.route == "ctor"]
            ys = [e for e in groups.get((M.IN, t2), []) if e.route == "ctor"]
            if R.deadline():
                return
            for i, a in enumerate(xs):
                for j, b in enumerate(ys):
                    if thorough or (i + j) % 3 == 0 or a.key[3] == b.key[3]:
                        _do_pair(R, a, b, False, ("type", t1, t2, i, j))


# =========================================================================== sets
def _seqs(nu, maxlen):
    out = [()]
    for n in range(1, maxlen + 1):
        out += list(itertools.product(range(nu), repeat=n))
    return out


_TTL_PAIRS = [(300, 5), (5, 300), (7, 7)]
_ALL_BIN = list(S.BIN_OPS) + list(S.PRED_OPS)
_CLAUSE_OF = {}
for _op, (_m, _f, _ip) in S.BIN_OPS.items():
    _CLAUSE_OF[_op] = S.INPLACE if _ip else S.ALG
for _op in S.PRED_OPS:
    _CLAUSE_OF[_op] = S.PRED


def _bin(R, impl, timpl, sseq, tseq, ts, tt, op, alias=False):
    res = S.chk_binary(impl, timpl, sseq, tseq, ts, tt, op, alias)
    clause = S.IMM if (impl == "ImmutableRdataset" and S.BIN_OPS.get(op, (0, 0, False))[2]) else _CLAUSE_OF[op]
    R.case(clause, key=(impl, timpl, sseq, tseq, ts, tt, op, alias))
    if S.IMPLS[impl][1] and op in S.BIN_OPS:
        R.case(S.TTL, key=("bin", impl, timpl, sseq, tseq, ts, tt, op, alias), nontrivial=bool(tseq) and not alias)
    for c, what, sig in res:
        R.violation(c, what, sig, {"kind": "bin", "impl": impl, "timpl": timpl, "S": list(sseq), "T": list(tseq), "ttl_s": ts, "ttl_t": tt, "op": op, "alias": alias})


def _un(R, impl, sseq, ttl, op, arg):
    res = S.chk_unary(impl, sseq, ttl, op, arg)
    clause = S.IMM if (impl == "ImmutableRdataset" and op not in ("read", "copy")) else (S.ISO if op == "copy" else S.UNARY)
    R.case(clause, key=(impl, sseq, op, arg))
    for c, what, sig in res:
        R.violation(c, what, sig, {"kind": "un", "impl": impl, "S": list(sseq), "ttl": ttl, "op": op, "arg": arg})


def run_sets_exhaustive(R):
    q = R.quick
    plan = [
        # impl, universe objects used, max sequence length
        ("Set", 4 if q else 5, 3),
        ("Rdataset", 4, 2 if q else 3),
        ("RRset", 4, 2 if q else 3),
        ("RdatasetRRSIG", 4, 2),
        ("RdatasetTXT", 4, 1 if q else 2),
        ("ImmutableRdataset", 4, 2),
    ]
    for impl, nu, ml in plan:
        seqs = _seqs(nu, ml)
        has_ttl = S.IMPLS[impl][1]
        ttls = _TTL_PAIRS if has_ttl else [(0, 0)]
        if impl in ("RdatasetRRSIG", "RdatasetTXT", "ImmutableRdataset") or (not q and ml == 3 and has_ttl):
            ttls = ttls[:2] if has_ttl else ttls
        for sn, sseq in enumerate(seqs):
            if R.deadline():
                R.note(f"deadline reached in exhaustive sets ({impl})")
                return
            for op in S.UNARY_OPS:
                args = range(nu + 2) if op in ("add", "remove", "discard") else (range(4) if op in ("delitem", "delslice") else range(2) if op == "copy" else [0])
                for arg in args:
                    _un(R, impl, sseq, 300, op, arg)
            for op in _ALL_BIN:
                _bin(R, impl, impl, sseq, (), 300, 300, op, alias=True)
            for tn, tseq in enumerate(seqs):
                if q and impl == "Set" and len(tseq) == 3 and (tn + sn) % 4:
                    continue  # quick: a quarter of the length-3 right operands
                for n, (ts, tt) in enumerate(ttls):
                    for op in _ALL_BIN:
                        if n and op in S.PRED_OPS:
                            continue
                        _bin(R, impl, impl, sseq, tseq, ts, tt, op)
    R.sample(S.ALG, {"impl": "Rdataset", "S": [0, 2], "T": [1, 3], "op": "union", "note": "universe mx: 0 and 1 are case twins"})


def run_sets_seeded(R):
    rng = R.rng
    n = 6000 if R.quick else 60000
    impls = ["Set", "Rdataset", "RRset", "RdatasetRRSIG", "RdatasetTXT", "ImmutableRdataset"]
    ttlv = [0, 1, 5, 60, 300, 86400, 2**31 - 1]
    for k in range(n):
        if k % 200 == 0 and R.deadline():
            R.note("deadline reached in seeded set pairs")
            return
        impl = rng.choice(impls)
        nu = len(S.universe(S.IMPLS[impl][0])[0])
        sseq = tuple(rng.randrange(nu) for _ in range(rng.randrange(7)))
        tseq = tuple(rng.randrange(nu) for _ in range(rng.randrange(7)))
        timpl = impl
        if impl in ("Rdataset", "ImmutableRdataset") and rng.random() < 0.4:
            timpl = rng.choice(["Rdataset", "ImmutableRdataset"])
        op = rng.choice(_ALL_BIN)
        _bin(R, impl, timpl, sseq, tseq, rng.choice(ttlv), rng.choice(ttlv), op, alias=rng.random() < 0.05)
        uop = rng.choice(S.UNARY_OPS)
        _un(R, impl, sseq, rng.choice(ttlv), uop, rng.randrange(8))


# =========================================================================== rdataset specifics
def run_rdataset(R):
    q = R.quick
    # refusal
    for impl, intrs in (("Rdataset", ["class", "type", "type_txt"]), ("RRset", ["class", "type_txt"]), ("RdatasetRRSIG", ["covers", "type"]), ("SIG", ["covers_sig"])):
        base = "Rdataset" if impl == "SIG" else impl
        for sseq in _seqs(3, 2):
            for intr in intrs:
                for how in ("add", "add_nottl", "update", "union_update", "__ior__", "__iadd__", "union"):
                    for ttl, ittl in ((300, 5), (5, 300)):
                        for ec in (False, True) if intr.startswith("covers") else (False,):
                            if how == "add_nottl" and ittl != 5:
                                continue
                            res, nt = D.chk_refuse(base, sseq, ttl, how, intr, ittl, ec)
                            R.case(D.REFUSE, key=(impl, sseq, intr, how, ttl, ittl, ec), nontrivial=nt)
                            if nt:
                                R.case(D.REFUSE_FX, key=(impl, sseq, intr, how, ttl, ittl, ec))
                            for c, what, sig in res:
                                R.violation(c, what, sig, {"kind": "refuse", "impl": base, "S": list(sseq), "ttl": ttl, "how": how, "intr": intr, "ittl": ittl, "ec": ec})
    R.sample(D.REFUSE, {"impl": "RdatasetRRSIG", "S": [0], "how": "add", "intruder": "RRSIG covering MX", "ttl": 300, "intruder_ttl": 5})
    # singleton sweep
    if q:
        codes = list(range(0, 301)) + sorted({R.rng.randrange(301, 65536) for _ in range(120)}) + [65535, 32768, 256 + 5, 256 + 47, 5 + 65280]
    else:
        codes = range(65536)
    for n, code in enumerate(codes):
        if n % 500 == 0 and R.deadline():
            R.note("deadline reached in singleton sweep")
            break
        res = D.chk_singleton(code)
        R.case(D.SINGLE, key=("generic", code))
        for c, what, sig in res:
            R.violation(c, what, sig, {"kind": "singleton", "rdtype": code, "real": False})
    for code in (5, 6, 39, 47, 15, 2, 16, 12):
        res = D.chk_singleton(code, True)
        R.case(D.SINGLE, key=("real", code))
        for c, what, sig in res:
            R.violation(c, what, sig, {"kind": "singleton", "rdtype": code, "real": True})
    # TTL step lists
    tvals = [None, 5, 300, 0] + ([] if q else [2**31 - 1, 60])
    items = [-1, 0, 1, 2]
    steps1 = [(i, t) for i in items for t in tvals if not (i < 0 and t is None)]
    for impl in ("Rdataset", "RRset", "RdatasetRRSIG"):
        for t0 in (77, 0):
            for L in (1, 2, 3):
                for sn, steps in enumerate(itertools.product(steps1, repeat=L)):
                    if L == 3 and q and sn % 4:
                        continue
                    res = D.chk_ttl_adds(impl, t0, [list(s) for s in steps])
                    R.case(S.TTL, key=("adds", impl, t0, steps))
                    for c, what, sig in res:
                        R.violation(c, what, sig, {"kind": "ttl_adds", "impl": impl, "t0": t0, "steps": [list(s) for s in steps]})
            if R.deadline():
                R.note("deadline reached in TTL step lists")
                return
    R.sample(S.TTL, {"impl": "Rdataset", "t0": 77, "steps": [[0, 300], [1, 5], [2, None]], "expected_ttl": 5})
    # constructors
    for kind, uname in (("rdataset.from_rdata_list", "mx"), ("rdataset.from_rdata", "txt"), ("rrset.from_rdata_list", "a"), ("rrset.from_rdata", "rrsig"), ("rrset.to_rdataset", "mx"), ("Set", "gen")):
        for seq in _seqs(4, 3):
            if not seq and kind != "Set":
                continue
            res = D.chk_from_list(kind, uname, seq, 300)
            R.case(D.CTOR, key=(kind, seq))
            for c, what, sig in res:
                R.violation(c, what, sig, {"kind": "from_list", "ctor": kind, "univ": uname, "seq": list(seq), "ttl": 300})


def run_sequences(R):
    n = 3000 if R.quick else 40000
    impls = ["Set", "Rdataset", "RRset", "RdatasetRRSIG", "RdatasetTXT"]
    for k in range(n):
        if k % 100 == 0 and R.deadline():
            R.note(f"deadline reached in operation sequences after {k}")
            return
        impl = impls[k % len(impls)]
        ops = D.gen_ops(R.rng, impl, 30)
        res, done = D.run_seq(impl, ops)
        R.case(S.SEQ, key=(impl, k, R.seed), nontrivial=done > 0)
        if k < 2:
            R.sample(S.SEQ, {"impl": impl, "ops": ops[:6], "more": len(ops) - 6})
        for c, what, sig in res:
            R.violation(c, what, sig, {"kind": "seq", "impl": impl, "ops": ops[: done + 1]})


# =========================================================================== immutability
def run_immutability(R):
    for pkgname, modname in I.discover():
        label = f"{pkgname}.{modname}"
        try:
            objs = I.instances(pkgname, modname)
        except Exception as e:
            R.note(f"could not build instances of {label}: {type(e).__name__}: {e}")
            R.case(I.REBIND, key=label, nontrivial=False)
            continue
        if objs is None:
            R.note(f"no sample for record class {label}; add one to bounded/_c07_immut.SAMPLES")
            R.case(I.REBIND, key=label, nontrivial=False)
            continue
        for n, o in enumerate(objs):
            res = I.chk_instance(f"{label}(#{n})", o)
            R.case(I.REBIND, key=(label, n))
            R.case(I.FIELDS, key=(label, n))
            for c, what, sig in res:
                R.violation(c, what, sig, {"kind": "imm", "pkg": pkgname, "mod": modname, "n": n})
    for n, (label, o) in enumerate(I.special_instances()):
        res = I.chk_instance(label, o)
        R.case(I.REBIND, key=label)
        R.case(I.FIELDS, key=label)
        for c, what, sig in res:
            R.violation(c, what, sig, {"kind": "imm_special", "n": n})
    R.sample(I.REBIND, {"class": "dns.rdtypes.ANY.MX.MX", "attempts": ["setattr on every slot", "delattr on every slot", "new attribute"], "nested": "exchange (Name)"})
    for case in I.CONST_CASES:
        try:
            res = I.chk_const(case)
        except Exception as e:
            R.note(f"constructor-copy case {case} could not run: {type(e).__name__}: {e}")
            R.case(I.CONST, key=case, nontrivial=False)
            continue
        R.case(I.CONST, key=case)
        for c, what, sig in res:
            R.violation(c, what, sig, {"kind": "const", "case": case})
    for which in I.CONTEXT_CASES:
        try:
            res = I.chk_context(which)
        except Exception as e:
            R.note(f"context case {which} could not run: {type(e).__name__}: {e}")
            continue
        R.case(I.IMMSET if which == "immutable_rdataset" else I.CTX, key=which)
        for c, what, sig in res:
            R.violation(c, what, sig, {"kind": "ctx", "which": which})


# =========================================================================== driver
def run(R):
    run_immutability(R)
    run_rdataset(R)
    run_sets_exhaustive(R)
    run_records(R)
    run_sets_seeded(R)
    run_sequences(R)


def _t(x):
    return tuple(x) if isinstance(x, list) else x


def replay(data):
    kind = data.get("kind")
    if kind == "pair":
        res, _claim = RC.chk_pair(RC.entry_from(data["a"]), RC.entry_from(data["b"]), True)
    elif kind == "sorted":
        res = RC.chk_sorted([RC.entry_from(d) for d in data["entries"]])
    elif kind == "bin":
        res = S.chk_binary(data["impl"], data["timpl"], _t(data["S"]), _t(data["T"]), data["ttl_s"], data["ttl_t"], data["op"], data["alias"])
    elif kind == "un":
        res = S.chk_unary(data["impl"], _t(data["S"]), data["ttl"], data["op"], data["arg"])
    elif kind == "refuse":
        res, _nt = D.chk_refuse(data["impl"], _t(data["S"]), data["ttl"], data["how"], data["intr"], data["ittl"], data["ec"])
    elif kind == "singleton":
        res = D.chk_singleton(data["rdtype"], data["real"])
    elif kind == "ttl_adds":
        res = D.chk_ttl_adds(data["impl"], data["t0"], data["steps"])
    elif kind == "from_list":
        res = D.chk_from_list(data["ctor"], data["univ"], _t(data["seq"]), data["ttl"])
    elif kind == "seq":
        res, _done = D.run_seq(data["impl"], data["ops"])
    elif kind == "imm":
        o = I.instances(data["pkg"], data["mod"])[data["n"]]
        res = I.chk_instance(f"{data['pkg']}.{data['mod']}(#{data['n']})", o)
    elif kind == "imm_special":
        label, o = I.special_instances()[data["n"]]
        res = I.chk_instance(label, o)
    elif kind == "const":
        res = I.chk_const(data["case"])
    elif kind == "ctx":
        res = I.chk_context(data["which"])
    else:
        return (False, f"unknown replay kind {kind!r}")
    if res:
        return (True, "; ".join(f"{c}: {w}" for c, w, _s in res[:3]))
    return (False, "all clauses hold for this case")
