"""Bounded stand-in for C04 -- untrusted wire or text input only ever raises the
library's own errors (DESIGN.md section 4, C04-B6).

Runs the real parser entry points of the ``dns`` package on PYTHONPATH.  Clauses:

  C04.wire_name          dns.name.from_wire: value or FormError family, terminates
  C04.wire_rdata         dns.rdata.from_wire, every implemented type (+ generic)
  C04.wire_option        dns.edns.option_from_wire, every option type (+ generic)
  C04.wire_message       dns.message.from_wire under every option combination
  C04.continue_on_error  failures after the header are recorded with an offset instead of
                         raised (Truncated when requested excepted); differential against
                         the strict parse
  C04.text_name          dns.name.from_text / from_unicode (str, bytes, IDNA codecs)
  C04.text_ttl           dns.ttl.from_text
  C04.text_rdata         dns.rdata.from_text, every implemented type
  C04.text_zone          dns.zone.from_text, dns.zonefile.read_rrsets
  C04.zone_error_location  syntax errors of the zone readers carry file:line
  C04.text_message       dns.message.from_text
  C04.text_tokenizer     Tokenizer.get / Token.unescape / unescape_to_bytes
  C04.rerender           every value returned by any of the above renders to text and wire
                         without a non-library exception; additionally driven by the
                         field-extreme generator (_wire_field_extremes, bounded/_c04_fields.py):
                         per implemented type an RFC-layout specimen RDATA whose fixed-width
                         integer fields take their extreme values one at a time, through
                         rdata.from_wire and (wrapped in a message) message.from_wire, rendered
                         with to_text / to_wire / to_digestable / Message.to_text
"""

from __future__ import annotations

import collections
import itertools

from bounded import _c04_core as K
from bounded import _c04_fields as F
from bounded import _c04_gen as G
from bounded._c04_samples import ALPHABET, NASTY_TOKENS, SAMPLES

BOUNDS = (
    "Real entry points, no mocks.  EXHAUSTIVE: name.from_wire on every buffer of <= 2 octets "
    "(every start offset) and every buffer of <= 4 octets over a 13-value boundary alphabet "
    "{0,1,2,3,63,64,65,127,128,191,192,193,255}; rdata.from_wire for every implemented "
    "(class,type) (71 + generic/NONE/CH) on every buffer of <= 1 octet and every <= 2 (quick) / "
    "<= 3 (thorough) octet buffer over that alphabet, plus for ~115 valid sample rdatas every "
    "prefix, every single-octet deletion/insertion and every single-octet substitution by the "
    "alphabet (quick: one sample per type, sparse positions; thorough: all 256 values in the first "
    "32 octets, 34 boundary values up to octet 96), with and without an origin and behind a "
    "compression-target prefix; edns.option_from_wire likewise for all option codes; "
    "message.from_wire on header x (16 count patterns) x every tail of <= 1 octet (thorough: <= 2 "
    "octets for 4 patterns) x all 64 boolean option combinations (quick: 8), and on 10 "
    "hand-encoded base messages (query, compressed response with OPT, update, TSIG, AXFR, "
    "notify, unknown opcode, TC, URI/TXT/CAA, RRSIG) every prefix and every single-octet substitution "
    "(quick: {0,1,63,64,128,192,255}; thorough: all 256 values in the first 64 octets, 34 boundary "
    "values beyond) in strict and continue_on_error mode; text: every string of "
    "<= 3 characters over the 24-character syntax alphabet to name.from_text (str, bytes), "
    "from_unicode, ttl.from_text, zone.from_text (3 contexts), read_rrsets, message.from_text "
    "(3 contexts), the tokenizer, and to rdata.from_text of 8 representative types (quick: <= 2); "
    "every escape string of <= 5 characters over {\\,0,2,5,6,9,a,.} to the name parsers; every "
    "single-character substitution (24 alphabet) of each valid sample record (thorough; quick: "
    "samples <= 24 chars).  SEEDED (VERIF_SEED): structured name buffers with pointer chains "
    "(quick 4 000 / thorough 150 000), structurally plausible messages with lying counts, "
    "RDLENGTHs, pointers, misplaced OPT/TSIG (quick 2 500 / thorough 80 000, each under strict, "
    "continue_on_error and one random option set incl. keyring none/False/dict/Key, origin, xfr, "
    "multi), token-level mutations of every sample record with a pool of ~170 boundary tokens "
    "(quick 12 / thorough 400 per sample), zone files assembled from ~130 boundary lines and "
    "mutated base zone (quick 2 500 / thorough 100 000), message text likewise (quick 1 500 / "
    "thorough 50 000), long inputs (labels 63/64, names 254..257, 4 301-digit numbers).  Every "
    "returned value is rendered with to_text and to_wire.  FIELD EXTREMES (systematic, not seeded, "
    "same set in both tiers): 88 RDATA specimens written from the RFC wire layouts covering all 72 "
    "implemented (class,type) (several per type for IPSECKEY/AMTRELAY gateway kinds, OPT option "
    "kinds, TSIG/TKEY with and without other-data, SVCB/HTTPS parameter sets); each 8/16/32/48-bit "
    "integer field in turn takes 0, 1, max-1, max, specimen+-1 and the interior boundaries of its "
    "width (u8 19 values, nibble-coded LOC octets all 256, code-point octets 60; u16 28 values "
    "incl. 4094..4097, 255..257, 32767/32768, 65279/65280, code-point fields also 0..69 and "
    "240..261; u32 13; u48 10; LOC coordinates +-90/180 degrees +-1 ms), each length prefix 0, 1, "
    "n-1, n+1, max-1, max, each counted field empty / maximal, each fixed-size opaque field all "
    "00 / all ff, and all integer fields together at 0 / 1 / max-1 / max (about 9 200 RDATA wires): "
    "rdata.from_wire without and with origin; boundary values wrapped into a one-record response "
    "(OPT/TSIG in the additional section) for message.from_wire strict, continue_on_error=True, "
    "origin, one_rr_per_rrset, for TSIG keyring=False (+continue_on_error, +origin) and a keyring, "
    "plus the differential continue_on_error clause (quick: all variants at the four extremes and "
    "for OPT/TSIG/TKEY/SIG/RRSIG, ordinary types otherwise continue_on_error only at 6-10 main "
    "boundaries; thorough: all variants for every boundary value); record-header fields: TTL at "
    "the 32-bit boundaries, for OPT the extended-rcode/version/flags word at 23 values x header "
    "rcode 0/15 and the payload class at 28 values.  Every value returned is rendered with "
    "to_text (with/without origin), to_wire, to_digestable, Message.to_text, Message.to_wire "
    "(also with the unverified TSIG kept) and record by record.  Thorough adds, in the time left "
    "at the end of the run, every octet value, 16-bit 0..299 / powers of two +-1 / 4090..4101 / "
    "65270..65535, and all 65 536 values of TSIG.error, TKEY.error, RRSIG type covered, "
    "EDE info code, OPT option code (about 385 000 RDATA wires).  A watchdog of 20 s per call detects "
    "non-termination.  Tolerated and only counted: DNSException subclasses outside the "
    "FormError/SyntaxError families (UnknownTSIGKey, Truncated, tsig errors, NameTooLong on the "
    "text side, UnknownOrigin, NoSOA/NoNS, CNAMEAndOtherData, UnknownRdatatype, ...).  Not "
    "covered: $INCLUDE (file system), RecursionError/MemoryError on pathological sizes, "
    "$GENERATE ranges > 64 steps; nothing here needs the `cryptography` package (TSIG uses "
    "hmac only)."
)


class _Ctx:
    def __init__(self, R):
        self.R = R
        self.tolerated = collections.Counter()
        self.outcomes = collections.Counter()
        self.n = 0
        self.hung = set()
        self.skipped = collections.Counter()

    def case(self, entry, args, sample=False):
        R = self.R
        hk = (entry, str(args.get("rdtype", args.get("otype", ""))))
        if hk in self.hung:
            # every further hang of the same entry/type costs LIMIT seconds of the budget:
            # the finding is already recorded, the remaining cases of this type are skipped
            self.skipped[hk] += 1
            return {"outcome": "skipped", "exc": None}
        findings, info = K.judge(entry, args)
        if info.get("outcome") == "hang":
            self.hung.add(hk)
        clause = "C04.continue_on_error" if entry == "message.coe" else K.ENTRIES[entry].clause
        R.case(clause, key=(entry, repr(args)), nontrivial=True)
        self.n += 1
        self.outcomes[(entry, info.get("outcome"))] += 1
        if info.get("outcome") == "tolerated":
            self.tolerated[(entry, info.get("exc"))] += 1
        if info.get("outcome") == "value":
            R.case("C04.rerender", key=(entry, repr(args)), nontrivial=True)
        if sample:
            R.sample(clause, {"entry": entry, "args": args, "outcome": info.get("outcome"), "exc": info.get("exc")})
        for cl, what, sig in findings:
            R.violation(cl, what, sig=sig, replay={"entry": entry, "args": args, "clause": cl})
        return info

    def stop(self, frac):
        """Section budget: stop generating for this section once *frac* of the run's time
        budget is used (sizes are chosen so that this normally never triggers)."""
        R = self.R
        return R.deadline() or R.elapsed() > frac * R.budget_s


# ============================================================================ wire: names
def _wire_names(C):
    R = C.R
    first = True
    for buf in G.small_buffers(2, 4):
        if C.stop(0.10):
            R.note("wire_name: exhaustive part cut by budget")
            break
        if len(buf) <= 2:
            curs = range(0, len(buf) + 1) if (not buf or buf[0] in G.B13) else (0,)
        elif len(buf) == 3 or not R.quick:
            curs = (0, 1)
        else:
            curs = (0,)
        for cur in curs:
            C.case("name.from_wire", {"wire": buf, "current": cur}, sample=first and len(buf) == 2)
        first = first and len(buf) < 2
    for cur in (-1, 1, 2, 300):
        C.case("name.from_wire", {"wire": b"\x00", "current": cur})
    for w, cur in G.long_name_buffers():
        C.case("name.from_wire", {"wire": w, "current": cur}, sample=True)
    n = 4000 if R.quick else 150000
    for _ in range(n):
        if C.stop(0.14):
            R.note("wire_name: seeded part cut by budget")
            break
        w, cur = G.random_name_buffer(R.rng)
        C.case("name.from_wire", {"wire": w, "current": cur})


# ============================================================================ wire: rdata
def _wire_rdata(C):
    R = C.R
    types = G.implemented_types()
    small = list(G.small_buffers(1, 2 if R.quick else 3))
    for cls, t in types:
        if C.stop(0.27):
            R.note("wire_rdata: small-buffer part cut by budget")
            break
        for buf in small:
            C.case("rdata.from_wire", {"rdclass": cls, "rdtype": t, "wire": buf, "current": 0, "rdlen": len(buf)})
    prefix = b"\x07example\x00\x03www\xc0\x00"  # pointer targets at 0 and 9
    values = G.B13 if R.quick else list(range(256))
    wires = G.sample_wires()
    seen_types = set()
    for idx, (cls, t, w) in enumerate(wires):
        if C.stop(0.36):
            R.note(f"wire_rdata: sample mutation cut by budget at sample {idx}/{len(wires)}")
            break
        base = {"rdclass": cls, "rdtype": t}
        C.case("rdata.from_wire", dict(base, wire=w, current=0, rdlen=len(w)), sample=idx < 2)
        C.case("rdata.from_wire", dict(base, wire=w, current=0, rdlen=len(w), origin="example."))
        C.case("rdata.from_wire", dict(base, wire=prefix + w, current=len(prefix), rdlen=len(w), origin="example."))
        # rdlen lies relative to the buffer
        for d in (-1, 1):
            C.case("rdata.from_wire", dict(base, wire=w + b"\x00", current=0, rdlen=max(0, len(w) + d)))
        C.case("rdata.from_wire", dict(base, wire=w, current=len(w) + 1, rdlen=0))
        if R.quick and (cls, t) in seen_types:
            continue  # quick: mutate one sample per type
        seen_types.add((cls, t))
        # long rdatas (WKS/NSEC bitmaps, keys): mutate the structured head, keep the tail
        head, tail = w[:96], w[96:]
        if R.quick:
            pos = G.sparse_positions(len(head))
            muts = itertools.chain(
                (head[:n] for n in G.sparse_positions(len(head), 24, 4, 96)),
                (m + tail for m, _ in G.substitutions(head, values, pos, neighbours=False)),
                (m + tail for m in G.indels(head[:12], [0, 0xC0, 0xFF])),
            )
        else:
            muts = itertools.chain(
                G.truncations(head),
                (w[:n] for n in range(96, len(w), max(1, len(w) // 16))),
                (m + tail for m, _ in G.substitutions(head, values, range(0, 32))),
                (m + tail for m, _ in G.substitutions(head, G.B32, range(32, 96))),
                (m + tail for m in G.indels(head[:64], G.B13)),
            )
        for m in muts:
            C.case("rdata.from_wire", dict(base, wire=prefix + m, current=len(prefix), rdlen=len(m)))
    n = 3000 if R.quick else 120000
    for _ in range(n):
        if C.stop(0.38):
            break
        cls, t, w = R.rng.choice(wires)
        m = G._mutate_bytes(R.rng, w)
        o = R.rng.choice([None, "example."])
        C.case("rdata.from_wire", {"rdclass": cls, "rdtype": t, "wire": prefix + m, "current": len(prefix), "rdlen": len(m), "origin": o})


# ============================================================================ wire: options
def _wire_options(C):
    R = C.R
    small = list(G.small_buffers(1, 2 if R.quick else 3))
    for ot in G.option_types():
        for buf in small:
            C.case("edns.option_from_wire", {"otype": ot, "wire": buf, "current": 0, "olen": len(buf)})
    values = G.B13 if R.quick else list(range(256))
    for i, (ot, w) in enumerate(G.OPTION_SAMPLES):
        C.case("edns.option_from_wire", {"otype": ot, "wire": w, "current": 0, "olen": len(w)}, sample=i < 2)
        for m in itertools.chain(G.truncations(w), (x for x, _ in G.substitutions(w, values)), G.indels(w, G.B13)):
            C.case("edns.option_from_wire", {"otype": ot, "wire": m, "current": 0, "olen": len(m)})
        C.case("edns.option_from_wire", {"otype": ot, "wire": w, "current": 0, "olen": len(w) + 1})
        C.case("edns.option_from_wire", {"otype": ot, "wire": w + b"\x00", "current": 1, "olen": len(w)})
    n = 3000 if R.quick else 100000
    ots = G.option_types()
    for _ in range(n):
        if C.stop(0.42):
            break
        ot = R.rng.choice(ots)
        ln = R.rng.choice([3, 4, 5, 6, 7, 8, 9, 12, 15, 16, 17, 20, 24, 32, 40, 41])
        w = bytes(R.rng.choice(G.B32) if R.rng.random() < 0.5 else R.rng.randrange(256) for _ in range(ln))
        if ot == 8:
            w = bytes([0, R.rng.choice([0, 1, 2, 3])]) + w[2:]
        C.case("edns.option_from_wire", {"otype": ot, "wire": w, "current": 0, "olen": len(w)})


# ============================================================================ wire: field extremes
_X4 = {"u8": (0, 1, 254, 255), "u16": (0, 1, 65534, 65535), "u32": (0, 1, 0xFFFFFFFE, 0xFFFFFFFF),
       "u48": (0, 1, (1 << 48) - 2, (1 << 48) - 1)}
# types with their own handling in the message layer (OPT, TSIG, TKEY, SIG/RRSIG: covers()):
# every edge value goes through the message path also in the quick tier
_MSG_TYPES = (24, 41, 46, 249, 250)
_MSG_EDGE = {"u8": (0, 1, 127, 128, 254, 255), "u16": (0, 1, 255, 256, 4095, 4096, 32767, 32768, 65534, 65535),
             "u32": (0, 1, 0x7FFFFFFF, 0x80000000, 0xFFFFFFFE, 0xFFFFFFFF), "len8": (0, 255), "len16": (0, 65535)}
# quick: the record-header sweep (TTL; OPT class/TTL) does not depend on the type of an ordinary
# record: a few representative layouts (thorough: every layout)
_HDR_QUICK = ("A", "SOA", "RRSIG", "TKEY", "NSEC", "OPT-nsid", "OPT-ecs", "OPT-ede", "TSIG")
_OPT_TTLS = [0x01000000, 0x0F000000, 0xFF000000, 0x00010000, 0x00FF0000, 0x00008000, 0x00007FFF, 0x0000FFFF, 0xFF00FFFF, 0xFFFF8000]


def _wire_field_extremes(C):
    """C04.rerender on systematically built records: for every implemented type a specimen
    RDATA written from the RFC layout (bounded/_c04_fields.py) in which each fixed-width
    integer field in turn takes its extreme and boundary values, parsed by rdata.from_wire and,
    wrapped into a message, by message.from_wire (strict, continue_on_error, origin,
    keyring=False for TSIG); every value returned is rendered with to_text, to_wire,
    to_digestable, Message.to_text, Message.to_wire and record by record."""
    R = C.R
    impl = set(G.implemented_types())
    missing = sorted(impl - F.covered_types())
    if missing:
        R.note(f"field extremes: no layout for implemented types {missing}")
    n_cases = n_value = n_spec_bad = 0
    per_type_value = collections.Counter()
    sampled = False
    for c in F.cases():
        if C.stop(0.55):
            R.note(f"wire_field_extremes: cut by budget at {c['layout']} after {n_cases} wires")
            break
        cls, t, w = c["rdclass"], c["rdtype"], c["wire"]
        what = c["layout"] if c["field"] is None else f"{c['layout']}.{c['field']}={c['value']}"
        base = {"rdclass": cls, "rdtype": t, "wire": w, "current": 0, "rdlen": len(w), "deep": True, "field": what}
        n_cases += 1
        info = C.case("rdata.from_wire", base, sample=(not sampled and c["kind"] == "u16" and c["value"] == 65535))
        sampled = sampled or (c["kind"] == "u16" and c["value"] == 65535)
        if info["outcome"] == "value":
            n_value += 1
            per_type_value[c["layout"]] += 1
        elif c["kind"] == "specimen":
            # the unmodified specimen is valid by the RFC; a rejection here means the sweep of
            # this layout does not reach the rendering code (harness problem, not a finding)
            n_spec_bad += 1
            R.note(f"field extremes: specimen {c['layout']} not accepted by rdata.from_wire: {info.get('exc')}")
        if not c["edge"]:
            continue
        C.case("rdata.from_wire", dict(base, origin="example."))
        x4 = c["kind"] in ("specimen", "all", "fix") or c["value"] in _X4.get(c["kind"], ())
        if R.quick and not x4 and t not in _MSG_TYPES and c["value"] not in _MSG_EDGE.get(c["kind"], ()):
            continue  # quick: ordinary types go through the message path at the main boundaries only
        opts = F.message_opts(t)
        special = t in _MSG_TYPES
        if R.quick and not special:
            # quick, ordinary types: strict + continue_on_error; the origin variant at the four
            # extremes; all variants for the specimen
            nopts = len(opts) if c["kind"] == "specimen" else 3 if x4 and c["kind"] in F.WIDTH else 2
        else:
            nopts = len(opts) if (x4 or not R.quick) else 2
        mw = F.wrap_message(cls, t, w)
        use = opts[:nopts]
        if R.quick and not special and not x4:
            use = opts[1:2]  # continue_on_error alone: equals the strict parse unless an error is recorded
        for j, o in enumerate(use):
            C.case("message.from_wire", {"wire": mw, "opts": o, "deep": True, "rdtype": t, "field": what},
                   sample=(c["kind"] == "specimen" and t == 250 and j == 0))
            if not o.get("continue_on_error") and (not R.quick or c["kind"] in ("specimen", "all") or (special and x4)):
                C.case("message.coe", {"wire": mw, "opts": o})
        if c["kind"] == "specimen" and (not R.quick or c["layout"] in _HDR_QUICK):
            # the fixed-width fields of the record header: TTL (OPT: extended rcode, version,
            # flags), OPT class (payload size), header rcode
            ttls = sorted(set(_MSG_EDGE["u32"] if R.quick and t != 41 else F.edge("u32")) | (set(_OPT_TTLS) if t == 41 else set()))
            for ttl in ttls:
                for flags in ((0x8180, 0x818F) if t == 41 else (0x8180,)):
                    mw = F.wrap_message(cls, t, w, ttl=ttl, flags=flags)
                    for o in opts[:2]:
                        C.case("message.from_wire", {"wire": mw, "opts": o, "deep": True, "rdtype": t, "field": f"{what}.rr_ttl={ttl}"})
            if t == 41:
                for payload in F.edge("u16"):
                    mw = F.wrap_message(cls, t, w, payload=payload)
                    for o in opts[:2]:
                        C.case("message.from_wire", {"wire": mw, "opts": o, "deep": True, "rdtype": t, "field": f"{what}.payload={payload}"})
    silent = sorted(l for _, _, l, _ in F.LAYOUTS if per_type_value[l] <= 1)
    R.note(f"wire_field_extremes: {n_cases} field-extreme RDATA wires, {n_value} accepted by rdata.from_wire and rendered; "
           f"{n_spec_bad} specimens rejected; layouts with no accepted variant besides the specimen: {silent}")


def _wire_field_extremes_dense(C):
    """Thorough tier only, run last with whatever budget is left: the interior of the integer
    fields (every octet value, 16-bit neighbourhoods, all 65 536 values of the error /
    type-covered / option-code fields) through rdata.from_wire and every rendering."""
    R = C.R
    if R.quick:
        return
    n = n_value = 0
    for c in F.extra_cases():
        if R.deadline():
            R.note(f"wire_field_extremes_dense: cut by the deadline at {c['layout']}.{c['field']} after {n} wires")
            break
        w = c["wire"]
        n += 1
        info = C.case("rdata.from_wire", {"rdclass": c["rdclass"], "rdtype": c["rdtype"], "wire": w, "current": 0, "rdlen": len(w),
                                          "deep": True, "field": f"{c['layout']}.{c['field']}={c['value']}"})
        n_value += info["outcome"] == "value"
    R.note(f"wire_field_extremes_dense: {n} further RDATA wires, {n_value} accepted and rendered")


# ============================================================================ wire: messages
def _both(C, wire, opts, span=None, sample=False):
    C.case("message.from_wire", {"wire": wire, "opts": opts}, sample=sample)
    a = {"wire": wire, "opts": {k: v for k, v in opts.items() if k != "continue_on_error"}}
    if span is not None:
        a["expect_span"] = list(span)
    C.case("message.coe", a, sample=sample)


def _wire_messages(C):
    R = C.R
    # (a) header + tiny tails
    patterns = list(itertools.product([0, 1], repeat=4))
    combos = list(G.all_bool_opts())
    if R.quick:
        combos = [c for i, c in enumerate(combos) if i in (0, 1, 2, 4, 8, 16, 32, 63)]
    tails = list(G.small_buffers(1, 1))
    for qd, an, ns, ar in patterns:
        for flags in (0x0000, 0x8200, 0x2800):
            if R.quick and flags == 0x2800 and (qd, an, ns, ar) not in ((1, 0, 0, 0), (0, 1, 0, 0)):
                continue
            hdr = G.enc_header(1, flags, qd, an, ns, ar)
            for tail in tails:
                if C.stop(0.50):
                    break
                full = (not R.quick) or len(tail) == 0 or tail[0] in G.B13
                for o in combos if full else combos[:2]:
                    C.case("message.from_wire", {"wire": hdr + tail, "opts": o})
                C.case("message.coe", {"wire": hdr + tail, "opts": {}})
                C.case("message.coe", {"wire": hdr + tail, "opts": {"raise_on_truncation": True, "ignore_trailing": True}})
    if not R.quick:
        for pat in ((1, 0, 0, 0), (0, 1, 0, 0), (0, 0, 1, 0), (0, 0, 0, 1)):
            hdr = G.enc_header(1, 0x8000, *pat)
            for tail in G.small_buffers(2, 2):
                if len(tail) < 2:
                    continue
                if C.stop(0.50):
                    break
                _both(C, hdr + tail, {})
    for n in range(0, 12):
        for o in ({}, {"continue_on_error": True}, {"raise_on_truncation": True}):
            C.case("message.from_wire", {"wire": bytes([0x82] * n), "opts": o})
        C.case("message.coe", {"wire": bytes([0x82] * n), "opts": {}})
    # (b) corrupted single record: offset must lie inside that record
    for wire, span in G.corrupted_record_messages():
        _both(C, wire, {}, span=span, sample=True)
        _both(C, wire, {"one_rr_per_rrset": True}, span=span)
    # (c) base messages: prefixes, substitutions
    values = [0, 1, 63, 64, 128, 192, 255] if R.quick else list(range(256))
    for label, wire, hint, spans in G.base_messages():
        if C.stop(0.62):
            R.note("wire_message: base-message mutation cut by budget at " + label)
            break
        for o in ({}, hint, dict(hint, one_rr_per_rrset=True), dict(hint, question_only=True),
                  dict(hint, raise_on_truncation=True), dict(hint, keyring="false"), dict(hint, keyring="dict", multi=True)):
            _both(C, wire, o, sample=(label == "response+opt" and not o))
        for p in G.truncations(wire):
            _both(C, p, hint)
            C.case("message.from_wire", {"wire": p, "opts": dict(hint, raise_on_truncation=True, continue_on_error=True)})
        if R.quick:
            subs = G.substitutions(wire, values, neighbours=False)
        else:
            subs = itertools.chain(G.substitutions(wire, values, range(0, 64)), G.substitutions(wire, G.B32, range(64, len(wire))))
        for m, pos in subs:
            _both(C, m, hint)
        if not R.quick:
            for m in G.indels(wire, [0, 0xC0, 0xFF]):
                _both(C, m, hint)
    # (d) seeded structural messages
    by_type = collections.defaultdict(list)
    for c, t, w in G.sample_wires():
        by_type[(c, t)].append((c, t, w))
    n = 2500 if R.quick else 80000
    for i in range(n):
        if C.stop(0.70):
            R.note(f"wire_message: seeded part cut by budget at {i}/{n}")
            break
        wire = G.random_message(R.rng, by_type)
        _both(C, wire, {}, sample=i < 1)
        o = G.random_opts(R.rng)
        _both(C, wire, o)


# ============================================================================ text: names, ttl
_ORIGINS = [".", None, "example.", "rel"]
_CODECS = [None, "2003s", "2008", "2008p", "2008u", "2008t", "2008s", "2003p"]


def _text_names(C):
    R = C.R
    first = True
    for s in G.strings_upto(3):
        if C.stop(0.76):
            R.note("text_name: exhaustive part cut by budget")
            break
        C.case("name.from_text", {"text": s}, sample=first and len(s) == 3)
        first = first and len(s) < 3
        C.case("name.from_text", {"text": s, "as_bytes": True, "origin": None})
        if len(s) <= 2 or not R.quick:
            C.case("name.from_unicode", {"text": s, "origin": "example."})
    for s in G.strings_upto(4 if R.quick else 5, G.ESC_ALPHABET):
        if "\\" not in s:
            continue
        C.case("name.from_text", {"text": s})
        C.case("name.from_unicode", {"text": s})
    # every decimal escape, in both parsers, bytes and str
    for v in range(1000):
        t = "a\\%03db" % v
        C.case("name.from_text", {"text": t})
        C.case("name.from_text", {"text": t, "as_bytes": True})
        C.case("name.from_unicode", {"text": t})
        C.case("name.from_text", {"text": t + "é", "codec": "2008"})
    long_ = [
        "a" * 63, "a" * 64, "a" * 63 + ".", ("a" * 63 + ".") * 3 + "a" * 61, ("a" * 63 + ".") * 3 + "a" * 62,
        ("a" * 63 + ".") * 3 + "a" * 61 + ".", ("a" * 63 + ".") * 3 + "a" * 62 + ".", "a." * 126 + "a", "a." * 127, "a." * 128,
        "\\001" * 63, "\\001" * 64, "é" * 20, "é" * 63, "é" * 64, "xn--" + "a" * 59, "xn--" + "a" * 60, "xn--\\255", "xn--a\u0301",
        "\u3002", "a\u3002b\uff0ec\uff61", "\uff0e\uff0e", "ß.de", "faß.de", "\u200d", "a\u200db", "٠١.example", "\\٠٠١", "\\0٠1",
        "-a.example", "a-.example", "ab--c.example", "A_B.example", "\ud7ff", "\U0001f600", "\x00", "\x7f\x80", "a\\", "\\", "\\.", "\\\\",
        "9" * 4301, "\\" + "9" * 4301, "a" * 70000,
    ]
    for s in long_ + NASTY_TOKENS:
        for o in _ORIGINS[:3] if R.quick else _ORIGINS:
            for c in _CODECS[:4] if R.quick else _CODECS:
                C.case("name.from_text", {"text": s, "origin": o, "codec": c})
                C.case("name.from_unicode", {"text": s, "origin": o, "codec": c})
        try:
            s.encode("latin-1")
        except UnicodeError:
            continue
        C.case("name.from_text", {"text": s, "as_bytes": True})
    n = 3000 if R.quick else 100000
    pool = ["a", "b", "A", "-", "_", ".", ".", "\\", "\\0", "\\2", "\\25", "\\255", "\\256", "9", "é", "ü", "\u3002", "xn--", "@", "*", " ", "\"", "$", "(", ";", "\u0660", "ß"]
    for _ in range(n):
        if C.stop(0.80):
            break
        s = "".join(R.rng.choice(pool) for _ in range(R.rng.choice([1, 2, 3, 5, 8, 13, 40, 70, 130, 260])))
        C.case(R.rng.choice(["name.from_text", "name.from_unicode"]),
               {"text": s, "origin": R.rng.choice(_ORIGINS), "codec": R.rng.choice(_CODECS)})


def _text_ttl(C):
    R = C.R

    def one(s, sample=False):
        info = C.case("ttl.from_text", {"text": s}, sample=sample)
        if info["outcome"] == "value":
            v = info["value"]
            if not isinstance(v, int) or isinstance(v, bool) or not (0 <= v <= 0xFFFFFFFF):
                R.violation("C04.text_ttl", f"ttl.from_text({K.short(s, 40)!r}) returned {v!r}, not a 32-bit TTL",
                            sig={"entry": "ttl.from_text", "class": "value out of range"},
                            replay={"entry": "ttl.from_text", "args": {"text": s}, "clause": "C04.text_ttl"})

    alpha = ["0", "1", "9", "w", "d", "h", "m", "s", "W", "S", "x", "-", "+", " ", ".", "\u0661", "_"]
    for n in range(0, 5 if R.quick else 6):
        for t in itertools.product(alpha if n < 5 else alpha[:4] + alpha[5:8] + alpha[10:14] + alpha[15:16], repeat=n):
            one("".join(t), sample=(n == 3 and t[0] == "1" and t[1] == "w"))
    for s in G.strings_upto(3):
        one(s)
    for s in ["4294967295", "4294967296", "4294967294", "7101w", "7102w", "49710d", "49711d", "1193046h", "1193047h", "71582788m", "71582789m",
              "4294967295s", "4294967296s", "1w1w", "0w0d0h0m0s", "1W1D1H1M1S", "9" * 4300, "9" * 4301, "9" * 4301 + "s", "0" * 5000, "0" * 5000 + "1",
              "١٢", "1\u00b2", "²", "1٣s", "\uff11", "1\uff57", "1k", "１w", "1 w", " 1", "1\n", "", "\x00", "1e3", "0x10", "1_0", "+1", "-0", "1.0"] + NASTY_TOKENS:
        one(s)
    n = 2000 if R.quick else 100000
    for _ in range(n):
        s = "".join(R.rng.choice("0123456789wdhmsWDHMS") for _ in range(R.rng.choice([2, 3, 4, 6, 9, 12, 20])))
        one(s)


# ============================================================================ text: rdata
_REPR_TYPES = [("IN", "A"), ("IN", "TXT"), ("IN", "MX"), ("IN", "SOA"), ("IN", "NSEC"), ("IN", "LOC"), ("IN", "SVCB"), ("IN", "CAA")]


def _text_rdata(C):
    R = C.R
    for c, t in _REPR_TYPES:
        for s in G.strings_upto(2 if R.quick else 3):
            if C.stop(0.86):
                break
            C.case("rdata.from_text", {"rdclass": c, "rdtype": t, "text": s})
    # every implemented type on the boundary tokens alone and in pairs with a valid prefix
    for cls, t in G.implemented_types():
        for s in NASTY_TOKENS[:60] if R.quick else NASTY_TOKENS:
            C.case("rdata.from_text", {"rdclass": cls, "rdtype": t, "text": s})
        for s in ("", " ", "\\# 0", "\\# 1 00", "\\# 1", "\\# 2 00", "\\# x", "\\# 65536 00", "\\# -1", "\\#", "\\# 1 0", "\\# 1 0g", '\\# 1 "00"'):
            C.case("rdata.from_text", {"rdclass": cls, "rdtype": t, "text": s})
    per = 12 if R.quick else 400
    for idx, (c, t, x) in enumerate(SAMPLES):
        if C.stop(0.90):
            R.note(f"text_rdata: sample mutation cut by budget at {idx}/{len(SAMPLES)}")
            break
        base = {"rdclass": c, "rdtype": t}
        C.case("rdata.from_text", dict(base, text=x, origin="example."), sample=idx < 2)
        C.case("rdata.from_text", dict(base, text=x, origin="example.", relativize=False))
        C.case("rdata.from_text", dict(base, text=x))
        C.case("rdata.from_text", dict(base, text=x + " ; comment"))
        C.case("rdata.from_text", dict(base, text="( " + x + " )"))
        C.case("rdata.from_text", dict(base, text="( " + x))
        C.case("rdata.from_text", dict(base, text=x + " )"))
        C.case("rdata.from_text", dict(base, text=x.replace(" ", "\n")))
        for k in range(len(x)):
            if R.quick and k % 3:
                continue
            C.case("rdata.from_text", dict(base, text=x[:k], origin="example."))
        if not R.quick or len(x) <= 24:
            for m in G.char_substitutions(x[:80]):
                C.case("rdata.from_text", dict(base, text=m, origin="example."))
        for m in G.token_mutations(R.rng, x, per):
            C.case("rdata.from_text", dict(base, text=m, origin=R.rng.choice([None, "example."]),
                                           relativize=R.rng.random() < 0.7))


# ============================================================================ text: zones
def _text_zones(C):
    R = C.R
    soa = "@ 300 IN SOA a b 1 2 3 4 5\n"
    first = True
    for s in G.strings_upto(3):
        if C.stop(0.93):
            R.note("text_zone: exhaustive part cut by budget")
            break
        C.case("zone.from_text", {"text": s}, sample=first and len(s) == 3)
        first = first and len(s) < 3
        C.case("zone.from_text", {"text": s, "origin": None})
        C.case("zonefile.read_rrsets", {"text": s})
        if len(s) <= 2 or not R.quick:
            C.case("zone.from_text", {"text": soa + s + " A 1.2.3.4\n", "relativize": False})
            C.case("zonefile.read_rrsets", {"text": s, "name": "a.", "ttl": 5, "rdclass": "IN", "rdtype": "TXT"})
    # boundary lines, alone and inside the base zone, at a known line
    base_lines = G.BASE_ZONE.split("\n")[:-1]
    for i, ln in enumerate(G.ZONE_LINES):
        for rel in (True, False):
            C.case("zone.from_text", {"text": ln + "\n", "relativize": rel})
            C.case("zone.from_text", {"text": ln, "relativize": rel, "check_origin": True})
            C.case("zone.from_text", {"text": soa + "@ NS ns\n" + ln + "\n", "relativize": rel, "check_origin": True, "filename": "zone.db"})
            C.case("zone.from_text", {"text": ln + "\n", "origin": None, "relativize": rel})
            C.case("zone.from_text", {"text": ln + "\n", "origin": None, "relativize": rel, "check_origin": True})
            C.case("zone.from_text", {"text": ln + "\n", "allow_directives": False, "relativize": rel})
            C.case("zone.from_text", {"text": ln + "\n", "allow_directives": ["$TTL"], "relativize": rel})
        for pos in (3, len(base_lines)):
            if "\n" in ln:
                continue
            t = "\n".join(base_lines[:pos] + [ln] + base_lines[pos:]) + "\n"
            C.case("zone.from_text", {"text": t})
        C.case("zonefile.read_rrsets", {"text": ln + "\n"})
        C.case("zonefile.read_rrsets", {"text": ln + "\n", "default_ttl": "1h", "rdclass": "none", "origin": "example.", "relativize": True})
        C.case("zonefile.read_rrsets", {"text": ln.split(" ", 1)[-1] + "\n", "name": "x", "origin": "example."})
    # error location: a valid zone with exactly one malformed line at a known place
    good = ["$TTL 300", "@ SOA a b 1 2 3 4 5", "@ NS a", "a A 10.0.0.1", "b AAAA ::1", "c TXT \"x\" ; c", "d MX 10 a", "e CNAME a"]
    bad_lines = ["f A 1.2.3", "f A", "f BOGUS 1", "f 300 CH A 1.2.3.4", "f A 1.2.3.4 extra", "f MX x a", "f TXT \"abc", "f.. A 1.2.3.4",
                 "$BOGUS", "$TTL x", "f AAAA 1.2.3.4", "f TXT \\", ") f A 1.2.3.4", "f SOA a b 1 2 3 4", "f A \\# 3 010203"]
    for bl in bad_lines:
        for pos in range(1, len(good) + 1):
            lines = good[:pos] + [bl] + good[pos:]
            C.case("zone.from_text", {"text": "\n".join(lines) + "\n", "expect_line": pos + 1, "filename": "db.example"},
                   sample=(pos == 2 and bl == "f A 1.2.3"))
            C.case("zonefile.read_rrsets", {"text": "\n".join(lines[1:]).replace("@", "example.") + "\n",
                                            "expect_line": pos, "default_ttl": 5, "origin": "example."})
    # seeded: assembled and mutated zone files
    n = 2500 if R.quick else 100000
    for i in range(n):
        if C.stop(0.96):
            R.note(f"text_zone: seeded part cut by budget at {i}/{n}")
            break
        r = R.rng.random()
        if r < 0.4:
            k = R.rng.choice([1, 2, 3, 5, 8])
            lines = [R.rng.choice(G.ZONE_LINES) for _ in range(k)]
            if R.rng.random() < 0.6:
                lines.insert(0, soa.strip())
            text = "\n".join(lines) + R.rng.choice(["\n", "", "\n\n"])
        elif r < 0.8:
            lines = list(base_lines)
            j = R.rng.randrange(len(lines))
            if lines[j].startswith("$GENERATE"):
                pool = ["a$", "$", "${0,2,d}", "A", "IN", "300", "1-2", "0-0", "3-1", "1-5/2", "x", '""', "\\999", "(", ")", ";", "CNAME", "@"]
                lines[j] = next(G.token_mutations(R.rng, lines[j], 1, pool))
                if lines[j].split(" ")[0].upper() != "$GENERATE" and "$GENERATE" in lines[j].upper():
                    lines[j] = "; " + lines[j]
            else:
                lines[j] = next(G.token_mutations(R.rng, lines[j], 1))
            text = "\n".join(lines) + "\n"
        else:
            text = "".join(R.rng.choice(ALPHABET + ["a", "A", "IN", "1", " ", " ", "\n", "SOA", "TXT", "$TTL", "$ORIGIN", "example."]) for _ in range(R.rng.choice([4, 6, 10, 20, 40])))
        if _unsafe_generate(text):
            continue
        o = R.rng.choice(["example.", "example.", None, ".", "sub.example."])
        C.case("zone.from_text", {"text": text, "origin": o, "relativize": R.rng.random() < 0.5, "check_origin": R.rng.random() < 0.3},
               sample=i < 1)
        if R.rng.random() < 0.3:
            C.case("zonefile.read_rrsets", {"text": text, "origin": o or ".", "relativize": R.rng.random() < 0.5,
                                            "default_ttl": R.rng.choice([0, 5, "1h"]), "rdclass": R.rng.choice(["IN", "none"])})


def _unsafe_generate(text):
    """$GENERATE lines whose range or width would make the harness itself burn time or
    memory (not a termination defect: BIND semantics allow them)."""
    import re

    for ln in text.split("\n"):
        if "$generate" not in ln.lower():
            continue
        for m in re.finditer(r"\d+", ln):
            if len(m.group(0)) > 3:
                return True
    return False


# ============================================================================ text: messages
def _text_messages(C):
    R = C.R
    pre_q = "id 1\nopcode QUERY\n;QUESTION\n"
    pre_a = "id 1\nopcode QUERY\nrcode NOERROR\nflags QR\n;ANSWER\n"
    pre_u = "id 1\nopcode UPDATE\n;ZONE\nexample. IN SOA\n;UPDATE\n"
    for s in G.strings_upto(2 if R.quick else 3):
        if C.stop(0.98):
            break
        C.case("message.from_text", {"text": s})
        C.case("message.from_text", {"text": pre_q + s})
        C.case("message.from_text", {"text": pre_a + "a. 1 IN TXT " + s})
        C.case("message.from_text", {"text": pre_u + s})
    for ln in G.MSG_LINES:
        for pre in ("", pre_q, pre_a, pre_u, "id 1\nedns 0\n;OPT\n", "id 1\n;ADDITIONAL\n"):
            C.case("message.from_text", {"text": pre + ln + "\n"}, sample=(pre == pre_a and ln.startswith("www.example. 300 IN A 1")))
            C.case("message.from_text", {"text": pre + ln})
    n = 1500 if R.quick else 50000
    for i in range(n):
        if C.stop(0.99):
            break
        k = R.rng.choice([1, 2, 3, 4, 6, 9])
        lines = []
        for _ in range(k):
            ln = R.rng.choice(G.MSG_LINES)
            if R.rng.random() < 0.3:
                ln = next(G.token_mutations(R.rng, ln, 1))
            lines.append(ln)
        C.case("message.from_text", {"text": "\n".join(lines) + R.rng.choice(["\n", ""])})


def _text_tokenizer(C):
    R = C.R
    for s in G.strings_upto(3 if R.quick else 4):
        if C.stop(0.995):
            break
        if R.quick and len(s) == 3 and not (set(s) & set('\\"();\n')):
            continue
        C.case("tokenizer", {"text": s, "unescape": "str"})
        C.case("tokenizer", {"text": s, "unescape": "bytes", "want_leading": True, "want_comment": True})
    for s in G.strings_upto(5, ["\\", "0", "2", "5", "6", "a", '"']):
        C.case("tokenizer", {"text": s, "unescape": "str"})
        C.case("tokenizer", {"text": s, "unescape": "bytes"})


# ============================================================================ driver
def run(R):
    if not K.install_watchdog():
        R.note("watchdog not installed (not the main thread): non-termination would block the run")
    C = _Ctx(R)
    # order: cheap exhaustive scopes of every clause first, long seeded tails are bounded by
    # per-section budget fractions so that every clause is evaluated in every run
    for fn in (_wire_names, _wire_rdata, _wire_options, _wire_field_extremes, _wire_messages, _text_names, _text_ttl,
               _text_rdata, _text_zones, _text_messages, _text_tokenizer, _wire_field_extremes_dense):
        t0 = R.elapsed()
        try:
            fn(C)
        except Exception:  # harness bug: a note, never a violation
            import traceback

            R.note(f"harness error in {fn.__name__}: {traceback.format_exc(limit=4)}")
        R.note(f"{fn.__name__}: {R.elapsed() - t0:.1f} s")
    for hk, n in sorted(C.skipped.items()):
        R.note(f"after the recorded hang of {hk[0]} type {hk[1]}: {n} further cases of that type skipped")
    tol = ", ".join(f"{e}:{x}={n}" for (e, x), n in sorted(C.tolerated.items()))
    R.note("tolerated DNSException subclasses outside the stated family (entry:class=count): " + tol)


def replay(data):
    return K.replay(data)
