"""Reference model, message generator and *independent* wire decoder shared by the
bounded stand-ins C03 and C08.

Nothing in the decoder or in the expected-frame computation calls into ``dns``:
record layouts are taken from the RFCs (1035, 2136, 2782, 2915, 3597, 4034, 6891,
8945, ...), names are tuples of label ``bytes`` (absolute names end with ``b""``),
and the expected content of every record is the octet string *this module* built.
The library is only used to turn that model into ``dns.message.Message`` objects
(``build_library_message``) and, of course, as the code under test.
"""

from __future__ import annotations

import random
import struct

# ----------------------------------------------------------------------------- names


def name_wire(labels) -> bytes:
    return b"".join(bytes([len(l)]) + l for l in labels)


def lower_labels(labels):
    return tuple(l.lower() for l in labels)


def is_abs(labels) -> bool:
    return len(labels) > 0 and labels[-1] == b""


def absolutize(labels, origin):
    if is_abs(labels):
        return tuple(labels)
    assert origin is not None
    return tuple(labels) + tuple(origin)


# ----------------------------------------------------------------------------- layouts
# Rdata layouts used by the independent decoder.  N = domain name (may be compressed by a
# renderer), 1/2/4 = fixed-width integer, S = <character-string>, * = rest (opaque).
# Source: the defining RFC of each type.  Types not listed are opaque (RFC 3597).

LAYOUT = {
    2: "N",  # NS
    3: "N",  # MD
    4: "N",  # MF
    5: "N",  # CNAME
    6: "NN44444",  # SOA
    7: "N",  # MB
    8: "N",  # MG
    9: "N",  # MR
    12: "N",  # PTR
    15: "2N",  # MX
    17: "NN",  # RP
    18: "2N",  # AFSDB
    21: "2N",  # RT
    23: "N",  # NSAP-PTR
    24: "2114442N*",  # SIG
    26: "2NN",  # PX
    33: "222N",  # SRV
    35: "22SSSN",  # NAPTR
    36: "2N",  # KX
    39: "N",  # DNAME
    46: "2114442N*",  # RRSIG
    47: "N*",  # NSEC
    64: "2N*",  # SVCB
    65: "2N*",  # HTTPS
    66: "212N",  # DSYNC
    107: "2N",  # LP
    249: "N*",  # TKEY
    250: "N*",  # TSIG
}
CH_A_LAYOUT = "N2"  # class CH, type A (RFC 1035 is silent; Chaosnet address record)

T_OPT = 41
T_TSIG = 250
T_AMTRELAY = 260


class DecodeError(Exception):
    pass


class Decoded:
    """Result of the independent decoder."""

    __slots__ = (
        "id",
        "flags",
        "counts",
        "sections",
        "pointers",
        "problems",
        "ends",
        "starts",
        "length",
    )


class Frame:
    """One record as decoded: owner labels (exact octets), type, class, ttl (None for a
    question entry) and the rdata as a normalised field list
    [("b", bytes) | ("n", labels)], names fully expanded."""

    __slots__ = ("owner", "rdtype", "rdclass", "ttl", "fields", "start", "end")

    def __init__(self, owner, rdtype, rdclass, ttl, fields, start=0, end=0):
        self.owner = owner
        self.rdtype = rdtype
        self.rdclass = rdclass
        self.ttl = ttl
        self.fields = fields
        self.start = start
        self.end = end

    def key(self):
        return (self.owner, self.rdtype, self.rdclass, self.ttl, self.fields)

    def lkey(self):
        f = None
        if self.fields is not None:
            f = tuple((k, lower_labels(v)) if k == "n" else (k, v) for k, v in self.fields)
        return (lower_labels(self.owner), self.rdtype, self.rdclass, self.ttl, f)

    def describe(self):
        return {
            "owner": [l.decode("latin-1") for l in self.owner],
            "type": self.rdtype,
            "class": self.rdclass,
            "ttl": self.ttl,
            "fields": None
            if self.fields is None
            else [
                (k, [l.decode("latin-1") for l in v]) if k == "n" else (k, v.hex())
                for k, v in self.fields
            ],
        }


def norm_fields(fields):
    """Merge adjacent byte pieces, drop empty ones; names stay separate."""
    out = []
    for k, v in fields:
        if k == "b":
            if not v:
                continue
            if out and out[-1][0] == "b":
                out[-1] = ("b", out[-1][1] + v)
            else:
                out.append(("b", v))
        else:
            out.append(("n", tuple(v)))
    return tuple(out)


class WireDecoder:
    """RFC 1035 section 4 message decoder with strict pointer rules.

    A compression pointer is accepted only if its target is smaller than the offset of
    the name that contains it *and* is the offset at which a label (or the terminating
    root octet) of an earlier, literally written domain name starts.  Violations are
    collected in ``problems``; structural errors raise DecodeError."""

    def __init__(self, wire: bytes):
        self.w = wire
        self.label_starts = set()
        self.pointers = []
        self.problems = []

    # -- names
    def name(self, off: int, end: int):
        w = self.w
        labels = []
        pos = off
        nxt = None
        pending = []
        total = 0
        hops = 0
        limit = end
        while True:
            if pos >= limit:
                raise DecodeError(f"name at {off} runs past {limit}")
            c = w[pos]
            if c == 0:
                if nxt is None:
                    pending.append(pos)
                    nxt = pos + 1
                labels.append(b"")
                total += 1
                break
            if c < 64:
                if pos + 1 + c > limit:
                    raise DecodeError(f"label at {pos} runs past {limit}")
                if nxt is None:
                    pending.append(pos)
                labels.append(w[pos + 1 : pos + 1 + c])
                total += 1 + c
                pos += 1 + c
                continue
            if c >= 192:
                if pos + 2 > limit:
                    raise DecodeError(f"pointer at {pos} runs past {limit}")
                target = ((c & 0x3F) << 8) | w[pos + 1]
                self.pointers.append((pos, target))
                if nxt is None:
                    nxt = pos + 2
                if target >= off:
                    self.problems.append(
                        f"pointer at {pos} targets {target}, not before the name at {off}"
                    )
                    raise DecodeError("forward pointer")
                if target not in self.label_starts:
                    self.problems.append(
                        f"pointer at {pos} targets {target}, which is not the start of a "
                        "label of an earlier name"
                    )
                hops += 1
                if hops > 128:
                    raise DecodeError("pointer loop")
                # after a jump we may read anywhere in the message below the name
                limit = len(w)
                pos = target
                continue
            raise DecodeError(f"bad label type {c:#x} at {pos}")
        if total > 255:
            self.problems.append(f"name at {off} is {total} octets long")
        self.label_starts.update(pending)
        return tuple(labels), nxt

    # -- rdata
    def rdata(self, rdtype, rdclass, start, rdlen):
        end = start + rdlen
        if end > len(self.w):
            raise DecodeError("rdata runs past the message")
        w = self.w
        if rdlen == 0:
            return ()
        if rdtype == T_AMTRELAY:
            if rdlen < 2:
                raise DecodeError("short AMTRELAY")
            if (w[start + 1] & 0x7F) == 3:
                n, p = self.name(start + 2, end)
                if p != end:
                    raise DecodeError("AMTRELAY: junk after relay name")
                return norm_fields([("b", w[start : start + 2]), ("n", n)])
            return norm_fields([("b", w[start:end])])
        if rdclass == 3 and rdtype == 1:
            layout = CH_A_LAYOUT
        elif rdclass != 1 and rdtype in IN_ONLY:
            layout = "*"  # the type is defined for class IN only: opaque elsewhere (RFC 3597)
        else:
            layout = LAYOUT.get(rdtype, "*")
        fields = []
        pos = start
        for ch in layout:
            if ch == "N":
                n, pos = self.name(pos, end)
                fields.append(("n", n))
            elif ch == "*":
                fields.append(("b", w[pos:end]))
                pos = end
            elif ch == "S":
                if pos >= end:
                    raise DecodeError("short rdata (character-string)")
                l = w[pos]
                if pos + 1 + l > end:
                    raise DecodeError("character-string runs past rdata")
                fields.append(("b", w[pos : pos + 1 + l]))
                pos += 1 + l
            else:
                k = int(ch)
                if pos + k > end:
                    raise DecodeError("short rdata")
                fields.append(("b", w[pos : pos + k]))
                pos += k
        if pos != end:
            raise DecodeError(
                f"rdata of type {rdtype} at {start}: layout consumed {pos - start} of {rdlen}"
            )
        return norm_fields(fields)

    # -- message
    def message(self) -> Decoded:
        w = self.w
        if len(w) < 12:
            raise DecodeError("short header")
        d = Decoded()
        d.id, d.flags, qd, an, ns, ar = struct.unpack("!HHHHHH", w[:12])
        d.counts = (qd, an, ns, ar)
        d.sections = [[], [], [], []]
        pos = 12
        is_update = ((d.flags >> 11) & 0xF) == 5
        zone_class = None
        for _ in range(qd):
            s = pos
            n, pos = self.name(pos, len(w))
            if pos + 4 > len(w):
                raise DecodeError("short question")
            t, c = struct.unpack("!HH", w[pos : pos + 4])
            pos += 4
            d.sections[0].append(Frame(n, t, c, None, None, s, pos))
            if zone_class is None:
                zone_class = c
        for sec, cnt in ((1, an), (2, ns), (3, ar)):
            for _ in range(cnt):
                s = pos
                n, pos = self.name(pos, len(w))
                if pos + 10 > len(w):
                    raise DecodeError("short RR header")
                t, c, ttl, rdlen = struct.unpack("!HHIH", w[pos : pos + 10])
                pos += 10
                # RFC 2136 2.5.4: a class NONE (or ANY) record in an UPDATE message carries
                # RDATA of the zone's class (the CLASS of the single zone-section entry)
                lc = zone_class if (is_update and c in (254, 255) and zone_class is not None) else c
                f = self.rdata(t, lc, pos, rdlen)
                pos += rdlen
                d.sections[sec].append(Frame(n, t, c, ttl, f, s, pos))
        if pos != len(w):
            raise DecodeError(f"{len(w) - pos} octets of trailing junk")
        d.pointers = self.pointers
        d.problems = self.problems
        d.length = len(w)
        return d


def decode(wire: bytes) -> Decoded:
    return WireDecoder(wire).message()


# ----------------------------------------------------------------------------- model


class MRdata:
    __slots__ = ("fields",)

    def __init__(self, fields):
        self.fields = fields  # [("b", bytes) | ("n", absolute labels)]

    def wire(self) -> bytes:
        return b"".join(v if k == "b" else name_wire(v) for k, v in self.fields)

    def lkey(self) -> bytes:
        return b"".join(v if k == "b" else name_wire(lower_labels(v)) for k, v in self.fields)

    def norm(self):
        return norm_fields(self.fields)

    def rkey(self, origin) -> bytes:
        """Key under which the library's record-set treats two rdatas with *relativized*
        names as the same: a name below the origin is compared as if the remaining labels
        were rooted (so "a" relative and "a." absolute collide)."""
        lo = lower_labels(origin)
        out = []
        for k, v in self.fields:
            if k == "b":
                out.append(v)
            else:
                lv = lower_labels(v)
                if len(lv) >= len(lo) and lv[len(lv) - len(lo) :] == lo:
                    lv = lv[: len(lv) - len(lo)] + (b"",)
                out.append(name_wire(lv))
        return b"".join(out)


class MRRset:
    """owner: labels as handed to the library (relative or absolute); owner_abs: on the
    wire.  wire_class: the CLASS field on the wire (differs from rdclass for RFC 2136
    delete / prerequisite forms).  form: None or the RFC 2136 form name."""

    __slots__ = (
        "owner",
        "owner_abs",
        "rdclass",
        "wire_class",
        "rdtype",
        "covers",
        "ttl",
        "rdatas",
        "form",
    )

    def __init__(self, owner, owner_abs, rdclass, rdtype, ttl, rdatas, covers=0, wire_class=None, form=None):
        self.owner = tuple(owner)
        self.owner_abs = tuple(owner_abs)
        self.rdclass = rdclass
        self.wire_class = rdclass if wire_class is None else wire_class
        self.rdtype = rdtype
        self.covers = covers
        self.ttl = ttl
        self.rdatas = rdatas
        self.form = form

    def frames(self, question=False):
        if question:
            return [Frame(self.owner_abs, self.rdtype, self.wire_class, None, None)]
        if not self.rdatas:
            return [Frame(self.owner_abs, self.rdtype, self.wire_class, 0, ())]
        return [Frame(self.owner_abs, self.rdtype, self.wire_class, self.ttl, rd.norm()) for rd in self.rdatas]


class MMessage:
    __slots__ = (
        "kind",
        "id",
        "flags",
        "sections",
        "origin",
        "edns",
        "ednsflags",
        "payload",
        "options",
        "rcode",
        "zone",
        "zone_class",
        "ops",
        "all_absolute",
        "abs_only",
        "case_mix",
        "notes",
    )

    def expected_opt_frame(self, extra_options=()):
        """RFC 6891 6.1.2/6.1.3: owner root, TYPE 41, CLASS = payload,
        TTL = ext-rcode | version | DO | Z, RDATA = {code, length, data}*"""
        if self.edns < 0:
            return None
        ttl = ((self.rcode >> 4) << 24) | (self.edns << 16) | (self.ednsflags & 0xFFFF)
        rd = b"".join(
            struct.pack("!HH", c, len(v)) + v for c, v in list(self.options) + list(extra_options)
        )
        return Frame((b"",), T_OPT, self.payload, ttl, norm_fields([("b", rd)]))

    def wire_flags(self):
        return (self.flags & 0xFFF0) | (self.rcode & 0xF)

    def expected_counts(self, with_opt=True, tsig=False):
        c = [len(self.sections[0])]
        for s in (1, 2, 3):
            c.append(sum(max(1, len(r.rdatas)) for r in self.sections[s]))
        if with_opt and self.edns >= 0:
            c[3] += 1
        if tsig:
            c[3] += 1
        return tuple(c)


# ----------------------------------------------------------------------------- rdata templates
# Every template returns a field list; the octets are built here, never by the library.

_ALNUM = b"abcdefghijklmnopqrstuvwxyzABCDEFGHIJKLMNOPQRSTUVWXYZ0123456789"


def _rb(rng, lo, hi):
    n = rng.randint(lo, hi)
    return bytes(rng.getrandbits(8) for _ in range(n))


def _cstr(rng, lo=0, hi=24):
    r = rng.random()
    if r < 0.03:
        n = 255
    elif r < 0.06:
        n = 0 if lo == 0 else lo
    else:
        n = rng.randint(lo, hi)
    return bytes([n]) + bytes(rng.getrandbits(8) for _ in range(n))


def _u8(rng):
    return bytes([rng.choice((0, 1, 2, 3, 8, 13, 127, 128, 255, rng.getrandbits(8)))])


def _u16(rng):
    return struct.pack("!H", rng.choice((0, 1, 10, 255, 256, 0x7FFF, 0x8000, 0xFFFF, rng.getrandbits(16))))


def _u32(rng):
    return struct.pack(
        "!I", rng.choice((0, 1, 300, 86400, 0x7FFFFFFF, 0x80000000, 0xFFFFFFFF, rng.getrandbits(32)))
    )


def _bitmap(rng):
    out = b""
    windows = sorted(rng.sample(range(0, 6), rng.randint(1, 2)))
    for wn in windows:
        n = rng.randint(1, 6) if rng.random() < 0.9 else 32
        body = bytearray(rng.getrandbits(8) for _ in range(n))
        body[-1] |= 1 << rng.randint(0, 7)
        out += bytes([wn, n]) + bytes(body)
    return out


def _t_name(rng, pool):
    return [("n", pool.pick(rng))]


def _t_pref_name(rng, pool):
    return [("b", _u16(rng)), ("n", pool.pick(rng))]


def _t_two_names(rng, pool):
    return [("n", pool.pick(rng)), ("n", pool.pick(rng))]


def _t_soa(rng, pool):
    return [("n", pool.pick(rng)), ("n", pool.pick(rng)), ("b", b"".join(_u32(rng) for _ in range(5)))]


def _t_px(rng, pool):
    return [("b", _u16(rng)), ("n", pool.pick(rng)), ("n", pool.pick(rng))]


def _t_srv(rng, pool):
    return [("b", _u16(rng) + _u16(rng) + _u16(rng)), ("n", pool.pick(rng))]


def _t_naptr(rng, pool):
    return [
        ("b", _u16(rng) + _u16(rng) + _cstr(rng, 0, 4) + _cstr(rng, 0, 10) + _cstr(rng, 0, 20)),
        ("n", pool.pick(rng)),
    ]


_COVERED = (1, 2, 15, 16, 28, 6, 48)


def _t_rrsig(rng, pool):
    return [
        (
            "b",
            struct.pack("!H", rng.choice(_COVERED))
            + _u8(rng)
            + _u8(rng)
            + _u32(rng)
            + _u32(rng)
            + _u32(rng)
            + _u16(rng),
        ),
        ("n", pool.pick(rng)),
        ("b", _rb(rng, 1, 40)),
    ]


def _t_nsec(rng, pool):
    return [("n", pool.pick(rng)), ("b", _bitmap(rng))]


def _t_svcb(rng, pool):
    prio = rng.choice((0, 1, 2, 16, 65535))
    params = b""
    if prio != 0:
        r = rng.random()
        if r < 0.3:
            params = struct.pack("!HHH", 3, 2, rng.getrandbits(16))  # port
        elif r < 0.6:
            v = _rb(rng, 0, 12)
            params = struct.pack("!HHH", 3, 2, rng.getrandbits(16)) + struct.pack("!HH", 65280, len(v)) + v
        elif r < 0.8:
            a = b"\x02h2" + (b"\x08http/1.1" if rng.random() < 0.5 else b"")
            params = struct.pack("!HH", 1, len(a)) + a
    return [("b", struct.pack("!H", prio)), ("n", pool.pick(rng)), ("b", params)]


def _t_dsync(rng, pool):
    return [("b", struct.pack("!H", rng.choice((59, 60, 62))) + _u8(rng) + _u16(rng)), ("n", pool.pick(rng))]


def _t_tkey(rng, pool):
    k = _rb(rng, 0, 20)
    o = _rb(rng, 0, 6)
    return [
        ("n", pool.pick(rng)),
        (
            "b",
            _u32(rng) + _u32(rng) + _u16(rng) + _u16(rng) + struct.pack("!H", len(k)) + k + struct.pack("!H", len(o)) + o,
        ),
    ]


def _t_amtrelay(rng, pool):
    prec = _u8(rng)
    d = rng.choice((0, 0x80))
    r = rng.random()
    if r < 0.5:
        return [("b", prec + bytes([d | 3])), ("n", pool.pick(rng))]
    if r < 0.65:
        return [("b", prec + bytes([d | 0]))]
    if r < 0.85:
        return [("b", prec + bytes([d | 1]) + _rb(rng, 4, 4))]
    return [("b", prec + bytes([d | 2]) + _rb(rng, 16, 16))]


def _t_hip(rng, pool):
    hit = _rb(rng, 1, 16)
    key = _rb(rng, 1, 24)
    servers = b"".join(name_wire(pool.pick(rng)) for _ in range(rng.randint(0, 2)))
    return [("b", bytes([len(hit), rng.getrandbits(8)]) + struct.pack("!H", len(key)) + hit + key + servers)]


def _t_ipseckey(rng, pool):
    gw = rng.choice((0, 1, 2, 3))
    head = _u8(rng) + bytes([gw]) + _u8(rng)
    if gw == 0:
        g = b""
    elif gw == 1:
        g = _rb(rng, 4, 4)
    elif gw == 2:
        g = _rb(rng, 16, 16)
    else:
        g = name_wire(pool.pick(rng))
    return [("b", head + g + _rb(rng, 0, 16))]


def _t_ds(rng, pool):
    dt, n = rng.choice(((1, 20), (2, 32), (4, 48)))
    return [("b", _u16(rng) + _u8(rng) + bytes([dt]) + _rb(rng, n, n))]


def _t_dnskey(rng, pool):
    return [("b", struct.pack("!H", rng.choice((256, 257, 0, 0x8000))) + b"\x03" + _u8(rng) + _rb(rng, 1, 40))]


def _t_nsec3(rng, pool):
    salt = _rb(rng, 0, 8)
    h = _rb(rng, 20, 20)
    bm = _bitmap(rng) if rng.random() < 0.9 else b""
    return [("b", b"\x01" + bytes([rng.choice((0, 1))]) + _u16(rng) + bytes([len(salt)]) + salt + bytes([len(h)]) + h + bm)]


def _t_nsec3param(rng, pool):
    salt = _rb(rng, 0, 8)
    return [("b", b"\x01" + bytes([rng.choice((0, 1))]) + _u16(rng) + bytes([len(salt)]) + salt)]


def _t_caa(rng, pool):
    tag = bytes(rng.choice(_ALNUM) for _ in range(rng.randint(1, 15)))
    return [("b", bytes([rng.choice((0, 128))]) + bytes([len(tag)]) + tag + _rb(rng, 0, 30))]


def _t_txt(rng, pool):
    return [("b", b"".join(_cstr(rng, 0, 30) for _ in range(rng.randint(1, 3))))]


def _t_fixed(*sizes):
    def f(rng, pool):
        n = rng.choice(sizes)
        return [("b", _rb(rng, n, n))]

    return f


def _t_bytes(lo, hi):
    def f(rng, pool):
        return [("b", _rb(rng, lo, hi))]

    return f


def _t_hdr_bytes(hdr, lo, hi):
    def f(rng, pool):
        h = b"".join(_u8(rng) if c == "1" else _u16(rng) if c == "2" else _u32(rng) for c in hdr)
        return [("b", h + _rb(rng, lo, hi))]

    return f


def _t_hinfo(rng, pool):
    return [("b", _cstr(rng, 0, 12) + _cstr(rng, 0, 12))]


def _t_isdn(rng, pool):
    return [("b", _cstr(rng, 1, 12) + (_cstr(rng, 1, 6) if rng.random() < 0.5 else b""))]


def _t_x25(rng, pool):
    return [("b", _cstr(rng, 1, 14))]


def _t_uri(rng, pool):
    return [("b", _u16(rng) + _u16(rng) + _rb(rng, 1, 30))]


def _t_zonemd(rng, pool):
    return [("b", _u32(rng) + b"\x01\x01" + _rb(rng, 48, 48))]


def _t_csync(rng, pool):
    return [("b", _u32(rng) + _u16(rng) + _bitmap(rng))]


def _t_wks(rng, pool):
    bm = bytearray(_rb(rng, 1, 8))
    bm[-1] |= 1
    return [("b", _rb(rng, 4, 4) + bytes([rng.choice((6, 17))]) + bytes(bm))]


def _t_loc(rng, pool):
    # version 0, size/precision nibbles (mantissa 0-9, exponent 0-9), lat/long/alt
    def sp():
        return bytes([(rng.randint(1, 9) << 4) | rng.randint(0, 9)])

    lat = 0x80000000 + rng.randint(-3600000 * 90 + 1, 3600000 * 90 - 1)
    lon = 0x80000000 + rng.randint(-3600000 * 180 + 1, 3600000 * 180 - 1)
    alt = rng.randint(0, 20000000)
    return [("b", b"\x00" + sp() + sp() + sp() + struct.pack("!III", lat, lon, alt))]


def _t_ch_a(rng, pool):
    return [("n", pool.pick(rng)), ("b", _u16(rng))]


def _t_generic(rng, pool):
    return [("b", _rb(rng, 0, 24))]


# (type, class restriction or None, template, weight)
TEMPLATES = {
    1: _t_fixed(4),
    2: _t_name,
    3: _t_name,
    4: _t_name,
    5: _t_name,
    6: _t_soa,
    7: _t_name,
    8: _t_name,
    9: _t_name,
    11: _t_wks,
    12: _t_name,
    13: _t_hinfo,
    15: _t_pref_name,
    16: _t_txt,
    17: _t_two_names,
    18: _t_pref_name,
    19: _t_x25,
    20: _t_isdn,
    21: _t_pref_name,
    22: _t_bytes(1, 20),  # NSAP
    23: _t_name,
    24: _t_rrsig,  # SIG
    25: _t_dnskey,  # KEY
    26: _t_px,
    28: _t_fixed(16),
    29: _t_loc,
    33: _t_srv,
    35: _t_naptr,
    36: _t_pref_name,
    37: _t_hdr_bytes("221", 1, 30),  # CERT
    39: _t_name,
    43: _t_ds,
    44: _t_hdr_bytes("11", 1, 32),  # SSHFP
    45: _t_ipseckey,
    46: _t_rrsig,
    47: _t_nsec,
    48: _t_dnskey,
    49: _t_bytes(3, 30),  # DHCID
    50: _t_nsec3,
    51: _t_nsec3param,
    52: _t_hdr_bytes("111", 1, 32),  # TLSA
    53: _t_hdr_bytes("111", 1, 32),  # SMIMEA
    55: _t_hip,
    56: _t_txt,  # NINFO
    59: _t_ds,  # CDS
    60: _t_dnskey,  # CDNSKEY
    61: _t_bytes(1, 40),  # OPENPGPKEY
    62: _t_csync,
    63: _t_zonemd,
    64: _t_svcb,
    65: _t_svcb,
    66: _t_dsync,
    99: _t_txt,  # SPF
    104: _t_hdr_bytes("2", 8, 8),  # NID
    105: _t_hdr_bytes("2", 4, 4),  # L32
    106: _t_hdr_bytes("2", 8, 8),  # L64
    107: _t_pref_name,  # LP
    108: _t_fixed(6),  # EUI48
    109: _t_fixed(8),  # EUI64
    249: _t_tkey,
    256: _t_uri,
    257: _t_caa,
    258: _t_txt,  # AVC
    260: _t_amtrelay,
    32769: _t_ds,  # DLV
    4242: _t_generic,  # unassigned -> RFC 3597 opaque
    65280: _t_generic,  # private use
}

NAME_TYPES = (2, 5, 6, 12, 15, 17, 18, 21, 26, 33, 35, 36, 39, 46, 47, 64, 65, 107, 249, 260, 3, 4, 7, 8, 9, 23, 24, 66)
COMMON_TYPES = (1, 28, 16, 2, 5, 15, 6, 12, 33, 46, 47, 48, 43)
ALL_TYPES = tuple(sorted(TEMPLATES))
IN_ONLY = (1, 28, 11, 22, 23, 26, 33, 35, 36, 42, 45, 49, 64, 65)  # types defined only for class IN

C_IN, C_CH, C_HS, C_NONE, C_ANY = 1, 3, 4, 254, 255


def gen_rdata(rng, rdtype, rdclass, pool) -> MRdata:
    if rdclass == C_CH and rdtype == 1:
        return MRdata(_t_ch_a(rng, pool))
    if rdclass != C_IN and rdtype in IN_ONLY:
        # the library has no class-specific codec: RFC 3597 opaque data
        return MRdata(_t_generic(rng, pool))
    return MRdata(TEMPLATES[rdtype](rng, pool))


def rdata_covers(rdtype, rd: MRdata) -> int:
    if rdtype in (46, 24):
        return struct.unpack("!H", rd.wire()[:2])[0]
    return 0


# ----------------------------------------------------------------------------- name pool

_BASE_LABELS = [
    b"example",
    b"com",
    b"net",
    b"org",
    b"www",
    b"mail",
    b"ns1",
    b"ns2",
    b"a",
    b"b",
    b"c",
    b"sub",
    b"deep",
    b"_tcp",
    b"_sip",
    b"*",
    b"key",
    b"host-1",
    b"x" * 63,
    b"y" * 40,
]
_ODD_LABELS = [b"\x00", b"a.b", b"\xc0\x0c", b"sp ace", b"\xff\xfe", b"\\", b"@", b"0"]


def make_case_map(rng, plain=False):
    """One fixed spelling per label for a whole message."""
    out = {}
    for l in _BASE_LABELS + _ODD_LABELS:
        out[l] = l if plain else rng.choice((l, l, l, l.upper(), l.capitalize()))
    return out


SINGLETON_TYPES = (5, 6, 39, 47, 30)  # CNAME, SOA, DNAME, NSEC, NXT: at most one record per set


class NamePool:
    """A small set of names with heavy suffix sharing.  ``origin`` (absolute labels or
    None): when set, a share of the names is relative to it.  ``case_mix``: when true
    the same label may be drawn in different ASCII case at different occurrences (the
    class behind the recorded finding F10); otherwise every label has one fixed
    spelling per message, so that exact-octet comparison of names is meaningful."""

    def __init__(self, rng, origin=None, case_mix=False, odd=False, size=None, relative_ok=True, case_map=None):
        self.origin = origin
        self.relative_ok = relative_ok
        self.case_mix = case_mix
        labels = list(_BASE_LABELS)
        if odd:
            labels += _ODD_LABELS
        self.labels = labels
        self._case = case_map if case_map is not None else make_case_map(rng)
        nsuf = rng.randint(1, 4)
        self.suffixes = []
        for _ in range(nsuf):
            k = rng.choice((0, 1, 1, 2, 2, 2, 3))
            suf = tuple(self._lab(rng) for _ in range(k)) + (b"",)
            if len(name_wire(suf)) <= 140:
                self.suffixes.append(suf)
        if not self.suffixes:
            self.suffixes.append((b"",))
        self.names = []
        n = size if size is not None else rng.randint(2, 10)
        tries = 0
        while len(self.names) < n and tries < 200:
            tries += 1
            nm = self._new_name(rng)
            if nm is not None:
                self.names.append(nm)
        if not self.names:
            self.names.append(self.suffixes[0])

    def _lab(self, rng):
        l = rng.choice(self.labels)
        if self.case_mix:
            return rng.choice((l, l.upper(), l.capitalize(), l.swapcase()))
        return self._case[l]

    def _fits(self, labels_abs):
        return len(name_wire(labels_abs)) <= 255

    def _new_name(self, rng):
        r = rng.random()
        k = rng.choice((0, 1, 1, 1, 2, 2, 3, 4))
        pre = tuple(self._lab(rng) for _ in range(k))
        if self.origin is not None and self.relative_ok and r < 0.6:
            # relative to the origin (possibly the empty name = the origin itself)
            if r < 0.05:
                pre = ()
            elif self.names and rng.random() < 0.5:
                base = rng.choice(self.names)
                if not is_abs(base):
                    pre = pre[:1] + base
            if self._fits(pre + self.origin):
                return pre
            return None
        if self.names and rng.random() < 0.5:
            base = rng.choice(self.names)
            if is_abs(base):
                nm = pre[:2] + base
                return nm if self._fits(nm) else None
        if self.origin is not None and rng.random() < 0.3:
            nm = pre + self.origin  # absolute, but under the origin
        else:
            nm = pre + rng.choice(self.suffixes)
        return nm if self._fits(nm) else None

    def pick_given(self, rng):
        """A name as handed to the library (may be relative)."""
        if rng.random() < 0.12:
            nm = self._new_name(rng)
            if nm is not None:
                self.names.append(nm)
                return nm
        nm = rng.choice(self.names)
        if self.case_mix and rng.random() < 0.5:
            nm = tuple(rng.choice((l, l.upper(), l.lower(), l.swapcase())) for l in nm)
        return nm

    def pick(self, rng):
        """An absolute name (for rdata fields, which are built as wire octets)."""
        return absolutize(self.pick_given(rng), self.origin)


# ----------------------------------------------------------------------------- EDNS options


def gen_options(rng, maxn=4, maxlen=24):
    """[(code, data)] with data valid for the codes the library decodes specially
    (RFC 7871 ECS, RFC 8914 EDE, RFC 5001 NSID, RFC 7873 COOKIE, RFC 9567 report channel)."""
    out = []
    for _ in range(rng.randint(0, maxn)):
        r = rng.random()
        if r < 0.2:
            out.append((3, _rb(rng, 0, maxlen)))  # NSID
        elif r < 0.35:
            fam = rng.choice((1, 2))
            bits = 32 if fam == 1 else 128
            src = rng.randint(0, bits)
            nbytes = (src + 7) // 8
            addr = bytearray(_rb(rng, nbytes, nbytes))
            if src % 8 and nbytes:
                addr[-1] &= (0xFF << (8 - src % 8)) & 0xFF
            out.append((8, struct.pack("!HBB", fam, src, 0) + bytes(addr)))
        elif r < 0.5:
            txt = bytes(rng.choice(_ALNUM) for _ in range(rng.randint(0, min(maxlen, 20))))
            out.append((15, struct.pack("!H", rng.choice((0, 1, 6, 18, 24, 4242))) + txt))
        elif r < 0.62:
            c = _rb(rng, 8, 8)
            s = _rb(rng, 8, rng.choice((8, 16, 32))) if rng.random() < 0.6 else b""
            out.append((10, c + s[: max(0, min(len(s), 32))]))
        elif r < 0.7:
            out.append((18, name_wire((b"agent", b"example", b""))))
        else:
            code = rng.choice((65001, 65534, 4, 11, 26946, rng.randint(30, 65000)))
            out.append((code, _rb(rng, 0, maxlen)))
    return out


# ----------------------------------------------------------------------------- generator

KINDS = ("query", "response", "notify", "opcode", "update")


def _ttl(rng):
    return rng.choice((0, 1, 60, 300, 3600, 86400, 0x7FFFFFFF, rng.randint(0, 0x7FFFFFFF)))


def _gen_section_sets(rng, pool, origin, n, types, classes, existing, max_rd=3):
    """n RRsets with keys unique (case-insensitively) within `existing`."""
    out = []
    for _ in range(n):
        for _try in range(8):
            owner = pool.pick_given(rng)
            owner_abs = absolutize(owner, origin)
            rdclass = rng.choice(classes)
            rdtype = rng.choice(types)
            nrd = rng.choice((1, 1, 1, 2, 2, 3)) if max_rd >= 3 else rng.randint(1, max_rd)
            if rdtype in SINGLETON_TYPES:
                nrd = 1
            rds = []
            seen = set()
            covers = None
            for _ in range(nrd):
                rd = gen_rdata(rng, rdtype, rdclass, pool)
                c = rdata_covers(rdtype, rd)
                if covers is None:
                    covers = c
                elif c != covers:
                    continue
                k = rd.lkey()
                if k in seen:
                    continue
                if origin is not None and pool.relative_ok:
                    k2 = b"rel:" + rd.rkey(origin)
                    if k2 in seen:
                        continue
                    seen.add(k2)
                seen.add(k)
                rds.append(rd)
            key = (lower_labels(owner_abs), rdclass, rdtype, covers)
            if key in existing:
                continue
            existing.add(key)
            out.append(MRRset(owner, owner_abs, rdclass, rdtype, _ttl(rng), rds, covers or 0))
            break
    return out


def gen_message(rng, kind=None, big=False, min_sets=None, allow_case_mix=True, want_edns=None, classes=None, types=None, max_options_len=24) -> MMessage:
    m = MMessage()
    m.notes = []
    if kind is None:
        kind = rng.choice(("query", "response", "response", "response", "notify", "opcode", "update", "update"))
    m.kind = kind
    m.id = rng.choice((0, 1, 0xFFFF, 0x8000, rng.getrandbits(16), rng.getrandbits(16)))
    use_origin = rng.random() < 0.4
    case_mix = allow_case_mix and rng.random() < 0.12
    odd = rng.random() < 0.25
    m.case_mix = case_mix
    origin = None
    if case_mix:
        # relativizing against an origin replaces the spelling of the origin's labels; keep
        # case-mixed pools absolute so that every octet difference is the renderer's doing
        use_origin = False
    if kind == "update":
        use_origin = True
    case_map = make_case_map(rng)
    if use_origin:
        k = rng.choice((1, 2, 2, 3))
        tmp = NamePool(rng, None, False, False, size=1, case_map=case_map)
        origin = tuple(tmp._lab(rng) for _ in range(k)) + (b"",)
        if rng.random() < 0.03:
            origin = (b"",)
    m.origin = origin
    # abs_only: every name handed to the library is absolute (the "equal to the original"
    # clause applies); otherwise a share of owner and rdata names is relative to origin
    m.abs_only = origin is None or case_mix or (kind == "update" and rng.random() < 0.4)
    pool = NamePool(rng, origin, case_mix, odd, relative_ok=not m.abs_only, case_map=case_map)
    # header
    flagbits = 0
    for bit in (0x0400, 0x0100, 0x0080, 0x0040, 0x0020, 0x0010):  # AA RD RA Z AD CD
        if rng.random() < 0.3:
            flagbits |= bit
    if rng.random() < 0.05:
        flagbits |= 0x0200  # TC as a plain header value
    m.zone = None
    m.zone_class = None
    m.ops = None
    if kind == "query":
        opcode = 0
    elif kind == "response":
        opcode = 0
        flagbits |= 0x8000
    elif kind == "notify":
        opcode = 4
        if rng.random() < 0.5:
            flagbits |= 0x8000
    elif kind == "update":
        opcode = 5
        if rng.random() < 0.2:
            flagbits |= 0x8000
    else:
        opcode = rng.choice((1, 2, 3, 6, 7, 8, 9, 10, 11, 12, 13, 14, 15))
        if rng.random() < 0.5:
            flagbits |= 0x8000
    m.flags = flagbits | (opcode << 11)
    # EDNS / rcode
    r = rng.random()
    if want_edns is True or (want_edns is None and r < 0.55):
        m.edns = rng.choice((0, 0, 0, 0, 1, 2, 255, rng.randint(0, 255)))
        m.ednsflags = rng.choice((0, 0x8000, 0x8000, 0x4000, 0x0001, 0x7FFF, 0xFFFF, rng.getrandbits(16)))
        m.payload = rng.choice((0, 512, 1232, 1232, 4096, 65535, rng.getrandbits(16)))
        m.options = gen_options(rng, maxlen=max_options_len) if rng.random() < 0.6 else []
        m.rcode = rng.choice((0, 0, 1, 2, 3, 5, 15, 16, 17, 23, 255, 256, 4095, rng.randint(0, 4095)))
    else:
        m.edns = -1
        m.ednsflags = 0
        m.payload = 0
        m.options = []
        m.rcode = rng.choice((0, 0, 0, 1, 2, 3, 4, 5, 9, 15, rng.randint(0, 15)))
    # sections
    m.sections = [[], [], [], []]
    if kind == "update":
        _gen_update(rng, m, pool, sum(min_sets) if min_sets else 0)
    else:
        if classes is None:
            classes = (C_IN,) * 12 + (C_CH, C_CH, C_HS, 65280)
        r = rng.random()
        if types is not None:
            pass
        elif r < 0.5:
            types = COMMON_TYPES
        elif r < 0.75:
            types = NAME_TYPES
        else:
            types = ALL_TYPES
        nq = {"query": 1, "notify": 1}.get(kind, rng.choice((0, 1, 1, 1, 1, 2)))
        for _ in range(nq):
            owner = pool.pick_given(rng)
            qt = 6 if kind == "notify" else rng.choice((1, 28, 15, 16, 255, 252, 251, 6, 2, 46, 65280, rng.choice(ALL_TYPES)))
            qc = rng.choice((C_IN, C_IN, C_IN, C_CH, C_ANY, C_NONE, C_HS))
            m.sections[0].append(MRRset(owner, absolutize(owner, origin), qc, qt, 0, []))
        if kind == "query":
            counts = (0, 0, rng.choice((0, 0, 0, 1)))
        elif kind == "notify":
            counts = (rng.choice((0, 1)), 0, 0)
        else:
            counts = tuple(rng.choice((0, 0, 1, 1, 2, 3, 4, 6)) for _ in range(3))
        if min_sets:
            counts = tuple(max(c, mn) for c, mn in zip(counts, min_sets))
        for s, c in zip((1, 2, 3), counts):
            tset = (6,) if (kind == "notify" and s == 1) else types
            m.sections[s] = _gen_section_sets(rng, pool, origin, c, tset, classes, set())
        if big:
            # a leading TXT that pushes later names beyond offset 0x3FFF
            target = rng.choice((0x3FF0, 0x3FFA, 0x3FFC, 0x3FFD, 0x3FFE, 0x3FFF, 0x4000, 0x4001, 0x4002, 0x4010, 0x4100, 0x5000))
            owner = pool.pick_given(rng)
            owner_abs = absolutize(owner, origin)
            # size of everything before the TXT rdata: header + questions + owner + 10
            pre = 12 + sum(len(name_wire(q.owner_abs)) + 4 for q in m.sections[0])
            pre += len(name_wire(owner_abs)) + 10
            need = max(256, target - pre)
            chunks = []
            while need > 0:
                n = min(255, need - 1)
                if n < 0:
                    break
                chunks.append(bytes([n]) + bytes([0x41 + (len(chunks) % 26)]) * n)
                need -= n + 1
            rd = MRdata([("b", b"".join(chunks))])
            bigset = MRRset(owner, owner_abs, C_IN, 16, 5, [rd])
            bigkey = (lower_labels(owner_abs), C_IN, 16, 0)

            def keys(sec):
                return {(lower_labels(r.owner_abs), r.rdclass, r.rdtype, r.covers) for r in sec}

            m.sections[1] = [r for r in m.sections[1] if (lower_labels(r.owner_abs), r.rdclass, r.rdtype, r.covers) != bigkey]
            # make sure fresh names appear (and repeat) after the boundary
            fresh = NamePool(rng, origin, False, False, size=3, relative_ok=not m.abs_only, case_map=case_map)
            pool.names.extend(fresh.names)
            extra = _gen_section_sets(rng, fresh, origin, 3, (2, 15, 5, 6), (C_IN,), keys(m.sections[1]) | {bigkey})
            m.sections[1] = [bigset] + extra + m.sections[1]
            extra2 = _gen_section_sets(rng, fresh, origin, 3, (2, 15, 12), (C_IN,), keys(m.sections[2]))
            m.sections[2].extend(extra2)
    m.all_absolute = m.abs_only and all(is_abs(r.owner) for s in m.sections for r in s)
    return m


_UPDATE_TYPES = (1, 28, 16, 15, 2, 5, 33, 6, 46, 12, 65280)


def _gen_update(rng, m: MMessage, pool: NamePool, min_ops=0):
    """RFC 2136 section 2.4 (prerequisites) and 2.5 (updates): every form."""
    zc = rng.choice((C_IN, C_IN, C_IN, C_IN, C_CH))
    m.zone = m.origin
    m.zone_class = zc
    m.sections[0].append(MRRset(m.origin, m.origin, zc, 6, 0, []))
    ops = []

    def rd_for(t):
        return gen_rdata(rng, t, zc, pool)

    nops = rng.choice((0, 1, 2, 3, 4, 6, 9))
    if min_ops:
        nops = rng.randint(min_ops, 2 * min_ops)
    for _ in range(nops):
        owner = pool.pick_given(rng)
        oa = absolutize(owner, m.origin)
        t = rng.choice(_UPDATE_TYPES)
        form = rng.choice(
            (
                "present_name",
                "present_rrset",
                "present_value",
                "absent_name",
                "absent_rrset",
                "add",
                "add",
                "delete_name",
                "delete_rrset",
                "delete_rr",
                "replace",
            )
        )
        if form == "present_name":
            m.sections[1].append(MRRset(owner, oa, C_ANY, 255, 0, [], wire_class=C_ANY, form=form))
            ops.append((form, owner, None, None, None))
        elif form == "present_rrset":
            m.sections[1].append(MRRset(owner, oa, C_ANY, t, 0, [], wire_class=C_ANY, form=form))
            ops.append((form, owner, t, None, None))
        elif form == "present_value":
            rd = rd_for(t)
            m.sections[1].append(MRRset(owner, oa, zc, t, 0, [rd], rdata_covers(t, rd), form=form))
            ops.append((form, owner, t, None, rd))
        elif form == "absent_name":
            m.sections[1].append(MRRset(owner, oa, C_NONE, 255, 0, [], wire_class=C_NONE, form=form))
            ops.append((form, owner, None, None, None))
        elif form == "absent_rrset":
            m.sections[1].append(MRRset(owner, oa, C_NONE, t, 0, [], wire_class=C_NONE, form=form))
            ops.append((form, owner, t, None, None))
        elif form == "add":
            rd = rd_for(t)
            ttl = _ttl(rng)
            m.sections[2].append(MRRset(owner, oa, zc, t, ttl, [rd], rdata_covers(t, rd), form=form))
            ops.append((form, owner, t, ttl, rd))
        elif form == "delete_name":
            m.sections[2].append(MRRset(owner, oa, C_ANY, 255, 0, [], wire_class=C_ANY, form=form))
            ops.append((form, owner, None, None, None))
        elif form == "delete_rrset":
            m.sections[2].append(MRRset(owner, oa, zc, t, 0, [], wire_class=C_ANY, form=form))
            ops.append((form, owner, t, None, None))
        elif form == "delete_rr":
            rd = rd_for(t)
            m.sections[2].append(MRRset(owner, oa, zc, t, 0, [rd], rdata_covers(t, rd), wire_class=C_NONE, form=form))
            ops.append((form, owner, t, None, rd))
        else:  # replace = delete RRset, then add
            rd = rd_for(t)
            ttl = _ttl(rng)
            m.sections[2].append(MRRset(owner, oa, zc, t, 0, [], wire_class=C_ANY, form="delete_rrset"))
            m.sections[2].append(MRRset(owner, oa, zc, t, ttl, [rd], rdata_covers(t, rd), form="add"))
            ops.append((form, owner, t, ttl, rd))
    # glue in the additional section
    if rng.random() < 0.3:
        m.sections[3] = _gen_section_sets(rng, pool, m.origin, rng.randint(1, 2), (1, 28), (zc,), set(), max_rd=1)
    m.ops = ops


# ----------------------------------------------------------------------------- model -> library objects


def build_library_message(m: MMessage, pad=0):
    """Build the dns.message object described by the model through the public API."""
    import dns.edns
    import dns.message
    import dns.name
    import dns.rdata
    import dns.rdataclass
    import dns.rdatatype
    import dns.update

    origin = dns.name.Name(m.origin) if m.origin is not None else None
    rd_origin = None if m.abs_only else origin

    def N(labels):
        return dns.name.Name(labels)

    def RD(rdclass, rdtype, rd: MRdata):
        w = rd.wire()
        return dns.rdata.from_wire(rdclass, rdtype, w, 0, len(w), rd_origin)

    opcode = (m.flags >> 11) & 0xF
    if m.kind == "update":
        msg = dns.update.UpdateMessage(N(m.origin), rdclass=m.zone_class, id=m.id)
        msg.flags = (msg.flags & 0x7800) | (m.flags & 0x87FF)
        zc = m.zone_class
        for form, owner, t, ttl, rd in m.ops:
            n = N(owner)
            if form == "present_name":
                msg.present(n)
            elif form == "present_rrset":
                msg.present(n, dns.rdatatype.RdataType.make(t))
            elif form == "present_value":
                msg.present(n, RD(zc, t, rd))
            elif form == "absent_name":
                msg.absent(n)
            elif form == "absent_rrset":
                msg.absent(n, dns.rdatatype.RdataType.make(t))
            elif form == "add":
                msg.add(n, ttl, RD(zc, t, rd))
            elif form == "delete_name":
                msg.delete(n)
            elif form == "delete_rrset":
                msg.delete(n, dns.rdatatype.RdataType.make(t))
            elif form == "delete_rr":
                msg.delete(n, RD(zc, t, rd))
            else:
                msg.replace(n, ttl, RD(zc, t, rd))
        for r in m.sections[3]:
            rr = msg.find_rrset(msg.additional, N(r.owner), r.rdclass, r.rdtype, r.covers, None, True)
            for rd in r.rdatas:
                rr.add(RD(r.rdclass, r.rdtype, rd), r.ttl)
    else:
        if opcode == 0:
            msg = dns.message.QueryMessage(id=m.id)
        else:
            msg = dns.message.Message(id=m.id)
        msg.flags = m.flags & 0xFFF0
        for q in m.sections[0]:
            msg.find_rrset(msg.question, N(q.owner), q.rdclass, q.rdtype, create=True, force_unique=True)
        for s in (1, 2, 3):
            for r in m.sections[s]:
                rr = msg.find_rrset(s, N(r.owner), r.rdclass, r.rdtype, r.covers, None, True)
                for rd in r.rdatas:
                    rr.add(RD(r.rdclass, r.rdtype, rd), r.ttl)
    if m.edns >= 0:
        opts = []
        for code, data in m.options:
            opts.append(dns.edns.option_from_wire(code, data, 0, len(data)))
        msg.use_edns(m.edns, m.ednsflags, m.payload, options=opts, pad=pad)
    if m.edns >= 0 or m.rcode:
        msg.set_rcode(m.rcode)
    return msg, origin


# ----------------------------------------------------------------------------- comparison helpers


def expected_section_groups(m: MMessage):
    """Per section: list of groups (one per RRset) of expected frames."""
    out = [[r.frames(question=True) for r in m.sections[0]]]
    for s in (1, 2, 3):
        out.append([r.frames() for r in m.sections[s]])
    return out


def compare_frames(groups, frames, ordered=True):
    """Compare decoded `frames` of one section with the expected `groups`.
    Returns (status, detail): status in ok | case | diff."""
    flat = [f for g in groups for f in g]
    if len(flat) != len(frames):
        return "diff", f"{len(frames)} records decoded, {len(flat)} expected"
    status = "ok"
    i = 0
    for g in groups:
        got = frames[i : i + len(g)]
        i += len(g)
        ek = [f.key() for f in g]
        gk = [f.key() for f in got]
        if not ordered:
            ek_s, gk_s = sorted(ek, key=repr), sorted(gk, key=repr)
        else:
            ek_s, gk_s = ek, gk
        if ek_s == gk_s:
            continue
        el = [f.lkey() for f in g]
        gl = [f.lkey() for f in got]
        if not ordered:
            el, gl = sorted(el, key=repr), sorted(gl, key=repr)
        if el == gl:
            status = "case"
            continue
        for a, b in zip(g, got):
            if a.lkey() != b.lkey():
                return "diff", f"expected {a.describe()} got {b.describe()}"
        return "diff", "record order differs within a record set"
    return status, ""
