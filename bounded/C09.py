"""Bounded stand-in for C09 -- zones survive write-then-read as text; equivalent
zone-file spellings agree (DESIGN.md section 4, C09-B7).

Runs the real ``dns.zone`` / ``dns.zonefile`` / ``dns.tokenizer`` code on PYTHONPATH.

  C09.model              the canonical spelling (written by an independent writer from a
                         reference model) loads to exactly the model's records (owner, TTL,
                         class, type, rdata)
  C09.roundtrip_styles   from_text(zone.to_styled_text(style)) equals the zone for every
                         combination of the lossless style switches
  C09.roundtrip_api      the same through Zone.to_text()/to_file() keyword parameters
  C09.spellings          every equivalent re-spelling loads to a zone equal to the canonical
                         one (inherited/explicit owner, TTL, class; TTL-class order;
                         $ORIGIN-relative/absolute; parenthesised multi-line; comments)
  C09.spellings_no_default_ttl
                         while no default TTL is known (no $TTL, no SOA so far) every record of
                         a short sequence is spelled independently '<ttl> <class> <type>',
                         '<class> <ttl> <type>', '<ttl> <type>', '<class> <type>' or '<type>'
                         (the last two inherit the TTL of the previous record, however that one
                         was spelled); the sequence loads like its fully explicit spelling --
                         through dns.zone.from_text (SOA absent with check_origin=False, or SOA
                         last) and dns.zonefile.read_rrsets
  C09.generate           a $GENERATE line loads to the same zone as its expansion placed at the
                         same point of the file -- at the zone origin and below a $ORIGIN that
                         names a proper subdomain of it, with relative and absolute domain
                         names in the rdata (there also against names resolved at text level)
  C09.out_of_zone        records outside the zone origin are ignored
  C09.cname_other        after loading, no node holds a CNAME together with other data

TTL 0 is covered as a value and as the default (M.TTL0_SHAPES): '$TTL 0' / default_ttl=0,
RRsets with TTL 0 alone and mixed with non-zero TTLs, the first TTL-less record being the SOA,
another RRset of the origin node, or a record of another owner (clauses model, spellings,
roundtrip_styles).

Equality is checked twice: with the library's ``==`` on zones and with an independent dump
{(absolute owner, type, covered type) -> (class, TTL, set of rdata wire forms)}; the
library's ``==`` ignores TTLs, the dump does not.
"""

from __future__ import annotations

import io
import itertools
import random

import dns.exception
import dns.name
import dns.rdata
import dns.rdataclass
import dns.rdatatype
import dns.zone

from bounded import _c09_model as M
from bounded._c04_core import exc_name, short, site_of

BOUNDS = (
    "Model zones: seeded (VERIF_SEED), SOA+NS at the origin plus 4..14 (quick) / 4..30 "
    "(thorough) owners drawn from 40 odd owner spellings (wildcards, escaped dots, quotes, "
    "'$', '@', ';', parentheses, \\000, \\255, 63-octet label, owners that look like a TTL, a "
    "class or a type), ~85 record templates covering every implemented non-meta type, TTLs "
    "from {0,1,60,300,3600,86400,604800,2^31-1,2^32-1}, origins example. / sub.example.org., "
    "loaded relativized and absolute.  C09.roundtrip_styles: EXHAUSTIVE product of the "
    "lossless switches sorted x want_origin x default_ttl{None, most frequent TTL, unused "
    "TTL} x deduplicate_names x justification{none, all columns left, owner left + other columns "
    "right} x chunking{default, 4/8, off} "
    "x want_generic x want_comments x omit_rdclass x relativize = 3 456 styles per zone on "
    "2 small zones (quick; 2^9 x 3 sub-product, generic styles sampled on the zone whose rdata "
    "names are in-zone) / 4 zones x 2 relativizations (thorough, all 3 456), plus 32 (quick) / 96 "
    "(thorough) seeded styles on each further zone (quick 14 zones, thorough 80; every 4th zone "
    "has only out-of-zone names in its rdata so that the RFC 3597 form is exercised beyond F7, "
    "every 4th a single TTL equal to the SOA minimum); read back with the zone's origin and, "
    "when $ORIGIN is emitted, also without one.  C09.roundtrip_api: all 16 keyword combinations "
    "of to_text and to_file.  "
    "C09.spellings/C09.model: 17 named re-spellings x every zone x 2 relativizations.  "
    "C09.generate: 4 nibble templates, 7 fixed templates (one mixing two modifier forms), quick 300 / thorough 6 000 seeded "
    "$GENERATE lines (ranges <= 7 steps, offsets, widths 0..5, bases d o x X n N, optional TTL "
    "and class) against an independent expansion written from the BIND documentation; plus, with "
    "domain names in the rdata: 6 types (CNAME NS PTR DNAME, and MX SRV with the quoted right-hand "
    "side of the BIND manual) x 5 owner forms x 6 target forms (relative, two labels, absolute below "
    "the current origin / below the zone origin only / outside the zone, '@') = 156 templates below "
    "'$ORIGIN sub.example.' in zone example. and '$ORIGIN deep.er.sub.example.org.' in zone "
    "sub.example.org. (quick: one of the two per template), the 36 relative-owner templates at the zone "
    "origin, and quick 80 / thorough 1 200 seeded ones (modifier forms, TTL incl. 0, class, 5 "
    "subdomains, 3 layouts: directly below the $ORIGIN, after an earlier $ORIGIN, after an ordinary "
    "record), each relativized and absolute, against the expansion at the same point of the file and "
    "against owner/target names resolved at text level.  "
    "TTL 0: 13 zone shapes (SOA TTL 0 / 3600 x other RRsets all 0 / mixed 0 and non-zero x SOA first / "
    "origin NS before the SOA / another owner first; one shape with SOA minimum 0) x quick 1 / thorough "
    "2 seeded zones x 2 relativizations: model, the TTL-inheriting re-spellings (thorough: all), and "
    "default_ttl=0 x sorted x want_origin x deduplicate_names x omit_rdclass (x relativize: thorough "
    "both, quick alternating; quick half of them on the absolute zone) + the other default_ttl values "
    "+ quick 2 / thorough 8 seeded settings of the remaining switches; default_ttl=0 also on every "
    "ordinary zone (2 styles).  "
    "C09.spellings_no_default_ttl: files WITHOUT $TTL in which no default TTL is known before the "
    "last record: EVERY sequence of 2..4 (thorough: 2..5) records with distinct (owner, type) from a "
    "pool of 5 (+ the SOA), each record independently spelled '<ttl> <class> <type>' / '<class> <ttl> "
    "<type>' / '<ttl> <type>' / '<class> <type>' (TTL inherited) / '<type>' (TTL inherited), the first "
    "one with a TTL (3 x 5^(n-1) spellings per length), distinct seeded TTLs from {0,1,7,60,100,300,"
    "3600,86400,604800,2^31-1} (the SOA minimum differs from all), in 4 layouts: zone fragment without "
    "SOA (dns.zone.from_text, check_origin=False), origin NS first + SOA last (from_text with the "
    "origin check), dns.zonefile.read_rrsets(rdclass=None) without SOA and with the SOA last; x "
    "relativize on/off (thorough: both for every sequence, a second TTL draw and a shuffled record "
    "order; quick: alternating); compared with the '<ttl> <class> <type>' spelling of the same sequence "
    "carrying the inherited TTLs explicitly (TTL-sensitive dump), which itself is compared with the "
    "expected TTLs; a spelling rejected together with its explicit twin is not flagged.  "
    "C09.out_of_zone: 14 out-of-zone line shapes x position x relativization on every zone.  "
    "C09.cname_other: 10 other-data types x both orders x {adjacent, separated, via $GENERATE, "
    "inherited owner, different case} x relativization, and the invariant on every zone loaded anywhere in the "
    "run.  Not covered: $INCLUDE (file system), lossy styles (omit_ttl, truncate_crypto, "
    "omit_final_dot, IDNA/UTF-8 output), CRLF line ends, zone classes other than IN.  Nothing "
    "here needs the `cryptography` package."
)

_CNAME_OK = {"CNAME", "RRSIG", "SIG", "NSEC", "NSEC3", "KEY"}


# ------------------------------------------------------------------------------- helpers
def _load(text, origin, relativize, check_origin=True):
    return dns.zone.from_text(text, origin=origin, relativize=relativize, check_origin=check_origin)


def dump(z):
    """Independent content dump of a zone (TTL-sensitive)."""
    out = {}
    for name, node in z.nodes.items():
        an = name.derelativize(z.origin) if not name.is_absolute() else name
        for rds in node.rdatasets:
            key = (an, int(rds.rdtype), int(rds.covers))
            out[key] = (int(rds.rdclass), int(rds.ttl), frozenset(rd.to_wire(origin=z.origin) for rd in rds))
    return out


def model_dump(zone, relativize):
    """Expected content straight from the model (uses only the library's name and rdata
    text parsers on single fields, not the zone reader)."""
    origin = dns.name.from_text(zone["origin"])
    out = {}
    for r in zone["records"]:
        owner = dns.name.from_text(r["owner"])
        text = " ".join(t[1] if isinstance(t, (list, tuple)) else t for t in r["rdata"])
        rd = dns.rdata.from_text("IN", r["type"], text, origin=origin, relativize=relativize, relativize_to=origin)
        key = (owner, int(rd.rdtype), int(rd.covers()))
        cls, ttl, s = out.get(key, (1, r["ttl"], frozenset()))
        out[key] = (1, min(ttl, r["ttl"]), s | {rd.to_wire(origin=origin)})
    return out


def diff_dumps(a, b):
    if a == b:
        return None
    ka, kb = set(a), set(b)
    if ka != kb:
        only_a = sorted((str(k[0]), dns.rdatatype.to_text(k[1])) for k in ka - kb)[:3]
        only_b = sorted((str(k[0]), dns.rdatatype.to_text(k[1])) for k in kb - ka)[:3]
        return f"rrsets differ: only in first {only_a}, only in second {only_b}"
    for k in ka:
        if a[k] != b[k]:
            what = "class" if a[k][0] != b[k][0] else "TTL" if a[k][1] != b[k][1] else "rdata"
            return f"{what} differs at {k[0]} {dns.rdatatype.to_text(k[1])}: {a[k][:2]} vs {b[k][:2]}"
    return "differ"


def cname_conflicts(z):
    bad = []
    for name, node in z.nodes.items():
        types = {dns.rdatatype.to_text(rds.rdtype) for rds in node.rdatasets if len(rds) > 0}
        if "CNAME" in types and (types - _CNAME_OK):
            bad.append((str(name), sorted(types)))
    return bad


class _Ctx:
    def __init__(self, R):
        self.R = R

    def check_cname(self, z, replay, key):
        R = self.R
        R.case("C09.cname_other", key=("inv", key), nontrivial=any(
            rds.rdtype == dns.rdatatype.CNAME for node in z.nodes.values() for rds in node.rdatasets))
        bad = cname_conflicts(z)
        if bad:
            R.violation("C09.cname_other", f"loaded zone holds a CNAME with other data at {bad[0][0]}: {bad[0][1]}",
                        sig={"class": "CNAME coexists after loading"}, replay=replay)


def _style_kwargs(st, z, zone_model):
    """Translate a JSON-able style description into ZoneStyle keyword arguments."""
    kw = dict(
        sorted=st["sorted"], want_origin=st["want_origin"], deduplicate_names=st["dedup"],
        want_generic=st["generic"], want_comments=st["comments"], omit_rdclass=st["omit_class"], nl="\n",
    )
    if st["relativize"]:
        kw["origin"] = z.origin
        kw["relativize"] = True
    else:
        kw["origin"] = z.origin
        kw["relativize"] = False
    if st["default_ttl"] == "common":
        cnt = {}
        for r in zone_model["records"]:
            cnt[r["ttl"]] = cnt.get(r["ttl"], 0) + 1
        kw["default_ttl"] = sorted(cnt.items(), key=lambda kv: (-kv[1], kv[0]))[0][0]
    elif st["default_ttl"] == "unused":
        kw["default_ttl"] = 12345
    elif st["default_ttl"] == "zero":
        kw["default_ttl"] = 0  # the boundary: '$TTL 0', and RRsets with TTL 0 are written without a TTL
    if st["just"] == "left":
        kw.update(name_just=-24, ttl_just=-8, rdclass_just=-4, rdtype_just=-10)
    elif st["just"] == "right":
        # a right-justified owner field would start with blanks (= "same owner as above"),
        # which is not in the lossless set; the other columns may be right-justified
        kw.update(name_just=-24, ttl_just=8, rdclass_just=4, rdtype_just=10)
    if st["chunk"] == "small":
        kw.update(base64_chunk_size=4, hex_chunk_size=8)
    elif st["chunk"] == "off":
        kw.update(base64_chunk_size=0, hex_chunk_size=0)
    return kw


_STYLE_AXES = [
    ("sorted", [True, False]), ("want_origin", [False, True]), ("default_ttl", [None, "common", "unused"]),
    ("dedup", [False, True]), ("just", ["none", "left", "right"]), ("chunk", ["default", "small", "off"]),
    ("generic", [False, True]), ("comments", [False, True]), ("omit_class", [False, True]), ("relativize", [True, False]),
]


def all_styles():
    keys = [k for k, _ in _STYLE_AXES]
    for vals in itertools.product(*[v for _, v in _STYLE_AXES]):
        yield dict(zip(keys, vals))


def random_style(rng):
    return {k: rng.choice(v) for k, v in _STYLE_AXES}


# ------------------------------------------------------------------------------- clause bodies
_canon_cache = {}


def _canon(zone_model, relativize):
    """The zone loaded from the canonical spelling, and its dump (cached per model object)."""
    k = (id(zone_model), relativize)
    hit = _canon_cache.get(k)
    if hit is not None and hit[0] is zone_model:
        return hit[1], hit[2]
    text0 = M.write(zone_model, M.CANON)
    z = _load(text0, zone_model["origin"], relativize)
    d0 = dump(z)
    if len(_canon_cache) > 8:
        _canon_cache.clear()
    _canon_cache[k] = (zone_model, z, d0)
    return z, d0


def eval_style(zone_model, relativize, st):
    """-> (finding|None, nontrivial).  finding = (what, sig)"""
    z, d0 = _canon(zone_model, relativize)
    try:
        out = z.to_styled_text(dns.zone.ZoneStyle(**_style_kwargs(st, z, zone_model)))
    except Exception as e:  # the emitter must not fail on a loadable zone
        cls = "emit raised"
        return (f"to_styled_text raised {exc_name(e)}: {short(e, 80)} (style {_brief(st)})",
                {"class": cls, "exc": exc_name(e), "site": site_of(e)}), True
    loads = [(zone_model["origin"], "origin given")]
    if st["want_origin"]:
        loads.append((None, "origin from $ORIGIN"))
    for org, how in loads:
        try:
            z2 = _load(out, org, relativize)
        except Exception as e:
            root = _root(e)
            return (f"written zone does not load ({how}): {exc_name(e)}: {short(e, 90)} (style {_brief(st)})",
                    {"class": "reload raised", "exc": exc_name(root), "site": site_of(root), "aspect": _aspect(st, zone_model, relativize)}), True
        d = diff_dumps(d0, dump(z2))
        if d is None and not (z2 == z):
            d = "independent dumps agree but Zone.__eq__ says different"
        if d is not None:
            return (f"write-then-read changed the zone ({how}; style {_brief(st)}): {d}",
                    {"class": "round trip differs", "aspect": _aspect(st, zone_model, relativize)}), True
    return None, True


def _root(e):
    """The exception at the bottom of the cause/context chain (the zone reader re-raises
    everything as SyntaxError with file:line)."""
    seen = set()
    while id(e) not in seen:
        seen.add(id(e))
        nxt = e.__cause__ or e.__context__
        if nxt is None:
            break
        e = nxt
    return e


def _brief(st):
    return ",".join(f"{k}={v}" for k, v in st.items() if v not in (False, None, "none", "default") or k in ("sorted", "relativize"))


def _aspect(st, zone_model, relativize):
    """Find a single responsible switch by resetting switches one at a time to the default
    (stable sig: names the switch, not the whole combination)."""
    default = {"sorted": True, "want_origin": False, "default_ttl": None, "dedup": False, "just": "none",
               "chunk": "default", "generic": False, "comments": False, "omit_class": False, "relativize": True}
    culprits = []
    for k in default:
        if st[k] == default[k]:
            continue
        st2 = dict(st)
        st2[k] = default[k]
        try:
            f, _ = eval_style_noaspect(zone_model, relativize, st2)
        except Exception:
            f = True
        if f is None:
            culprits.append(f"{k}={st[k]}")
    return "+".join(culprits) if culprits else "any"


def eval_style_noaspect(zone_model, relativize, st):
    z, d0 = _canon(zone_model, relativize)
    out = z.to_styled_text(dns.zone.ZoneStyle(**_style_kwargs(st, z, zone_model)))
    z2 = _load(out, zone_model["origin"], relativize)
    d = diff_dumps(d0, dump(z2))
    return (d, True) if d is not None else (None, True)


def eval_api(zone_model, relativize, kw):
    z, d0 = _canon(zone_model, relativize)
    try:
        if kw.get("via_file"):
            f = io.StringIO()
            z.to_file(f, sorted=kw["sorted"], relativize=kw["relativize"], nl="\n", want_comments=kw["want_comments"], want_origin=kw["want_origin"])
            out = f.getvalue()
        else:
            out = z.to_text(sorted=kw["sorted"], relativize=kw["relativize"], nl="\n", want_comments=kw["want_comments"], want_origin=kw["want_origin"])
    except Exception as e:
        return (f"to_text raised {exc_name(e)}: {short(e, 80)}", {"class": "emit raised", "exc": exc_name(e), "site": site_of(e)})
    try:
        z2 = _load(out, zone_model["origin"], relativize)
    except Exception as e:
        return (f"to_text output does not load: {exc_name(e)}: {short(e, 90)}", {"class": "reload raised", "exc": exc_name(e), "site": site_of(e)})
    d = diff_dumps(d0, dump(z2))
    if d is None and not (z2 == z):
        d = "independent dumps agree but Zone.__eq__ says different"
    if d is not None:
        return (f"to_text/from_text changed the zone ({kw}): {d}", {"class": "round trip differs"})
    return None


def eval_spelling(zone_model, relativize, name, sp, load_origin="given"):
    z, d0 = _canon(zone_model, relativize)
    text = M.write(zone_model, sp)
    try:
        z2 = _load(text, zone_model["origin"] if load_origin == "given" else None, relativize)
    except Exception as e:
        return (f"re-spelling '{name}' does not load: {exc_name(e)}: {short(e, 100)}",
                {"class": "spelling rejected", "spelling": name, "exc": exc_name(e)}), None
    d = diff_dumps(d0, dump(z2))
    if d is None and not (z2 == z):
        d = "independent dumps agree but Zone.__eq__ says different"
    if d is not None:
        return (f"re-spelling '{name}' loads to a different zone: {d}", {"class": "spelling differs", "spelling": name}), z2
    return None, z2


def eval_model(zone_model, relativize):
    text0 = M.write(zone_model, M.CANON)
    try:
        z = _load(text0, zone_model["origin"], relativize)
    except Exception as e:
        return (f"canonical spelling does not load: {exc_name(e)}: {short(e, 100)}", {"class": "canonical rejected", "exc": exc_name(e)}), None
    d = diff_dumps(model_dump(zone_model, relativize), dump(z))
    if d is not None:
        return (f"loaded zone differs from the model: {d}", {"class": "model differs"}), z
    if z.relativize != relativize or z.origin != dns.name.from_text(zone_model["origin"]):
        return ("zone origin/relativize not as requested", {"class": "origin"}), z
    return None, z


_BASE = "$TTL 300\n@ SOA ns1 hostmaster 1 7200 3600 1209600 300\n@ NS ns1\nns1 A 10.0.0.1\n"


_NAME_ATTR = {"CNAME": "target", "NS": "target", "PTR": "target", "DNAME": "target", "MX": "exchange", "SRV": "target"}
_WHERE = "below a $ORIGIN that names a proper subdomain of the zone origin"


def eval_generate(g, relativize, origin="example.", sub=None, layout=0):
    """$GENERATE against its expansion at the same point of the file.  With *sub* the line
    stands below '$ORIGIN <sub>.<origin>' (layout 1: after an earlier $ORIGIN to another
    subdomain; layout 2: an ordinary record between the $ORIGIN and the $GENERATE) and *g*
    is a name template of M.name_generate whose {zo}/{co} placeholders are filled here; the
    result is then also compared with names resolved independently (text level)."""
    res = _eval_generate1(g, relativize, origin, sub, layout)
    if sub is not None and res[0] not in (None, "skip"):
        # the same template without the $ORIGIN move: when it fails there as well the reason
        # is not the moved origin, and the finding keeps the ordinary signature
        res0 = _eval_generate1(g, relativize, origin, None, 0)
        if res0[0] not in (None, "skip"):
            return res0
    return res


def _eval_generate1(g, relativize, origin, sub, layout):
    moved = sub is not None
    co = (sub + "." + origin) if moved else origin
    named = "lhs_form" in g
    if named:
        g = M.bind_generate(g, origin, co)
    line = M.generate_line(g)
    exp = M.generate_expansion(g)
    head, tail = _BASE, "\nafter A 10.0.0.2\n"
    if moved:
        if layout == 1:
            head += f"$ORIGIN x.{origin}\nfirst A 10.0.0.5\n"
        head += f"$ORIGIN {co}\n"
        if layout == 2:
            head += "pre A 10.0.0.4\n"
        tail += f"$ORIGIN {origin}\nback A 10.0.0.3\n"
    a = head + line + tail
    b = head + "\n".join(exp) + tail

    def sig(cls, **kw):
        # below a moved origin the finding is identified by what differs (owner names / rdata /
        # TTL), not by the modifier shape: the same template is fine at the zone origin
        if moved:
            return dict({"class": cls, "where": _WHERE}, **kw)
        kw.pop("part", None)
        return dict({"class": cls, "shape": _gshape(g)}, **kw)

    def part(d):
        return "owner names" if d.startswith("rrsets") else d.split(" ", 1)[0] if d.split(" ", 1)[0] in ("TTL", "class", "rdata") else "content"

    try:
        zb = _load(b, origin, relativize)
    except Exception as e:
        return "skip", f"expansion itself not loadable: {exc_name(e)} {short(e, 60)}"
    try:
        za = _load(a, origin, relativize)
    except Exception as e:
        if _gshape(g) == "quoted right-hand side of several fields" and exc_name(e) == "dns.exception.SyntaxError":
            # BIND accepts a quoted multi-field right-hand side; dnspython's $GENERATE takes a single
            # token and refuses this form with its own SyntaxError.  The property compares a
            # $GENERATE the library accepts with its expansion; it does not demand that this extra
            # BIND spelling be accepted, so a clean refusal is not flagged (decided by the
            # maintainer of this check after triage: reporting it was a false alarm).
            return "skip", "quoted multi-field rhs is not part of dnspython's $GENERATE syntax"
        return (f"'{line}' rejected although its expansion loads: {exc_name(e)}: {short(e, 80)}",
                sig("generate rejected", exc=exc_name(e))), None
    d = diff_dumps(dump(zb), dump(za))
    if d is not None:
        return (f"'{line}' differs from its expansion" + (f" (current origin {co}, zone {origin})" if moved else "") + f": {d}",
                sig("generate differs", part=part(d))), None
    if named:
        d = _generate_vs_model(g, za, origin, co)
        if d is not None:
            return (f"'{line}' (current origin {co}, zone {origin}) and its expansion agree but: {d}",
                    sig("generate and expansion differ from independently resolved names")), None
    return None, za


def _generate_vs_model(g, z, origin, co):
    """The generated records as read from the loaded zone against names resolved at text
    level (RFC 1035 5.1: relative to the *current* origin); no rdata text parser involved."""
    zo = dns.name.from_text(origin)
    ttl = g.get("ttl", 300)
    attr = _NAME_ATTR[g["type"]]
    rdtype = dns.rdatatype.from_text(g["type"])
    for owner_t, lead, target_t in M.generate_expected(g, co):
        owner = dns.name.from_text(owner_t)
        if not owner.is_subdomain(zo):
            continue
        node = z.nodes.get(owner.relativize(zo) if z.relativize else owner)
        rds = node.get_rdataset(dns.rdataclass.IN, rdtype) if node is not None else None
        if rds is None:
            return f"no {g['type']} RRset at {owner_t}"
        if rds.ttl != ttl:
            return f"TTL {rds.ttl} at {owner_t}, expected {ttl}"
        want = dns.name.from_text(target_t)
        got = []
        for rd in rds:
            n = getattr(rd, attr)
            got.append(n if n.is_absolute() else n.derelativize(zo))
            if got[-1] == want:
                if g["type"] == "MX" and [str(rd.preference)] != lead:
                    return f"MX preference {rd.preference} at {owner_t}"
                if g["type"] == "SRV" and [str(rd.priority), str(rd.weight), str(rd.port)] != lead:
                    return f"SRV fields differ at {owner_t}"
                break
        else:
            return f"{g['type']} at {owner_t} names {[str(x) for x in got][:3]}, expected {target_t}"
    return None


def _gshape(g):
    """Stable description of the modifier shapes used (not the numbers)."""
    import re

    if g.get("quoted"):
        return "quoted right-hand side of several fields"

    def sh(t):
        mods = re.findall(r"\$\{[^}]*\}|\$", t)
        out = []
        for m in mods:
            if m == "$":
                out.append("$")
            else:
                p = m[2:-1].split(",")
                out.append("${o%s}" % ("" if len(p) == 1 else ",w" if len(p) == 2 else ",w," + p[2]))
        if len(set(mods)) > 1:
            return "mixed"
        return "".join(out) or "-"

    if "mixed" in (sh(g["lhs"]), sh(g["rhs"])):
        return "two different modifiers in one template"
    return f"lhs:{sh(g['lhs'])} rhs:{sh(g['rhs'])}" + (" ttl" if "ttl" in g else "") + (" class" if "cls" in g else "")


_OUT_LINES = [
    "foo.other. 300 IN A 192.0.2.1",
    "other. A 192.0.2.2",
    "example.com. A 192.0.2.3",
    "xexample. A 192.0.2.4",
    ". NS a.root-servers.net.",
    "foo.other. TXT ( \"a\"\n \"b\" ) ; multi-line outside",
    "foo.other. 300 IN A 192.0.2.1\n 300 IN A 192.0.2.9",  # inherited owner stays outside
    "$ORIGIN other.\nrel A 192.0.2.5\n@ MX 10 rel\n$ORIGIN {origin}",
    "$ORIGIN .\ncom A 192.0.2.6\n$ORIGIN {origin}",
    "$GENERATE 1-3 h$.other. A 192.0.2.$",
    "foo.other. CNAME bar.other.",
    "foo.other. SOA a. b. 1 2 3 4 5",
    "elpmaxe. A 192.0.2.7",
    "www.{origin_nodot}x. A 192.0.2.8",
]


def eval_out_of_zone(zone_model, relativize, line_idx, pos):
    text0 = M.write(zone_model, M.CANON)
    lines = text0.split("\n")[:-1]
    origin = zone_model["origin"]
    extra = _OUT_LINES[line_idx].replace("{origin}", origin).replace("{origin_nodot}", origin[:-1])
    pos = min(pos, len(lines))
    if pos == 0:
        pos = 1  # keep the SOA first so that default-TTL rules are not disturbed
    text = "\n".join(lines[:pos] + [extra] + lines[pos:]) + "\n"
    z, d0 = _canon(zone_model, relativize)
    try:
        z2 = _load(text, origin, relativize)
    except Exception as e:
        return (f"out-of-zone line not ignored, load failed: {exc_name(e)}: {short(e, 90)}",
                {"class": "out-of-zone rejected", "line": line_idx, "exc": exc_name(e)}), None
    d = diff_dumps(d0, dump(z2))
    if d is not None:
        return (f"out-of-zone line changed the zone: {d}", {"class": "out-of-zone not ignored", "line": line_idx}), z2
    return None, z2


_OTHER = [("A", "10.1.1.1"), ("AAAA", "::1"), ("TXT", '"x"'), ("MX", "10 mail"), ("NS", "ns1"), ("DNAME", "d"), ("SRV", "1 2 3 t"),
          ("RRSIG", "A 8 2 300 20200101000000 20030101000000 2143 example. AAAA"), ("DS", "1 8 2 " + "ab" * 32), ("PTR", "p")]


def eval_cname(other_idx, order, shape, relativize):
    t, rd = _OTHER[other_idx]
    c = "c CNAME target"
    o = f"c {t} {rd}"
    if shape == "adjacent":
        body = [c, o] if order == "cname_first" else [o, c]
    elif shape == "separated":
        body = ([c, "d A 10.2.2.2", o] if order == "cname_first" else [o, "d A 10.2.2.2", c])
    elif shape == "inherited":
        body = ([c, f" {t} {rd}"] if order == "cname_first" else [o, " CNAME target"])
    elif shape == "generate":
        g = "$GENERATE 1-2 c CNAME target" if order != "cname_first" else f"$GENERATE 1-1 c {t} {rd.split(' ')[0]}"
        if order == "cname_first" and " " in rd:
            return "skip", None, None
        body = [c, g] if order == "cname_first" else [o, g]
    else:
        body = [("c.example." + c[1:]), o] if order == "cname_first" else [o, "C.EXAMPLE." + c[1:]]
    text = _BASE + "\n".join(body) + "\n"
    try:
        z = _load(text, "example.", relativize)
    except dns.exception.DNSException:
        return None, None, text  # refusing the file is one way of never letting them coexist
    except Exception as e:
        return (f"loader failed with {exc_name(e)}", {"class": "cname load crashed", "exc": exc_name(e)}), None, text
    bad = cname_conflicts(z)
    if bad:
        return (f"CNAME and {t} coexist at {bad[0][0]} after loading ({order}, {shape})",
                {"class": "CNAME coexists after loading", "order": order}), z, text
    return None, z, text


# ------------------------------------------------------------------------------- TTL spellings, no default TTL
# RFC 1035 5.1: "<rr> contents take one of the following forms: [<TTL>] [<class>] <type> <RDATA> /
# [<class>] [<TTL>] <type> <RDATA> ... Omitted class and TTL values are default to the last
# explicitly stated values."  While no default TTL is known (no $TTL, no SOA yet) the TTL a record
# inherits is therefore the TTL of the previous record, whichever of the two orders spelled it.
_TTL_FORMS = {
    "tc": "<ttl> <class> <type>",
    "ct": "<class> <ttl> <type>",
    "t": "<ttl> <type>",
    "c": "<class> <type>",
    "n": "<type>",
}
_TTL_EXPLICIT = ("tc", "ct", "t")
_TTL_POOL = [
    ("@", "NS", "ns1"), ("ns1", "A", "10.0.0.1"), ("www", "AAAA", "2001:db8::1"), ("mail", "MX", "10 mx"), ("txt", "TXT", '"v"'),
]
_TTL_SOA = ("@", "SOA", "ns1 hostmaster 1 7200 3600 1209600 55")
_TTL_VALUES = (0, 1, 7, 60, 100, 300, 3600, 86400, 604800, 2147483647)
_TTL_LAYOUTS = ("fragment", "soa_last", "rrsets", "rrsets_soa_last")
_TTL_ORIGIN = "example."


def _ttl_line(rec, form, ttl):
    owner, rdtype, rdata = rec
    mid = {"tc": f"{ttl} IN ", "ct": f"IN {ttl} ", "t": f"{ttl} ", "c": "IN ", "n": ""}[form]
    return f"{owner} {mid}{rdtype} {rdata}"


def _ttl_effective(forms, ttls):
    eff = []
    for f, t in zip(forms, ttls):
        eff.append(t if f in _TTL_EXPLICIT else eff[-1])
    return eff


def _ttl_load(layout, text, relativize):
    """TTL-sensitive dump of what the text loads to in the given layout."""
    if layout in ("fragment", "soa_last"):
        return dump(_load(text, _TTL_ORIGIN, relativize, check_origin=(layout == "soa_last")))
    import dns.zonefile

    origin = dns.name.from_text(_TTL_ORIGIN)
    out = {}
    for rrs in dns.zonefile.read_rrsets(text, rdclass=None, origin=_TTL_ORIGIN, relativize=relativize):
        an = rrs.name if rrs.name.is_absolute() else rrs.name.derelativize(origin)
        out[(an, int(rrs.rdtype), int(rrs.covers))] = (int(rrs.rdclass), int(rrs.ttl), frozenset(rd.to_wire(origin=origin) for rd in rrs))
    return out


def _ttl_pair(layout, relativize, recs, forms, ttls):
    """-> (difference or None, eff, explicit outcome, spelled outcome); an outcome is a dump or
    the exception the load raised."""
    eff = _ttl_effective(forms, ttls)
    spelled = "\n".join(_ttl_line(r, f, t) for r, f, t in zip(recs, forms, ttls)) + "\n"
    explicit = "\n".join(_ttl_line(r, "tc", t) for r, t in zip(recs, eff)) + "\n"
    res = []
    for text in (explicit, spelled):
        try:
            res.append(_ttl_load(layout, text, relativize))
        except Exception as e:
            res.append(e)
    a, b = res
    if isinstance(a, Exception) and isinstance(b, Exception):
        return None, eff, a, b  # rejected consistently with the explicit twin
    if isinstance(b, Exception):
        return f"rejected ({exc_name(b)}: {short(b, 70)}) although the explicit spelling loads", eff, a, b
    if isinstance(a, Exception):
        return f"accepted although the explicit spelling is rejected ({exc_name(a)}: {short(a, 70)})", eff, a, b
    d = diff_dumps(a, b)
    return (None if d is None else f"loads differently from the explicit spelling: {d}"), eff, a, b


def eval_ttl_order(layout, relativize, recs, forms, ttls):
    """-> (finding|None, nontrivial).  The sequence in the given per-record spellings against
    the same sequence written '<ttl> <class> <type>' with the inherited TTLs made explicit."""
    recs = [tuple(r) for r in recs]
    d, eff, a, b = _ttl_pair(layout, relativize, recs, forms, ttls)
    if not isinstance(a, Exception):
        # the explicit twin against the expected TTLs (one RRset per record)
        origin = dns.name.from_text(_TTL_ORIGIN)
        for (owner, rdtype, _), t in zip(recs, eff):
            key = (dns.name.from_text(owner, origin), int(dns.rdatatype.from_text(rdtype)), 0)
            if key not in a or a[key][1] != t:
                return (f"[{layout}] the explicit spelling '{owner} {t} IN {rdtype} ...' loads with {a.get(key, ('-', 'no such RRset'))[1]} instead of TTL {t}",
                        {"site": "dns.zonefile.Reader._rr_line", "class": "no default TTL: explicit '<ttl> <class> <type>' record loads with another TTL"}), True
    if d is None:
        return None, not isinstance(a, Exception)
    # the shortest prefix that already disagrees names the record (and so the spelling) at fault
    # (prefixes lack the SOA: they are read without the origin check)
    k = len(recs)
    for n in range(1, len(recs)):
        if _ttl_pair("fragment" if layout == "soa_last" else layout, relativize, recs[:n], forms[:n], ttls[:n])[0] is not None:
            k = n
            break
    i = k - 1
    text = " | ".join(_ttl_line(r, f, t) for r, f, t in zip(recs, forms, ttls))
    if forms[i] in _TTL_EXPLICIT:
        sig = {"site": "dns.zonefile.Reader._rr_line", "class": "no default TTL: a record with an explicit TTL differs from its '<ttl> <class> <type>' spelling",
               "spelling": _TTL_FORMS[forms[i]]}
        why = f"record {i + 1} ({_TTL_FORMS[forms[i]]})"
    else:
        j = max(x for x in range(i) if forms[x] in _TTL_EXPLICIT)
        sig = {"site": "dns.zonefile.Reader._rr_line", "class": "no default TTL: a record that omits its TTL does not get the TTL of the previous record",
               "previous": _TTL_FORMS[forms[j]]}
        why = f"record {i + 1} omits its TTL and must inherit {eff[i]} from record {j + 1}, spelled {_TTL_FORMS[forms[j]]}"
    return (f"[{layout}, relativize={relativize}] '{text}' {d}; {why}", sig), True


def _ttl_form_sequences(n):
    for first in _TTL_EXPLICIT:
        for rest in itertools.product(tuple(_TTL_FORMS), repeat=n - 1):
            yield (first,) + rest


def _run_ttl_order(R, rng2):
    """C09.spellings_no_default_ttl: every per-record spelling of short sequences in files where
    no default TTL becomes known before the last record."""
    clause = "C09.spellings_no_default_ttl"
    draws = 1 if R.quick else 2
    count = 0
    for draw in range(draws):
        for layout in _TTL_LAYOUTS:
            soa = layout.endswith("soa_last")
            for n in range(2, (5 if R.quick else 6)):
                pool = list(_TTL_POOL)
                if draw:
                    head, tail = pool[:1], pool[1:]
                    rng2.shuffle(tail)
                    pool = head + tail if soa else tail + head
                # soa_last: the origin NS first (the origin check wants it), the SOA last
                recs = (pool[: n - 1] + [_TTL_SOA]) if soa else pool[1 : n + 1] if n < 5 else pool[:n]
                ttls = rng2.sample(_TTL_VALUES, n)
                for si, forms in enumerate(_ttl_form_sequences(n)):
                    if (si & 31) == 0 and R.deadline():
                        R.note(f"TTL spellings without a default TTL: stopped in {layout}, length {n} (deadline)")
                        return
                    for rel in ((True, False) if not R.quick else (bool((si + n) % 2),)):
                        res = R.guard(clause, eval_ttl_order, layout, rel, recs, list(forms), ttls)
                        if res is None:
                            continue
                        inherits = any(f not in _TTL_EXPLICIT for f in forms)
                        R.case(clause, key=(layout, rel, tuple(recs), forms, tuple(ttls)), nontrivial=res[1] and (inherits or "ct" in forms or "t" in forms))
                        count += 1
                        if layout == "fragment" and n == 3 and forms == ("tc", "ct", "n"):
                            R.sample(clause, {"layout": layout, "lines": [_ttl_line(r, f, t) for r, f, t in zip(recs, forms, ttls)],
                                              "explicit": [_ttl_line(r, "tc", t) for r, t in zip(recs, _ttl_effective(forms, ttls))]})
                        _emit(R, clause, res[0], {"kind": "ttl_order", "layout": layout, "relativize": rel, "recs": [list(r) for r in recs],
                                                  "forms": list(forms), "ttls": ttls})
    R.note(f"TTL spellings without a default TTL: {count} sequences")


# ------------------------------------------------------------------------------- driver
def _emit(R, clause, finding, replay):
    if finding is None or finding == "skip":
        return
    R.violation(clause, finding[0], sig=finding[1], replay=replay)


_TTL_SPELLINGS = ("dollar_ttl", "dollar_ttl_units", "class_then_ttl_dollar", "everything", "minimal",
                  "soa_minimum_default", "soa_minimum_default_min")
_STYLE_DEFAULT = {"sorted": True, "want_origin": False, "default_ttl": None, "dedup": False, "just": "none",
                  "chunk": "default", "generic": False, "comments": False, "omit_class": False, "relativize": True}


def ttl0_styles(rng, n_seeded, full):
    """default_ttl=0 x {sorted, want_origin, dedup, omit_class} x relativize (quick: one value
    per combination); the other default_ttl values x {sorted, dedup} (quick: 1 of 4); seeded
    settings of the whitespace/comment switches."""
    out = []
    for i, (so, wo, dd, oc) in enumerate(itertools.product([True, False], repeat=4)):
        rls = [True, False] if full else [i % 3 != 1]
        for rl in rls:
            out.append(dict(_STYLE_DEFAULT, default_ttl="zero", sorted=so, want_origin=wo, dedup=dd, omit_class=oc, relativize=rl))
    for dt in (None, "common", "unused"):
        for so, dd in itertools.product([True, False], repeat=2):
            if full or (so == dd and so == (dt != "common")):
                out.append(dict(_STYLE_DEFAULT, default_ttl=dt, sorted=so, dedup=dd))
    for _ in range(n_seeded):
        st = random_style(rng)
        st.update(default_ttl="zero", generic=False)
        out.append(st)
    return out


def _run_generate_names(R, C, rng2):
    """C09.generate: domain names in the right-hand side (CNAME NS PTR DNAME MX SRV), relative
    and absolute, at the zone origin and below a $ORIGIN naming a proper subdomain of it."""
    fixed = M.fixed_name_generates()
    # quick: each fixed template below one of the two (zone origin, subdomain) pairs, in turn
    cases = [(g, zo, sub, 0) for gi, g in enumerate(fixed) for oi, (zo, sub) in enumerate(M.SUB_ORIGINS)
             if not R.quick or (gi + gi // 6) % 2 == oi]
    cases += [(g, "example.", None, 0) for g in fixed if g["lhs_form"] == "rel"]
    for _ in range(80 if R.quick else 1200):
        g = M.make_name_generate(rng2)
        cases.append((g, rng2.choice(M.ORIGINS), rng2.choice(["sub", "deep.er", "s.u.b", "T1", "x"]), rng2.choice([0, 1, 2])))
    for ci, (g, zo, sub, layout) in enumerate(cases):
        if R.deadline():
            R.note(f"generate below $ORIGIN: stopped at {ci}/{len(cases)} (deadline)")
            break
        for rel in (True, False):
            res = R.guard("C09.generate", eval_generate, g, rel, zo, sub, layout)
            if res is None:
                continue
            key = ("gn", M.generate_line(g), zo, sub, layout, rel)
            if res[0] == "skip":
                R.case("C09.generate", key=key, nontrivial=False)
                continue
            R.case("C09.generate", key=key)
            if ci == 7 and rel:
                gb = M.bind_generate(g, zo, sub + "." + zo)
                R.sample("C09.generate", {"zone": zo, "below": "$ORIGIN " + sub + "." + zo, "line": M.generate_line(gb),
                                          "expansion": M.generate_expansion(gb)[:2]})
            _emit(R, "C09.generate", res[0], {"kind": "generate", "g": g, "relativize": rel, "origin": zo, "sub": sub, "layout": layout})
            if res[1] is not None:
                C.check_cname(res[1], {"kind": "generate", "g": g, "relativize": rel, "origin": zo, "sub": sub, "layout": layout}, key)


def _run_ttl0(R, C, rng2, zones, unloadable):
    """TTL 0 as a value and as the default: zones of every M.TTL0_SHAPES shape through the
    model, the TTL-inheriting re-spellings ('$TTL 0', SOA minimum 0) and the default_ttl=0
    styles; and the default_ttl=0 styles on the ordinary zones.  All comparisons use the
    TTL-sensitive dump."""
    tz = []
    for rep in range(1 if R.quick else 2):
        for sh in M.TTL0_SHAPES:
            tz.append((sh, M.make_ttl0_zone(rng2, sh, 3 if R.quick else 4 if rep == 0 else rng2.choice([4, 6, 10]))))
    for zi, (sh, zm) in enumerate(tz):
        if R.deadline():
            R.note(f"TTL 0: stopped at zone {zi}/{len(tz)} (deadline)")
            return
        sts = ttl0_styles(rng2, 2 if R.quick else 8, not R.quick)
        for rel in (True, False):
            rp = {"kind": "model", "zone": zm, "relativize": rel}
            f, z = R.guard("C09.model", eval_model, zm, rel) or (None, None)
            R.case("C09.model", key=("m0", zi, rel))
            _emit(R, "C09.model", f, rp)
            if z is None:
                continue
            C.check_cname(z, rp, ("m0", zi, rel))
            for name, sp in M.spellings(sh["minimum"] == 0).items():
                if R.quick and name not in _TTL_SPELLINGS:
                    continue
                variants = ["given"] + (["file"] if (sp.get("origin_directive") or sp.get("names") == "relative") else [])
                for lo in variants:
                    rp = {"kind": "spelling", "zone": zm, "relativize": rel, "name": name, "sp": sp, "load_origin": lo}
                    res = R.guard("C09.spellings", eval_spelling, zm, rel, name, sp, lo)
                    R.case("C09.spellings", key=("s0", zi, rel, name, lo))
                    if res is not None:
                        _emit(R, "C09.spellings", res[0], rp)
            for si, st in enumerate(sts):
                if R.quick and not rel and si < 16 and si % 2 == (zi % 2):
                    continue  # quick: half of the default_ttl=0 product on the absolute zone
                res = R.guard("C09.roundtrip_styles", eval_style, zm, rel, st)
                R.case("C09.roundtrip_styles", key=("st0", zi, rel, tuple(st.values())))
                if res is None:
                    continue
                if zi == 3 and rel and si == 1:
                    R.sample("C09.roundtrip_styles", {"ttl0_shape": sh, "style": st,
                                                      "text_head": z.to_styled_text(dns.zone.ZoneStyle(**_style_kwargs(st, z, zm))).split("\n")[:4]})
                _emit(R, "C09.roundtrip_styles", res[0], {"kind": "style", "zone": zm, "relativize": rel, "style": st})
    for zi, zm in enumerate(zones):
        if R.deadline():
            return
        has0 = any(r["ttl"] == 0 for r in zm["records"])
        for rel in (True, False):
            if (zi, rel) in unloadable:
                continue
            for so, dd in itertools.product([True, False], repeat=2):
                if so != dd:
                    continue
                st = dict(_STYLE_DEFAULT, default_ttl="zero", sorted=so, dedup=dd, want_origin=so, omit_class=dd, relativize=rel)
                res = R.guard("C09.roundtrip_styles", eval_style, zm, rel, st)
                R.case("C09.roundtrip_styles", key=("stz", zi, rel, so, dd), nontrivial=has0)
                if res is not None:
                    _emit(R, "C09.roundtrip_styles", res[0], {"kind": "style", "zone": zm, "relativize": rel, "style": st})


def run(R):
    C = _Ctx(R)
    rng = R.rng
    nz_full = 2 if R.quick else 4
    nz = 14 if R.quick else 80
    zones = []
    for i in range(nz):
        if i < nz_full:
            size = 4 if (R.quick or i < 2) else 8
        else:
            size = rng.choice([4, 6, 8, 10, 14] if R.quick else [4, 6, 8, 12, 16, 22, 30])
        # every 4th zone (1, 5, ...) has only out-of-zone names in its rdata, so that the
        # RFC 3597 generic form can round trip at all (see F7); every 4th (3, 7, ...) has one TTL
        zones.append(M.make_zone(rng, size, uniform_ttl=(i % 4 == 3), external_names=(i % 4 == 1)))
    unloadable = set()
    styles = list(all_styles())
    if R.quick:
        # quick: the 2^9 x 3 product of DESIGN B7; the third value of the two remaining
        # 3-valued switches (right justification, chunking off) is met in the seeded styles
        styles = [s for s in styles if s["just"] != "right" and s["chunk"] != "off"]

    # ---- model + spellings + out-of-zone on every zone (cheap), styles after that
    for zi, zm in enumerate(zones):
        if R.deadline():
            R.note(f"stopped at zone {zi}/{nz} (deadline)")
            break
        uniform = (zi % 4 == 3)
        for rel in (True, False):
            rp = {"kind": "model", "zone": zm, "relativize": rel}
            f, z = R.guard("C09.model", eval_model, zm, rel) or (None, None)
            R.case("C09.model", key=("m", zi, rel))
            if zi == 0 and rel:
                R.sample("C09.model", {"records": len(zm["records"]), "origin": zm["origin"], "first_lines": M.write(zm, M.CANON).split("\n")[:4]})
            _emit(R, "C09.model", f, rp)
            if z is None:
                unloadable.add((zi, rel))  # reported above; nothing to compare against
                continue
            C.check_cname(z, rp, ("m", zi, rel))
            for name, sp in M.spellings(uniform).items():
                variants = ["given"]
                if sp.get("origin_directive") or sp.get("names") == "relative":
                    variants.append("file")
                for lo in variants:
                    rp = {"kind": "spelling", "zone": zm, "relativize": rel, "name": name, "sp": sp, "load_origin": lo}
                    res = R.guard("C09.spellings", eval_spelling, zm, rel, name, sp, lo)
                    R.case("C09.spellings", key=("s", zi, rel, name, lo))
                    if res is None:
                        continue
                    if zi == 0 and rel and name == "everything" and lo == "given":
                        R.sample("C09.spellings", {"spelling": name, "text_head": M.write(zm, sp).split("\n")[:8]})
                    _emit(R, "C09.spellings", res[0], rp)
                    if res[1] is not None:
                        C.check_cname(res[1], rp, ("s", zi, rel, name, lo))
            nlines = len(zm["records"])
            for li in range(len(_OUT_LINES)):
                for pos in sorted({1, nlines // 2, nlines}):
                    rp = {"kind": "out", "zone": zm, "relativize": rel, "line": li, "pos": pos}
                    res = R.guard("C09.out_of_zone", eval_out_of_zone, zm, rel, li, pos)
                    R.case("C09.out_of_zone", key=("o", zi, rel, li, pos))
                    if res is None:
                        continue
                    if zi == 0 and rel and li == 7 and pos == 1:
                        R.sample("C09.out_of_zone", {"inserted": _OUT_LINES[li], "at_line": pos + 1})
                    _emit(R, "C09.out_of_zone", res[0], rp)
            for kw in itertools.product([True, False], repeat=5):
                k = dict(zip(["sorted", "relativize", "want_comments", "want_origin", "via_file"], kw))
                if R.quick and k["via_file"] and zi > 2:
                    continue
                rp = {"kind": "api", "zone": zm, "relativize": rel, "kw": k}
                f = R.guard("C09.roundtrip_api", eval_api, zm, rel, k)
                R.case("C09.roundtrip_api", key=("a", zi, rel, tuple(kw)))
                _emit(R, "C09.roundtrip_api", f, rp)

    R.note(f"model/spellings/out-of-zone/api: {R.elapsed():.1f} s")
    # ---- CNAME and other data
    for oi in range(len(_OTHER)):
        for order in ("cname_first", "other_first"):
            for shape in ("adjacent", "separated", "inherited", "generate", "case"):
                for rel in (True, False):
                    res = R.guard("C09.cname_other", eval_cname, oi, order, shape, rel)
                    if res is None or res[0] == "skip":
                        continue
                    R.case("C09.cname_other", key=("c", oi, order, shape, rel))
                    if oi == 0 and shape == "adjacent" and rel:
                        R.sample("C09.cname_other", {"text_tail": res[2].split("\n")[-3:-1], "order": order})
                    _emit(R, "C09.cname_other", res[0], {"kind": "cname", "other": oi, "order": order, "shape": shape, "relativize": rel})

    # ---- $GENERATE
    fixed = M.nibble_generates() + [
        {"start": 1, "stop": 3, "step": 1, "lhs": "host$", "type": "A", "rhs": "10.0.0.$"},
        {"start": 1, "stop": 9, "step": 4, "lhs": "h${0,3,d}", "type": "CNAME", "rhs": "host${-1,0,d}.example.", "force_step": True},
        {"start": 8, "stop": 17, "step": 3, "lhs": "o${0,0,o}x${0,0,o}", "type": "TXT", "rhs": "v${0,4,X}"},
        {"start": 0, "stop": 2, "step": 1, "lhs": "z$", "ttl": 60, "cls": "IN", "type": "AAAA", "rhs": "2001:db8::${1,4,x}"},
        {"start": 5, "stop": 5, "step": 1, "lhs": "single$", "ttl": 86400, "type": "NS", "rhs": "ns$.other."},
        {"start": 1, "stop": 2, "step": 1, "lhs": "h$-${0,2,d}", "type": "A", "rhs": "10.0.1.$"},  # two different modifiers
        {"start": 1, "stop": 2, "step": 1, "lhs": "m$", "type": "CNAME", "rhs": "t$.${0,2,d}.example."},
    ]
    ng = 300 if R.quick else 6000
    gens = fixed + [M.make_generate(rng) for _ in range(ng)]
    for gi, g in enumerate(gens):
        if R.deadline():
            break
        for rel in (True, False):
            res = R.guard("C09.generate", eval_generate, g, rel)
            if res is None:
                continue
            if res[0] == "skip":
                R.case("C09.generate", key=("g", gi, rel), nontrivial=False)
                continue
            R.case("C09.generate", key=("g", M.generate_line(g), rel))
            if gi in (1, 5) and rel:
                R.sample("C09.generate", {"line": M.generate_line(g), "expansion": M.generate_expansion(g)[:3]})
            _emit(R, "C09.generate", res[0], {"kind": "generate", "g": g, "relativize": rel})

    R.note(f"+cname/generate: {R.elapsed():.1f} s")
    # The two sections below draw from a generator derived from the seed (not from R.rng), so
    # that the case stream of the sections above and of the style product below is unchanged.
    rng2 = random.Random(R.seed * 7919 + 9001)
    _run_generate_names(R, C, rng2)
    R.note(f"+generate below $ORIGIN: {R.elapsed():.1f} s")
    _run_ttl0(R, C, rng2, zones, unloadable)
    R.note(f"+TTL 0: {R.elapsed():.1f} s")
    _run_ttl_order(R, rng2)
    R.note(f"+TTL spellings without a default TTL: {R.elapsed():.1f} s")
    # ---- styles: exhaustive product on the first zones, seeded subsets on the rest
    budget_frac = 0.85
    for zi, zm in enumerate(zones):
        if R.deadline() or R.elapsed() > budget_frac * R.budget_s:
            R.note(f"styles: stopped at zone {zi}/{len(zones)} (budget)")
            break
        for rel in (True, False):
            if (zi, rel) in unloadable:
                continue
            if zi >= nz_full:
                sts = [random_style(rng) for _ in range(96 if not R.quick else 32)]
            elif not R.quick:
                sts = styles
            elif zi == 0:
                # in-zone names in rdata: every generic style meets F7, a sample is enough
                sts = [s for s in styles if not s["generic"]] + [s for i, s in enumerate(styles) if s["generic"] and i % 24 == 1]
            else:
                sts = styles if rel else [random_style(rng) for _ in range(256)]
            for si, st in enumerate(sts):
                if (si & 63) == 0 and (R.deadline() or R.elapsed() > budget_frac * R.budget_s):
                    break
                res = R.guard("C09.roundtrip_styles", eval_style, zm, rel, st)
                R.case("C09.roundtrip_styles", key=("st", zi, rel, tuple(st.values())))
                if res is None:
                    continue
                if zi == 0 and rel and si == 1500:
                    R.sample("C09.roundtrip_styles", {"style": st})
                _emit(R, "C09.roundtrip_styles", res[0], {"kind": "style", "zone": zm, "relativize": rel, "style": st})


def replay(data):
    k = data["kind"]
    if k == "style":
        f, _ = eval_style(data["zone"], data["relativize"], data["style"])
    elif k == "api":
        f = eval_api(data["zone"], data["relativize"], data["kw"])
    elif k == "spelling":
        f, z = eval_spelling(data["zone"], data["relativize"], data["name"], data["sp"], data.get("load_origin", "given"))
        if f is None and z is not None and cname_conflicts(z):
            f = ("CNAME coexists", {})
    elif k == "model":
        f, z = eval_model(data["zone"], data["relativize"])
        if f is None and z is not None and cname_conflicts(z):
            f = ("CNAME coexists", {})
    elif k == "out":
        f, _ = eval_out_of_zone(data["zone"], data["relativize"], data["line"], data["pos"])
    elif k == "generate":
        r = eval_generate(data["g"], data["relativize"], data.get("origin", "example."), data.get("sub"), data.get("layout", 0))
        f = None if r[0] in (None, "skip") else r[0]
    elif k == "ttl_order":
        f, _ = eval_ttl_order(data["layout"], data["relativize"], data["recs"], data["forms"], data["ttls"])
    elif k == "cname":
        r = eval_cname(data["other"], data["order"], data["shape"], data["relativize"])
        f = None if r[0] in (None, "skip") else r[0]
    else:
        return False, "unknown replay kind"
    if f:
        return True, f[0]
    return False, "property clause holds on this input"
