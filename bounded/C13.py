"""Bounded stand-in for C13 - inbound AXFR/IXFR converges to the server's zone or leaves the
zone untouched.  Response streams are generated from chains of model zone versions, encoded
per RFC 5936 / RFC 1995, rendered to wire, and fed to the real dns.xfr.Inbound the way
dns.query._inbound_xfr does (directly, and for a subset through dns.query._inbound_xfr over a
socketpair).  The expected outcome comes from an independent reference interpreter of the
record stream."""

from __future__ import annotations

import itertools
import socket
import struct

import dns.exception
import dns.flags
import dns.message
import dns.name
import dns.query
import dns.rcode
import dns.rdatatype
import dns.rrset
import dns.xfr

from bounded import _c10_model as M

BOUNDS = (
    "Client zones: dns.zone.Zone, dns.versioned.Zone, dns.btreezone.Zone x relativize on/off. "
    "Server side: seeded chains of 2-4 model zone versions (<= 6 owner names, 17 pool rdatas "
    "of 10 types incl. RRSIG, CNAME<->other-data flips, TTL changes, SOA serials incl. "
    "wrap-around across 2^32 and increments up to 2^31-1). Valid encodings: AXFR (into a "
    "populated or never-written zone), IXFR as a multi-step incremental chain, IXFR condensed "
    "to one diff, AXFR-style answer to IXFR, already-up-to-date answer, UDP IXFR (complete in "
    "one datagram). Error encodings: UDP truncated answer (UseTCP), serial going backwards in "
    "RFC 1982 arithmetic (single SOA and a well-formed diff towards the older serial), IXFR "
    "based on another serial. Every stream is rendered to wire and parsed back with the "
    "parameters of dns.query._inbound_xfr. Cuts: ALL divisions of the record stream into 1, 2 "
    "and 3 messages (quick: for 6 streams per round on a rotating variant, other streams a "
    "seeded sample of 6 cuts; thorough: all cuts for every stream up to 40 records). Faults: "
    "on valid AXFR / IXFR-chain / AXFR-style streams, every single fault {drop, duplicate, "
    "swap with next, truncate after, corrupt SOA serial, corrupt owner (other in-zone name / "
    "out-of-zone name), corrupt type, non-zero rcode (SERVFAIL, REFUSED, NOTAUTH) on the "
    "containing message, surplus record after the final SOA in the same message, wrong "
    "question name / type} at EVERY record position, each in a seeded cut into <= 3 messages "
    "(quick: 14 version chains, i.e. ~130 valid streams of which ~60 are faulted at every "
    "position; thorough: up to 600 chains within 500 s, ~170 reached on a loaded machine). Oracle: a reference interpreter of the RFC 1995 / "
    "5936 record grammar applied to the model of the client zone: 'target zone' or 'error'; "
    "streams whose meaning the RFCs leave open (SOA,SOA answer to IXFR, out-of-zone owners, "
    "CNAME-and-other-data or several singleton RRs at one name, mixed TTLs in one RRset, "
    "serial distance exactly 2^31) are judged only by the all-or-nothing invariant. Socket "
    "path: dns.xfr.make_query + dns.query._inbound_xfr over an AF_UNIX socketpair (stream and "
    "datagram), pre-loaded with the framed response and closed (quick: 1 in 12 runs; "
    "thorough: 1 in 6). Not covered: TSIG-signed transfers, real network sockets/timeouts, "
    "messages larger than 64 KiB, zones with in-zone names inside rdata."
)

AXFR = dns.rdatatype.AXFR
IXFR = dns.rdatatype.IXFR
SOA = dns.rdatatype.SOA
SOA_KEY = (int(SOA), 0)


# ================================================================== server-side versions


def _soa_key(serial, minimum=300):
    return f"soa:{serial}"


def make_chain(rng, n_versions):
    """[(Model)] each with an apex SOA; consecutive serials increase in RFC 1982 terms."""
    from bounded.C10 import random_op

    base_id = rng.choice(["apex", "small", "rich"])
    m = M.base_model(base_id)
    serial = rng.choice([1, 7, 1000, 2**31 - 2, 2**31 - 1, 2**31, 2**32 - 3, 2**32 - 2, 2**32 - 1, rng.randrange(1, 2**32)])
    soa_ttl = rng.choice([300, 3600])
    m.put(M.ORIGIN, SOA_KEY, soa_ttl, [M.rd(f"soa:{serial}")])
    chain = [m.copy()]
    for _ in range(n_versions - 1):
        m = m.copy()
        for _ in range(rng.choice([0, 1, 1, 2, 3, 5])):
            op = random_op(rng)
            if op["op"] == "serial" or op.get("n") == "out":
                continue
            if op.get("rds") and op["rds"][0].startswith("soa:"):
                continue
            if op["op"] == "delete_exact":
                op["op"] = "delete"
            if op["n"] == 0 and (op.get("form") == "name" or op.get("type") == "SOA"):
                continue  # keep the apex SOA
            if op["n"] == 0 and op["op"] in ("add", "replace") and M.kind_of(*M.rds_key([M.rd(k) for k in op["rds"]])) == "cname":
                continue  # a CNAME at the apex would evict the SOA
            m.apply(op)
        # changes inside an existing RRset: swap one member, change the TTL, or replace a
        # singleton (these put a deletion and an addition of the same name/type next to
        # each other in the difference sequence)
        for _ in range(rng.choice([0, 1, 1, 2])):
            cands = [
                (n, key)
                for n, node in m.c.items()
                for key in node
                if not (n == M.ORIGIN and key == SOA_KEY)
            ]
            if not cands:
                break
            n, key = rng.choice(cands)
            ttl, toks = m.c[n][key]
            pool = [
                M.rd(k)
                for k in M._POOL_TEXT
                if M.rds_key([M.rd(k)]) == key and M.tok(M.rd(k)) not in toks
            ]
            how = rng.choice(["swap", "ttl", "swap"])
            if how == "ttl" or not pool:
                m.c[n][key][0] = rng.choice([t for t in (30, 60, 300, 900, 3600) if t != ttl])
            else:
                new = rng.choice(pool)
                old = rng.choice(sorted(toks))
                toks.discard(old)
                toks.add(M.tok(new))
        inc = rng.choice([1, 1, 2, 10, 1000, 2**31 - 1])
        serial = (serial + inc) % 2**32
        if rng.random() < 0.2:
            soa_ttl = rng.choice([300, 3600, 60])
        m.put(M.ORIGIN, SOA_KEY, soa_ttl, [M.rd(f"soa:{serial}")])
        chain.append(m.copy())
    return chain


def soa_rr(m: M.Model):
    e = m.get(M.ORIGIN, SOA_KEY)
    return (M.ORIGIN, e[0], M.untok(next(iter(e[1]))))


def records(m: M.Model):
    """All RRs of a version except the apex SOA, as (name, ttl, rdata)."""
    out = []
    for n, node in m.c.items():
        for key, (ttl, toks) in node.items():
            if n == M.ORIGIN and key == SOA_KEY:
                continue
            for t in sorted(toks):
                out.append((n, ttl, M.untok(t)))
    return out


def diff(a: M.Model, b: M.Model):
    """(deleted RRs, added RRs) turning a into b, RRset-TTL aware, apex SOA excluded."""
    dels, adds = [], []
    names = list(dict.fromkeys(list(a.c) + list(b.c)))
    for n in names:
        na, nb = a.c.get(n, {}), b.c.get(n, {})
        for key in list(dict.fromkeys(list(na) + list(nb))):
            if n == M.ORIGIN and key == SOA_KEY:
                continue
            ea, eb = na.get(key), nb.get(key)
            if ea is not None and eb is not None and ea[0] == eb[0]:
                for t in sorted(ea[1] - eb[1]):
                    dels.append((n, ea[0], M.untok(t)))
                for t in sorted(eb[1] - ea[1]):
                    adds.append((n, eb[0], M.untok(t)))
            else:
                if ea is not None:
                    for t in sorted(ea[1]):
                        dels.append((n, ea[0], M.untok(t)))
                if eb is not None:
                    for t in sorted(eb[1]):
                        adds.append((n, eb[0], M.untok(t)))
    return dels, adds


def enc_axfr(m, rng=None):
    rr = records(m)
    if rng is not None:
        rng.shuffle(rr)
    return [soa_rr(m)] + rr + [soa_rr(m)]


def enc_ixfr(chain, rng=None):
    """chain[0] is what the client has, chain[-1] the target."""
    out = [soa_rr(chain[-1])]
    for a, b in zip(chain, chain[1:]):
        d, ad = diff(a, b)
        if rng is not None:
            rng.shuffle(d)
            rng.shuffle(ad)
        out += [soa_rr(a)] + d + [soa_rr(b)] + ad
    out.append(soa_rr(chain[-1]))
    return out


# ================================================================== reference interpreter


def _is_apex_soa(rr):
    return rr[2].rdtype == SOA and rr[0] == M.ORIGIN


def _rfc1982_lt(a, b):
    d = (b - a) % 2**32
    return 0 < d < 2**31


class _Err(Exception):
    pass


def _conflicts(m: M.Model):
    """Content whose handling no RFC of the transfer protocols defines."""
    for n, node in m.c.items():
        kinds = {M.kind_of(*k) for k in node}
        if "cname" in kinds and "regular" in kinds:
            return True
        for key, (ttl, toks) in node.items():
            if key[0] in M._SINGLETONS and len(toks) > 1:
                return True
            if key[0] == SOA and n != M.ORIGIN:
                return True
    return False


def reference(client: M.Model | None, rdtype, serial, is_udp, msgs, qerr=False):
    """msgs: [{"rcode": int, "rrs": [(name, ttl, rdata)]}].  Returns ("ok", Model),
    ("error", why) or ("open", why) for streams the RFCs do not settle."""
    if qerr:
        return ("error", "wrong question")
    incremental = rdtype == IXFR
    state = "first"
    first = None
    cur_serial = serial
    work = None  # Model being built
    applied = 0
    ttls: dict = {}
    open_why = None
    done = False

    def add(model, rr):
        nonlocal open_why
        n, ttl, r = rr
        if not n.is_subdomain(M.ORIGIN):
            open_why = "out-of-zone owner"
            return
        key = M.rds_key([r])
        node = model.c.setdefault(n, {})
        e = node.get(key)
        # content no transfer RFC gives a meaning to (the library's node rules decide)
        k = M.kind_of(*key)
        if any(M.kind_of(*o) != k and "neutral" not in (k, M.kind_of(*o)) for o in node):
            open_why = "CNAME and other data at one name"
        if key[0] in M._SINGLETONS and e is not None and M.tok(r) not in e[1]:
            open_why = "several singleton records at one name"
        if e is None:
            model.c[n][key] = [ttl, {M.tok(r)}]
        else:
            if e[0] != ttl:
                open_why = "mixed TTLs in one RRset"
                e[0] = min(e[0], ttl)
            e[1].add(M.tok(r))

    def delete(model, rr):
        nonlocal open_why
        n, ttl, r = rr
        if not n.is_subdomain(M.ORIGIN):
            open_why = "out-of-zone owner"
            return
        key = M.rds_key([r])
        e = model.c.get(n, {}).get(key)
        if e is None or M.tok(r) not in e[1]:
            raise _Err("deletion of a record the zone does not have")
        e[1].discard(M.tok(r))
        if not e[1]:
            model.remove(n, key)

    try:
        for mi, msg in enumerate(msgs):
            if done:
                break  # never read
            if msg["rcode"] != 0:
                raise _Err("rcode")
            if state == "first" and not msg["rrs"]:
                raise _Err("no answer")
            for ri, rr in enumerate(msg["rrs"]):
                if done:
                    raise _Err("surplus records after the final SOA in the same message")
                if state == "first":
                    if not _is_apex_soa(rr):
                        raise _Err("first record is not the apex SOA")
                    first = rr
                    if incremental:
                        s1 = rr[2].serial
                        if s1 == serial:
                            done = True
                            work = client.copy()
                            continue
                        if _rfc1982_lt(s1, serial):
                            raise _Err("serial went backwards")
                        if (s1 - serial) % 2**32 == 2**31:
                            open_why = "serial distance 2^31"
                        if is_udp and len(msg["rrs"]) == 1:
                            raise _Err("asks for TCP")
                        state = "second"
                    else:
                        state = "axfr"
                        work = M.Model()
                    continue
                if state == "second":
                    if _is_apex_soa(rr):
                        state = "ixfr-expect-old"
                        work = client.copy()
                        # fall through to the incremental grammar below
                    else:
                        state = "axfr"
                        work = M.Model()
                if state == "axfr":
                    if _is_apex_soa(rr):
                        if M.tok(rr[2]) != M.tok(first[2]):
                            raise _Err("another apex SOA inside an AXFR")
                        work.c.setdefault(M.ORIGIN, {})[SOA_KEY] = [rr[1], {M.tok(rr[2])}]
                        done = True
                    else:
                        add(work, rr)
                    continue
                # incremental grammar: (SOA old, dels, SOA new, adds)* SOA final
                if state in ("ixfr-expect-old", "ixfr-adds") and _is_apex_soa(rr):
                    if M.tok(rr[2]) == M.tok(first[2]):
                        if applied == 0:
                            return ("open", "SOA,SOA answer to an IXFR request")
                        if cur_serial != rr[2].serial:
                            raise _Err("final SOA does not continue the chain")
                        work.c.setdefault(M.ORIGIN, {})[SOA_KEY] = [rr[1], {M.tok(rr[2])}]
                        done = True
                        continue
                    if rr[2].serial != cur_serial:
                        raise _Err("difference sequence based on another serial")
                    state = "ixfr-dels"
                    continue
                if state == "ixfr-dels":
                    if _is_apex_soa(rr):
                        cur_serial = rr[2].serial
                        work.c.setdefault(M.ORIGIN, {})[SOA_KEY] = [rr[1], {M.tok(rr[2])}]
                        applied += 1
                        state = "ixfr-adds"
                    else:
                        delete(work, rr)
                    continue
                if state == "ixfr-adds":
                    add(work, rr)
                    continue
                raise _Err("unexpected record")
            if is_udp and not done:
                raise _Err("UDP answer incomplete")
        if not done:
            raise _Err("stream ended early")
    except _Err as e:
        return ("error", str(e))
    if open_why is None and _conflicts(work):
        open_why = "CNAME and other data / several singleton records at one name"
    if open_why is not None:
        return ("open", open_why)
    return ("ok", work)


# ================================================================== wire


def cut_stream(stream, cuts):
    """cuts: sorted indices where a new message starts."""
    bounds = [0] + list(cuts) + [len(stream)]
    return [stream[a:b] for a, b in zip(bounds, bounds[1:])]


def all_cuts(n, max_msgs=3):
    out = [()]
    for k in range(1, max_msgs):
        out += list(itertools.combinations(range(1, n), k))
    return out


def build_wires(query, msgs, question_in_later=True):
    """Render each message ({"rcode", "rrs", optional "qname"/"qtype"}) to wire; one RRset
    object per record, in stream order."""
    wires = []
    for i, m in enumerate(msgs):
        r = dns.message.make_response(query)
        r.flags |= dns.flags.AA
        if i > 0 and not question_in_later:
            r.question = []
        if m.get("qname") is not None or m.get("qtype") is not None:
            q = r.question[0] if r.question else query.question[0]
            r.question = [
                dns.rrset.RRset(
                    m.get("qname") or q.name,
                    q.rdclass,
                    m.get("qtype") or q.rdtype,
                )
            ]
        r.set_rcode(m["rcode"])
        r.answer = [dns.rrset.from_rdata(n, ttl, rdata) for (n, ttl, rdata) in m["rrs"]]
        wires.append(r.to_wire())
    return wires


class _StreamEnded(EOFError):
    """What reading from the connection yields when the server stops sending."""


def drive_direct(zone, rdtype, serial, is_udp, wires):
    """The loop of dns.query._inbound_xfr without the socket."""
    origin = zone.from_wire_origin()
    with dns.xfr.Inbound(zone, rdtype, serial, is_udp) as inbound:
        done = False
        for w in wires:
            r = dns.message.from_wire(
                w, xfr=True, origin=origin, multi=(not is_udp), one_rr_per_rrset=(rdtype == IXFR)
            )
            done = inbound.process_message(r)
            if done:
                break
        if not done:
            raise _StreamEnded("EOF")
    return done


def drive_socket(zone, query, serial, is_udp, wires):
    """dns.query._inbound_xfr over a socketpair that already holds the whole response."""
    kind = socket.SOCK_DGRAM if is_udp else socket.SOCK_STREAM
    a, b = socket.socketpair(socket.AF_UNIX, kind)
    try:
        for w in wires:
            if is_udp:
                b.send(w)
            else:
                b.sendall(struct.pack("!H", len(w)) + w)
        if not is_udp:
            b.shutdown(socket.SHUT_WR)
        for _ in dns.query._inbound_xfr(zone, a, query, serial, None, None):
            pass
    finally:
        a.close()
        b.close()
    return True


# ================================================================== one scenario


def scenario_msgs(sc):
    """Decode a JSON-able scenario into message dicts with real names/rdatas."""
    msgs = []
    for m in sc["msgs"]:
        rrs = []
        for n, ttl, key in m["rrs"]:
            name = dns.name.from_text(n)
            rrs.append((name, ttl, M.rd(key) if not key.startswith("text:") else _from_text(key)))
        d = {"rcode": m.get("rcode", 0), "rrs": rrs}
        if m.get("qname"):
            d["qname"] = dns.name.from_text(m["qname"])
        if m.get("qtype"):
            d["qtype"] = dns.rdatatype.from_text(m["qtype"])
        msgs.append(d)
    return msgs


def _from_text(key):
    _t, rdtype, text = key.split(":", 2)
    return dns.rdata.from_text("IN", rdtype, text)


_key_of_tok: dict = {}


def _rr_json(rr):
    n, ttl, r = rr
    if r.rdtype == SOA:
        key = f"soa:{r.serial}"
        if M.tok(M.rd(key)) != M.tok(r):
            key = "text:SOA:" + r.to_text()
    else:
        if not _key_of_tok:
            for k in M._POOL_TEXT:
                _key_of_tok[M.tok(M.rd(k))] = k
        key = _key_of_tok.get(M.tok(r)) or ("text:" + dns.rdatatype.to_text(r.rdtype) + ":" + r.to_text())
    return [n.to_text(), ttl, key]


def model_json(m: M.Model | None):
    if m is None:
        return None
    return [_rr_json(rr) for rr in [soa_rr(m)] + records(m)] if m.get(M.ORIGIN, SOA_KEY) else [_rr_json(rr) for rr in records(m)]


def model_from_json(j):
    if j is None:
        return None
    m = M.Model()
    for n, ttl, key in j:
        r = M.rd(key) if not key.startswith("text:") else _from_text(key)
        name = dns.name.from_text(n)
        k = M.rds_key([r])
        e = m.c.setdefault(name, {}).get(k)
        if e is None:
            m.c[name][k] = [ttl, {M.tok(r)}]
        else:
            e[1].add(M.tok(r))
    return m


def run_scenario(sc, zone=None):
    """sc: {"kind","relativize","client": model json or None,"rdtype":"AXFR"|"IXFR",
    "udp":bool,"via":"direct"|"socket","msgs":[{"rcode","rrs":[[name,ttl,key]],"qname",
    "qtype"}], "qlater":bool, "pristine":bool}.
    Returns (failures, info)."""
    fails = []
    kind, rel = sc["kind"], sc["relativize"]
    client = model_from_json(sc["client"])
    rdtype = IXFR if sc["rdtype"] == "IXFR" else AXFR
    is_udp = bool(sc.get("udp"))
    msgs = scenario_msgs(sc)
    if zone is None:
        zone = M.new_zone(kind, rel, client)
    before = M.zone_fp(zone)
    if client is not None and before != client.fp():
        raise RuntimeError("harness: client zone not in its start state")
    if rdtype == IXFR:
        query, serial = dns.xfr.make_query(zone)
        if query.question[0].rdtype != IXFR or serial != client.soa_serial():
            fails.append(
                (
                    "C13.converges",
                    f"make_query on a zone with serial {client.soa_serial()} produced {dns.rdatatype.to_text(query.question[0].rdtype)} serial {serial}",
                    {"site": "dns.xfr.make_query", "class": "query does not carry the zone's serial"},
                )
            )
            return fails, {}
    else:
        query, serial = dns.xfr.make_query(zone, serial=None)
    qerr = any(m.get("qname") is not None or m.get("qtype") is not None for m in msgs)
    ref = reference(client, rdtype, serial, is_udp, msgs, qerr=qerr)
    wires = build_wires(query, msgs, sc.get("qlater", True))
    exc = None
    try:
        if sc.get("via") == "socket":
            drive_socket(zone, query, serial, is_udp, wires)
        else:
            drive_direct(zone, rdtype, serial, is_udp, wires)
    except M.HarnessTimeout:
        raise
    except Exception as e:  # noqa: BLE001
        exc = e
    after = M.zone_fp(zone)
    info = {"ref": ref[0], "why": ref[1] if ref[0] != "ok" else "", "exc": type(exc).__name__ if exc else None}
    desc = f"{sc['rdtype']}{'/udp' if is_udp else ''} via {sc.get('via', 'direct')} on {kind}/relativize={rel}"
    # the all-or-nothing invariant, for every stream
    if exc is not None and after == before and getattr(zone, "_write_txn", None) is not None:
        fails.append(
            (
                "C13.error_leaves_zone_untouched",
                f"{desc}: {type(exc).__name__} was raised and the zone is left with the transfer's write transaction still open (later writers block)",
                {"site": "dns.xfr.Inbound.__exit__", "class": "failed transfer leaves its write transaction open"},
            )
        )
        return fails, info
    if exc is not None and after != before:
        site = M.innermost_dns_site(exc)
        if isinstance(exc, dns.exception.FormError) and "after final SOA" in str(exc):
            sig = {
                "site": "dns.xfr.Inbound.process_message",
                "exc": "FormError",
                "class": "transfer committed at the final SOA, then 'answers after final SOA' raised for surplus records in the same message",
            }
        else:
            sig = {"site": site, "exc": type(exc).__name__, "class": "error reported for a transfer that changed the zone", "ref": ref[0]}
        fails.append(
            (
                "C13.error_leaves_zone_untouched",
                f"{desc}: {type(exc).__name__}({str(exc)[:60]}) was raised but the zone changed: " + M.fp_diff(before, after),
                sig,
            )
        )
        return fails, info
    if ref[0] == "ok":
        want = ref[1].fp()
        if exc is None:
            if after != want:
                fails.append(
                    (
                        "C13.converges",
                        f"{desc}: transfer reported complete but the zone is not the target: " + M.fp_diff(want, after),
                        {"site": "zone after transfer", "class": "zone differs from the server's target", "form": sc.get("form", "?"), "pristine": bool(sc.get("pristine"))},
                    )
                )
        elif sc.get("pristine"):
            fails.append(
                (
                    "C13.converges",
                    f"{desc}: valid {sc.get('form', '')} stream rejected with {type(exc).__name__}: {str(exc)[:80]}",
                    {"site": M.innermost_dns_site(exc), "exc": type(exc).__name__, "class": "valid stream rejected", "form": sc.get("form", "?")},
                )
            )
    elif ref[0] == "error":
        if exc is None:
            fails.append(
                (
                    "C13.rejects_bad_stream",
                    f"{desc}: stream is invalid ({ref[1]}) but the transfer completed; zone "
                    + ("unchanged" if after == before else "changed: " + M.fp_diff(before, after)),
                    {"site": "dns.xfr.Inbound.process_message", "class": "invalid stream accepted: " + ref[1]},
                )
            )
    return fails, info


# ================================================================== generation


def _msgs_json(stream, cuts, rcode_at=None, rcode=0):
    parts = cut_stream(stream, cuts)
    out = []
    pos = 0
    for p in parts:
        d = {"rrs": [_rr_json(rr) for rr in p]}
        if rcode_at is not None and pos <= rcode_at < pos + len(p):
            d["rcode"] = rcode
        pos += len(p)
        out.append(d)
    return out


def valid_streams(rng, chain):
    """[(form, client index or None, rdtype, udp, stream, expect)]"""
    out = []
    n = len(chain)
    out.append(("axfr", rng.choice([None, 0, n - 1]), "AXFR", False, enc_axfr(chain[-1], rng), "ok"))
    if n >= 2:
        k = rng.randrange(0, n - 1)
        out.append(("ixfr-chain", k, "IXFR", False, enc_ixfr(chain[k:], rng), "ok"))
        out.append(("ixfr-condensed", k, "IXFR", False, enc_ixfr([chain[k], chain[-1]], rng), "ok"))
        out.append(("ixfr-axfr-style", k, "IXFR", False, enc_axfr(chain[-1], rng), "ok"))
        out.append(("ixfr-udp", k, "IXFR", True, enc_ixfr(chain[k:], rng), "ok"))
        out.append(("ixfr-udp-truncated", k, "IXFR", True, [soa_rr(chain[-1])], "error"))
        # the server is behind the client
        out.append(("ixfr-backwards-single-soa", n - 1, "IXFR", False, [soa_rr(chain[k])], "error"))
        out.append(("ixfr-backwards-diff", n - 1, "IXFR", False, enc_ixfr([chain[-1], chain[k]], rng), "error"))
        if n >= 3:
            # a chain that starts from a serial the client does not have
            out.append(("ixfr-other-base", 0, "IXFR", False, enc_ixfr(chain[1:], rng), "error"))
    out.append(("ixfr-up-to-date", n - 1, "IXFR", rng.random() < 0.5, [soa_rr(chain[-1])], "ok"))
    return out


def _other_owner(rng, name):
    c = [M.abs_name(i) for i in range(len(M.NAMES)) if M.abs_name(i) != name]
    return rng.choice(c)


_TYPE_SWAP = {"A": "t1", "TXT": "a3", "CNAME": "a3", "NS": "t2", "MX": "a3", "AAAA": "t1", "NSEC": "a3", "RRSIG": "t2", "SOA": "t1"}


def faults_at(rng, stream, p):
    """Single faults at record position p: (label, new stream, extra message attrs)."""
    out = []
    rr = stream[p]
    out.append(("drop", stream[:p] + stream[p + 1 :], {}))
    out.append(("duplicate", stream[: p + 1] + [rr] + stream[p + 1 :], {}))
    if p + 1 < len(stream):
        out.append(("swap", stream[:p] + [stream[p + 1], rr] + stream[p + 2 :], {}))
        out.append(("truncate", stream[: p + 1], {}))
    if rr[2].rdtype == SOA:
        for delta in (1, 2**31):
            bad = rr[2].replace(serial=(rr[2].serial + delta) % 2**32)
            out.append((f"serial+{delta}", stream[:p] + [(rr[0], rr[1], bad)] + stream[p + 1 :], {}))
    out.append(("owner", stream[:p] + [(_other_owner(rng, rr[0]), rr[1], rr[2])] + stream[p + 1 :], {}))
    out.append(("owner-out", stream[:p] + [(dns.name.from_text(M.OUTSIDE), rr[1], rr[2])] + stream[p + 1 :], {}))
    sw = M.rd(_TYPE_SWAP.get(dns.rdatatype.to_text(rr[2].rdtype), "t1"))
    out.append(("type", stream[:p] + [(rr[0], rr[1], sw)] + stream[p + 1 :], {}))
    out.append(("rcode", stream, {"rcode_at": p, "rcode": rng.choice([dns.rcode.SERVFAIL, dns.rcode.REFUSED, dns.rcode.NOTAUTH])}))
    return out


class _Zones:
    def __init__(self):
        self.z = {}

    def get(self, kind, rel, client):
        key = (kind, rel)
        e = self.z.get(key)
        if client is None:
            return M.zone_class(kind)(M.ORIGIN, relativize=rel)
        if e is not None:
            try:
                if M.zone_fp(e) != client.fp():
                    M.load(e, client)
                if M.zone_fp(e) == client.fp():
                    return e
            except Exception:  # noqa: BLE001
                pass
        z = M.new_zone(kind, rel, client)
        self.z[key] = z
        return z

    def drop(self, kind, rel):
        self.z.pop((kind, rel), None)


def _do(R, zones, sc, stats, clause_hint=None):
    kind, rel = sc["kind"], sc["relativize"]
    client = model_from_json(sc["client"])
    try:
        with M.watchdog(20):
            z = zones.get(kind, rel, client)
            fails, info = run_scenario(sc, zone=z)
    except M.HarnessTimeout:
        R.note(f"C13 watchdog fired: {sc.get('form')} {sc.get('fault')}")
        zones.drop(kind, rel)
        return
    except Exception as e:  # noqa: BLE001
        if M.raised_in_library(e):
            R.violation(
                "C13.converges",
                f"{kind}/relativize={rel}: {type(e).__name__}: {str(e)[:100]} while preparing the client zone or the query",
                sig={"site": M.innermost_dns_site(e), "exc": type(e).__name__, "class": "library exception outside the transfer"},
                replay=sc,
            )
        else:
            import traceback

            R.note("harness error: " + traceback.format_exc(limit=3))
        zones.drop(kind, rel)
        return
    stats["n"] += 1
    key = (kind, rel, sc["rdtype"], sc.get("udp"), sc.get("via"), repr(sc["msgs"]), repr(sc["client"]))
    ref = info.get("ref")
    if ref == "ok":
        R.case("C13.converges", key=key, nontrivial=info.get("exc") is None)
    elif ref == "error":
        R.case("C13.rejects_bad_stream", key=key)
    if info.get("exc") is not None or ref != "ok":
        R.case("C13.error_leaves_zone_untouched", key=key, nontrivial=info.get("exc") is not None)
    if ref == "open":
        stats["open"] += 1
    for clause, what, sig in fails:
        R.violation(clause, what, sig=sig, replay=sc)
    if fails:
        zones.drop(kind, rel)


def run(R):
    rng = R.rng
    zones = _Zones()
    stats = {"n": 0, "open": 0}
    rounds = 14 if R.quick else 600
    tcap = 38 if R.quick else 500
    sock_every = 12 if R.quick else 6
    counter = 0
    for rnd in range(rounds):
        if R.deadline() or R.elapsed() > tcap:
            R.note(f"C13 stopped at round {rnd}/{rounds}")
            break
        chain = make_chain(rng, rng.choice([2, 3, 3, 4]))
        vs = valid_streams(rng, chain)
        full = set(rng.sample(range(len(vs)), min(len(vs), 6 if R.quick else len(vs))))
        for si, (form, ci, rdt, udp, stream, expect) in enumerate(vs):
            client = chain[ci] if ci is not None else None
            cj = model_json(client)
            if udp or len(stream) == 1:
                cuts_list = [()]
            elif si in full and len(stream) <= 40:
                cuts_list = all_cuts(len(stream))
                if R.quick and len(cuts_list) > 140:
                    cuts_list = cuts_list[:1] + rng.sample(cuts_list[1:], 139)
            else:
                ac = all_cuts(len(stream)) if len(stream) <= 40 else [()]
                cuts_list = [()] + rng.sample(ac, min(len(ac), 6))
            for cuts in cuts_list:
                counter += 1
                kind, rel = M.VARIANTS[counter % 6]
                sc = {
                    "kind": kind,
                    "relativize": rel,
                    "client": cj,
                    "rdtype": rdt,
                    "udp": udp,
                    "via": "socket" if counter % sock_every == 0 else "direct",
                    "msgs": _msgs_json(stream, cuts),
                    "qlater": bool(counter % 2),
                    "form": form,
                    "pristine": expect == "ok",
                }
                if rnd == 0 and cuts == () and si < 2:
                    R.sample("C13.converges", sc)
                _do(R, zones, sc, stats)
            if R.deadline():
                break
        # single faults at every position of the valid TCP streams
        for form, ci, rdt, udp, stream, expect in vs:
            if expect != "ok" or form in ("ixfr-up-to-date",) or (R.quick and form in ("ixfr-condensed", "ixfr-udp")):
                continue
            if R.deadline() or R.elapsed() > tcap:
                break
            client = chain[ci] if ci is not None else None
            if client is None and rng.random() < 0.5:
                client = chain[0]
            cj = model_json(client)
            for p in range(len(stream)):
                for label, fstream, extra in faults_at(rng, stream, p):
                    counter += 1
                    kind, rel = M.VARIANTS[counter % 6]
                    if udp or len(fstream) <= 1:
                        cuts = ()
                    else:
                        nc = rng.choice([0, 1, 2])
                        cuts = tuple(sorted(rng.sample(range(1, len(fstream)), min(nc, len(fstream) - 1))))
                    sc = {
                        "kind": kind,
                        "relativize": rel,
                        "client": cj,
                        "rdtype": rdt,
                        "udp": udp,
                        "via": "socket" if counter % sock_every == 0 else "direct",
                        "msgs": _msgs_json(fstream, cuts, extra.get("rcode_at"), extra.get("rcode", 0)),
                        "qlater": bool(counter % 2),
                        "form": form,
                        "fault": f"{label}@{p}",
                        "pristine": False,
                    }
                    _do(R, zones, sc, stats)
            # surplus after the final SOA, in the same message and in a message of its own
            for extra_rr in ([(M.abs_name(1), 300, M.rd("a3"))], [soa_rr(chain[-1])], [(M.abs_name(5), 60, M.rd("t2")), (M.abs_name(1), 300, M.rd("a3"))]):
                for same_msg in (True, False):
                    counter += 1
                    kind, rel = M.VARIANTS[counter % 6]
                    fstream = stream + extra_rr
                    if udp:
                        cuts = ()
                    elif same_msg:
                        cuts = tuple(sorted(rng.sample(range(1, len(stream)), min(rng.choice([0, 1]), len(stream) - 1))))
                    else:
                        cuts = (len(stream),)
                    sc = {
                        "kind": kind,
                        "relativize": rel,
                        "client": cj,
                        "rdtype": rdt,
                        "udp": udp,
                        "via": "socket" if counter % sock_every == 0 else "direct",
                        "msgs": _msgs_json(fstream, cuts),
                        "qlater": True,
                        "form": form,
                        "fault": "surplus-" + ("same-message" if same_msg or udp else "next-message"),
                        "pristine": False,
                    }
                    if not same_msg and not udp:
                        # a further message is never read once the transfer is complete:
                        # the stream is the valid one
                        sc["pristine"] = True
                    _do(R, zones, sc, stats)
            # wrong question
            for qf in ({"qname": "other.example."}, {"qtype": "AXFR" if rdt == "IXFR" else "IXFR"}):
                counter += 1
                kind, rel = M.VARIANTS[counter % 6]
                msgs = _msgs_json(stream, ())
                msgs[0].update(qf)
                sc = {
                    "kind": kind,
                    "relativize": rel,
                    "client": cj,
                    "rdtype": rdt,
                    "udp": udp,
                    "via": "direct",
                    "msgs": msgs,
                    "qlater": True,
                    "form": form,
                    "fault": "question",
                    "pristine": False,
                }
                _do(R, zones, sc, stats)
    R.note(f"C13 scenarios run: {stats['n']} (of which judged only by the all-or-nothing invariant: {stats['open']})")


def replay(data):
    with M.watchdog(30):
        try:
            fails, info = run_scenario(data)
        except Exception as e:  # noqa: BLE001
            if M.raised_in_library(e):
                return True, f"{type(e).__name__}: {e} while preparing the client zone or the query"
            raise
    if fails:
        return True, fails[0][0] + ": " + fails[0][1]
    return False, f"outcome agrees with the reference ({info})"
