"""Bounded stand-in for C02 — every record type's wire form round-trips and re-encodes
byte-identically; decoding arbitrary octets is error-or-fixed-point with exact consumption.

The real codecs of whatever ``dns`` package is first on PYTHONPATH are run against
(i) an independent reference encoder written from the RFCs (bounded/_c02_model.py,
bounded/_c02_types.py) and (ii) the relational round-trip clauses of the property statement.
"""

from __future__ import annotations

import io

import dns.edns
import dns.exception
import dns.name
import dns.rdata
import dns.rdataclass
import dns.rdatatype
import dns.wire

from bounded._c02_model import ORIGINS, mkname
from bounded._c02_types import build_specs, discover_modules

BOUNDS = (
    "Types: every implementation module found by walking dns/rdtypes/{ANY,IN,CH} (69 on the pinned tree; a module "
    "without a model entry is noted and still fuzzed); class-ANY types also under classes CH and 4660 and OPT under "
    "5 payload sizes on every 16th value.  Values are built through the constructors from an independent model and "
    "enumerated one factor at a time from a nominal record: every 8-bit field (thorough: all 256 values; quick: 50 "
    "boundary representatives), every character-string / opaque / quoted field and a name label with each single "
    "octet (thorough: all 256; quick: 34 representatives) plus empty, 1, 255/256 and 1000..20000-octet lengths, "
    "0/1/mid/max-1/max of 16/32/48-bit integers, 18 structurally extreme names (root, 63-octet label, 255-octet "
    "name, 127 labels, dots / quotes / NUL / high octets in labels), IPv4 each octet position (thorough x 256), IPv6 "
    "all 256 zero-run layouts (thorough x 3 fillings), type bitmaps with each single bit and window extremes, every "
    "SVCB parameter kind, every EDNS option class, LOC size codes 1e0..9e9 and 200 altitudes (thorough 22 000); then "
    "all field pairs over 4 extreme values each and seeded random records (quick 25, thorough 1500 per type).  Each "
    "value: to_wire against the RFC reference encoder, decode, equality, byte-identical re-encoding, field-by-field "
    "comparison, decode at an offset inside a larger buffer (every 4th), and for name-bearing types 3 origins "
    "(example., Sub.Example.COM., root) x {absolute names with origin given, decode with origin, names made "
    "relative}.  Arbitrary octets per type (every 4th also with an origin): every prefix of the nominal encoding, "
    "each position (quick: first/last 20) set to 00/3f/40/7f/80/c0/ff/+1/-1, deleted and inserted octets, appended "
    "octets, compression pointers into a prefix buffer, light mutations of the encodings of 30 (thorough 400) "
    "boundary values, length-consistent crafted inputs (EDNS option TLVs for every option class, SVCB parameter "
    "TLVs, type bitmaps, LOC header octets 0..255 and coordinate limits, APL items), and seeded random strings of "
    "0..70 octets (quick 120, thorough 2000).  Unknown types: every mnemonic-only type plus quick 200 / thorough "
    "6000 unassigned codes x 3 classes x up to 4 payloads.  The quick tier runs in two passes (boundaries and "
    "structured decode inputs of every type first, pairs and seeded inputs second) so that a loaded machine shortens "
    "only the seeded part.  No private key is needed by this property (`cryptography` is not installed)."
)

FORMERR = dns.exception.FormError


# --------------------------------------------------------------------------- helpers


def _site(exc):
    """innermost frame inside the dns package, as module.qualname (no line numbers)"""
    tb = exc.__traceback__
    site = "?"
    while tb is not None:
        code = tb.tb_frame.f_code
        mod = tb.tb_frame.f_globals.get("__name__", "")
        if mod == "dns" or mod.startswith("dns."):
            site = "%s.%s" % (mod, getattr(code, "co_qualname", code.co_name))
        tb = tb.tb_next
    return site


def _impl_name(rd_or_cls):
    cls = rd_or_cls if isinstance(rd_or_cls, type) else type(rd_or_cls)
    for c in cls.__mro__:
        if "_to_wire" in c.__dict__ or "from_wire_parser" in c.__dict__:
            return c.__module__.replace("dns.rdtypes.", "").replace("dns.", "") + "." + c.__name__
    return cls.__name__


def _fw(rdclass, rdtype, wire, cur=0, rdlen=None, origin=None):
    if rdlen is None:
        rdlen = len(wire) - cur
    return dns.rdata.from_wire(rdclass, rdtype, wire, cur, rdlen, origin)


def _oname(o):
    return None if o is None else mkname(o)


class Fail:
    def __init__(self, clause, what, **sig):
        self.clause = clause
        self.what = what
        self.sig = sig


# --------------------------------------------------------------------------- value clauses


def check_value(spec, vals, rdclass, origins, deep=True):
    """Returns (status, [Fail]); status in 'refused' | 'ok'."""
    fails = []
    try:
        rd = spec.build(vals, rdclass)
    except Exception as e:
        # every model value is inside the RFC ranges of its fields ("all field values inside
        # their ranges"), so a refusal means the value cannot be encoded at all
        fails.append(Fail("C02.wire_roundtrip", "constructor refused an in-range value: %s: %s" % (type(e).__name__, e), impl=spec.key, kind="in-range-value-refused", exc=type(e).__name__, site=_site(e)))
        return "refused", fails
    impl = _impl_name(rd)
    rdtype = rd.rdtype
    try:
        w = rd.to_wire()
    except Exception as e:
        fails.append(Fail("C02.wire_roundtrip", "to_wire raised %s: %s" % (type(e).__name__, e), impl=impl, kind="to_wire-raises", exc=type(e).__name__, site=_site(e)))
        return "ok", fails
    try:
        ref = spec.ref_wire(vals)
    except Exception:
        ref = None
    if ref is not None and w != ref:
        fails.append(Fail("C02.wire_matches_reference", "to_wire %s != RFC reference %s" % (w.hex()[:120], ref.hex()[:120]), impl=impl, kind="encoding-differs-from-reference"))
    try:
        rd2 = _fw(rdclass, rdtype, w)
    except Exception as e:
        fails.append(Fail("C02.wire_roundtrip", "own encoding rejected: %s: %s" % (type(e).__name__, e), impl=impl, kind="own-encoding-rejected", exc=type(e).__name__, site=_site(e)))
        return "ok", fails
    try:
        if type(rd2) is not type(rd):
            fails.append(Fail("C02.wire_roundtrip", "decoded class %s != %s" % (type(rd2).__name__, type(rd).__name__), impl=impl, kind="decoded-class-differs"))
        if not (rd2 == rd) or (rd2 != rd):
            fails.append(Fail("C02.wire_roundtrip", "decoded record not equal to the original", impl=impl, kind="decoded-not-equal"))
        w2 = rd2.to_wire()
        if w2 != w:
            fails.append(Fail("C02.wire_roundtrip", "re-encoding not byte-identical: %s vs %s" % (w2.hex()[:120], w.hex()[:120]), impl=impl, kind="reencode-differs"))
        bad = spec.fields_match(rd2, vals)
        if bad:
            fails.append(Fail("C02.wire_roundtrip", "decoded fields differ from the encoded values: %s" % bad, impl=impl, kind="decoded-fields-differ"))
        if deep:
            buf = b"\x07prefix!" + w + b"\xc0\x00junk"
            rd3 = _fw(rdclass, rdtype, buf, 8, len(w))
            if not (rd3 == rd) or rd3.to_wire() != w:
                fails.append(Fail("C02.exact_consumption", "decode at offset 8 of a larger buffer differs from stand-alone decode", impl=impl, kind="offset-decode-differs"))
            f = io.BytesIO()
            rd.to_wire(f)
            if f.getvalue() != w:
                fails.append(Fail("C02.wire_roundtrip", "to_wire(file) wrote different octets", impl=impl, kind="file-encode-differs"))
    except Exception as e:
        fails.append(Fail("C02.wire_roundtrip", "round trip raised %s: %s" % (type(e).__name__, e), impl=impl, kind="roundtrip-raises", exc=type(e).__name__, site=_site(e)))
        return "ok", fails
    # ---- origins
    for o in origins:
        on = mkname(o)
        try:
            wo = rd.to_wire(origin=on)
            if wo != w:
                fails.append(Fail("C02.wire_roundtrip_origin", "absolute names: to_wire(origin) differs from to_wire()", impl=impl, kind="origin-changes-absolute-encoding"))
            rdo = _fw(rdclass, rdtype, w, origin=on)
            # relativisation is case-insensitive, so the origin's own spelling may replace the
            # suffix: the re-encoding must be a fixed point that differs from w at most in case
            wo2 = rdo.to_wire(origin=on)
            if wo2 != w and (len(wo2) != len(w) or wo2.lower() != w.lower()):
                fails.append(Fail("C02.wire_roundtrip_origin", "decode with origin then encode with origin changes more than letter case", impl=impl, kind="origin-reencode-differs"))
            rdo2 = _fw(rdclass, rdtype, wo2, origin=on)
            if not (rdo2 == rdo):
                fails.append(Fail("C02.wire_roundtrip_origin", "decode(encode(x, origin), origin) != x for x decoded with origin", impl=impl, kind="origin-decoded-not-equal"))
            if rdo2.to_wire(origin=on) != wo2:
                fails.append(Fail("C02.wire_roundtrip_origin", "encoding of a record decoded with origin is not a fixed point", impl=impl, kind="origin-reencode-not-fixed-point"))
            # records built with relative names
            rvals = spec.relativized(vals, o)
            if rvals != vals:
                rdr = spec.build(rvals, rdclass)
                wr = rdr.to_wire(origin=on)
                refr = spec.ref_wire(rvals, o)
                if wr != refr:
                    fails.append(Fail("C02.wire_matches_reference", "relative names: to_wire(origin) %s != reference %s" % (wr.hex()[:100], refr.hex()[:100]), impl=impl, kind="relative-encoding-differs-from-reference"))
                rdr2 = _fw(rdclass, rdtype, wr, origin=on)
                if not (rdr2 == rdr):
                    fails.append(Fail("C02.wire_roundtrip_origin", "record with relative names: decode(encode(x, origin), origin) != x", impl=impl, kind="relative-decoded-not-equal"))
                if rdr2.to_wire(origin=on) != wr:
                    fails.append(Fail("C02.wire_roundtrip_origin", "record with relative names: re-encoding not byte-identical", impl=impl, kind="relative-reencode-differs"))
        except Exception as e:
            fails.append(Fail("C02.wire_roundtrip_origin", "origin round trip raised %s: %s" % (type(e).__name__, e), impl=impl, kind="origin-roundtrip-raises", exc=type(e).__name__, site=_site(e)))
    return "ok", fails


# --------------------------------------------------------------------------- decode clauses


def manual_consumption(rdclass, rdtype, buf, cur, rdlen, origin):
    """Parse without restrict_to's post-check; returns consumed octets or None on error."""
    p = dns.wire.Parser(buf, cur)
    p.end = cur + rdlen
    try:
        dns.rdata.from_wire_parser(rdclass, rdtype, p, origin)
    except Exception:
        return None
    return p.current - cur


def check_decode(rdclass, rdtype, buf, cur, rdlen, origin):
    """error-or-fixed-point and exact consumption.  Returns (accepted: bool, [Fail])."""
    fails = []
    on = _oname(origin)
    cls = dns.rdata.get_rdata_class(dns.rdataclass.RdataClass.make(rdclass), dns.rdatatype.RdataType.make(rdtype))
    impl = _impl_name(cls)
    try:
        rd = _fw(rdclass, rdtype, buf, cur, rdlen, on)
    except FORMERR:
        return False, fails
    except dns.exception.DNSException as e:
        fails.append(Fail("C02.decode_error_or_fixed_point", "from_wire raised %s, not a format error" % type(e).__name__, impl=impl, kind="non-FormError-DNSException", exc=type(e).__name__, site=_site(e)))
        return False, fails
    except Exception as e:
        fails.append(Fail("C02.decode_error_or_fixed_point", "from_wire raised %s: %s" % (type(e).__name__, e), impl=impl, kind="non-library-exception", exc=type(e).__name__, site=_site(e)))
        return False, fails
    got = manual_consumption(rdclass, rdtype, buf, cur, rdlen, on)
    if got is not None and got != rdlen:
        fails.append(Fail("C02.exact_consumption", "from_wire returned a record after consuming %d of %d declared octets" % (got, rdlen), impl=impl, kind="accepted-without-consuming-rdlen"))
    try:
        w1 = rd.to_wire(origin=on)
    except Exception as e:
        fails.append(Fail("C02.decode_error_or_fixed_point", "record accepted from wire cannot be encoded: %s: %s" % (type(e).__name__, e), impl=impl, kind="accepted-not-encodable", exc=type(e).__name__, site=_site(e)))
        return True, fails
    try:
        rd1 = _fw(rdclass, rdtype, w1, origin=on)
    except Exception as e:
        fails.append(Fail("C02.decode_error_or_fixed_point", "encoding of an accepted record is rejected: %s: %s" % (type(e).__name__, e), impl=impl, kind="reencoding-rejected", exc=type(e).__name__, site=_site(e)))
        return True, fails
    try:
        w2 = rd1.to_wire(origin=on)
        if w2 != w1:
            fails.append(Fail("C02.decode_error_or_fixed_point", "enc(dec(enc(x))) != enc(x): %s -> %s -> %s" % (bytes(buf[cur : cur + rdlen]).hex()[:80], w1.hex()[:80], w2.hex()[:80]), impl=impl, kind="encoding-not-fixed-point", site=_np_site(rd)))
        elif not (rd1 == rd):
            fails.append(Fail("C02.decode_error_or_fixed_point", "dec(enc(x)) != x for x decoded from wire", impl=impl, kind="redecoded-not-equal"))
    except Exception as e:
        fails.append(Fail("C02.decode_error_or_fixed_point", "re-encoding raised %s: %s" % (type(e).__name__, e), impl=impl, kind="reencode-raises", exc=type(e).__name__, site=_site(e)))
    return True, fails


def _np_site(rd):
    """for OPT, name the option class that is not a fixed point"""
    try:
        if rd.rdtype == dns.rdatatype.OPT:
            for o in rd.options:
                w = o.to_wire()
                o2 = dns.edns.option_from_wire(o.otype, w, 0, len(w))
                if o2.to_wire() != w:
                    return "dns.edns." + type(o).__name__
    except Exception:
        pass
    return _impl_name(rd)


def decode_inputs(nominal_wire, rng, n_random, thorough):
    """(buf, cur, rdlen, tag)"""
    w = nominal_wire
    out = []
    for i in range(len(w)):
        out.append((w[:i], 0, i, "prefix"))
    out.append((w, 0, len(w), "nominal"))
    for extra in (b"\x00", b"\xff", b"\x00\x00", b"\x01a", b"\xc0\x00"):
        out.append((w + extra, 0, len(w) + len(extra), "appended"))
    pos = range(len(w)) if (thorough or len(w) <= 40) else list(range(20)) + list(range(len(w) - 20, len(w)))
    for i in pos:
        for v in (0x00, 0x7F, 0x80, 0xFF, (w[i] + 1) & 0xFF, (w[i] - 1) & 0xFF, 0xC0, 0x3F, 0x40):
            if v != w[i]:
                out.append((w[:i] + bytes([v]) + w[i + 1 :], 0, len(w), "octet-set"))
        out.append((w[:i] + w[i + 1 :], 0, len(w) - 1, "octet-deleted"))
        out.append((w[:i] + b"\x00" + w[i:], 0, len(w) + 1, "octet-inserted"))
    # compression pointers into a prefix that holds a name at offset 0 and 9
    pre = b"\x03foo\x03bar\x00" + b"\x01a\xc0\x00" + b"\xc0\x09"
    for ptr in (b"\xc0\x00", b"\xc0\x04", b"\xc0\x09", b"\xc0\x0d", b"\x01x\xc0\x00", b"\xc0\x0f", b"\xc0\x11", b"\xc1\x00", b"\xff\xff"):
        for tail in (b"", w[1:], w):
            body = ptr + tail
            out.append((pre + body, len(pre), len(body), "pointer"))
            body = w[:2] + ptr + tail
            out.append((pre + body, len(pre), len(body), "pointer"))
    for _ in range(n_random):
        m = rng.random()
        if m < 0.45:
            n = rng.choice([0, 1, 2, 3, 4, 5, 6, 8, 10, 12, 16, 18, 20, 24, 32, 40, 70])
            b = bytes(rng.randrange(256) for _ in range(n))
            tag = "random"
        elif m < 0.7:
            n = rng.choice([1, 2, 4, 6, 8, 12, 16, 20, 30, 44])
            b = bytes(rng.choice((0, 0, 0, 1, 1, 2, 3, 4, 8, 16, 32, 0x80, 0xFF)) for _ in range(n))
            tag = "random-small-values"
        else:
            b = bytearray(w)
            for _ in range(rng.choice([1, 2, 3])):
                if b:
                    b[rng.randrange(len(b))] = rng.randrange(256)
            if rng.random() < 0.3 and b:
                i = rng.randrange(len(b))
                b = b[:i] + bytes(rng.randrange(256) for _ in range(rng.randrange(4))) + b[i:]
            b = bytes(b)
            tag = "random-mutation"
        out.append((b, 0, len(b), tag))
    return out


def seed_mutations(seed, rng):
    """lighter mutation set applied to the encodings of boundary values"""
    w = seed
    out = [(w, 0, len(w), "seed")]
    for k in (1, 2, 3):
        if len(w) >= k:
            out.append((w[:-k], 0, len(w) - k, "seed-truncated"))
    for extra in (b"\x00", b"\x00\x00", b"\xff", b"\x01\x00"):
        out.append((w + extra, 0, len(w) + len(extra), "seed-appended"))
    for _ in range(4):
        if not w:
            break
        b = bytearray(w)
        i = rng.randrange(len(b))
        b[i] = rng.choice((0, 1, 0x7F, 0x80, 0xFF, (b[i] + 1) & 0xFF, (b[i] - 1) & 0xFF, rng.randrange(256)))
        out.append((bytes(b), 0, len(b), "seed-octet-set"))
    return out


def _tlv(code, payload):
    return code.to_bytes(2, "big") + len(payload).to_bytes(2, "big") + payload


def crafted_inputs(spec, rng, thorough):
    """type-specific length-consistent inputs (option / parameter TLVs, bitmaps, LOC octets)"""
    out = []
    if spec.tname == "OPT":
        payloads = [b"", b"\x00", b"\x00\x01", b"\x00\x01a", b"\x00\x01a\x00", b"\x00\x01a\x00\x00", b"\x00\x01\x00", b"\x00\x01\x00\x00",
                    b"\x00\x03\xff\xfe", b"\x00\x01\x18\x00\x01\x02\x03", b"\x00\x01\x18\x00\x01\x02\x03\x04", b"\x00\x01\x19\x00\x01\x02\x03\xff",
                    b"\x00\x01\x00\x00", b"\x00\x01\x21\x00\x01\x02\x03\x04\x05", b"\x00\x02\x80\x80" + b"\xff" * 16, b"\x00\x02\x81\x00" + b"\xff" * 17,
                    b"\x00\x03\x08\x00\x01", b"\x00\x00\x00\x00", b"\x00\x01\x08\x21\x01", bytes(8), bytes(15), bytes(16), bytes(40), bytes(41), bytes(7),
                    b"\x00", b"\x03foo\x00", b"\x03foo", b"\x03foo\x00\x00", b"\xc0\x00", b"en", b"\xff", b"a\x00", "é".encode(), b"\xc3"]
        codes = [3, 8, 10, 15, 18, 22, 23, 24, 25, 12, 5, 65001]
        for c in codes:
            for p in payloads:
                b = _tlv(c, p)
                out.append((b, 0, len(b), "crafted-option"))
            for _ in range(40 if thorough else 6):
                p = bytes(rng.choice((0, 0, 1, 2, 8, 24, 32, 0x80, 0xFF, rng.randrange(256))) for _ in range(rng.choice((2, 3, 4, 5, 6, 8, 12, 20))))
                b = _tlv(c, p) + (_tlv(3, b"x") if rng.random() < 0.3 else b"")
                out.append((b, 0, len(b), "crafted-option"))
        out.append((_tlv(3, b"a")[:-1], 0, 4, "crafted-option"))
        out.append((b"\x00\x03\x00\x05a", 0, 5, "crafted-option"))
    if spec.tname in ("SVCB", "HTTPS"):
        head = b"\x00\x01\x03svc\x00"
        vals = [b"", b"\x00", b"\x00\x35", b"\x00\x35\x00", b"\x02h2", b"\x02h2\x00", b"\x00", b"\x03h2", b"\x02h2\x02h3", b"\x01\x02\x03\x04", b"\x01\x02\x03\x04\x05",
                bytes(16), bytes(17), bytes(32), b"\x00\x01", b"\x00\x01\x00\x03", b"\x00\x03\x00\x01", b"\x00\x01\x00\x01", b"\x00\x00", b"\x00\x04", b"a,b\\c", b"\xff\x00"]
        for k in (0, 1, 2, 3, 4, 5, 6, 7, 8, 9, 10, 11, 65535):
            for v in vals:
                b = head + _tlv(k, v)
                out.append((b, 0, len(b), "crafted-param"))
                b = head + _tlv(1, b"\x02h2") + _tlv(k, v)
                out.append((b, 0, len(b), "crafted-param"))
        for a, b2 in ((3, 1), (1, 1), (4, 4), (65535, 0)):
            b = head + _tlv(a, b"\x00\x35" if a == 3 else b"\x02h2") + _tlv(b2, b"\x02h2")
            out.append((b, 0, len(b), "crafted-param"))
        b = b"\x00\x00\x03svc\x00" + _tlv(3, b"\x00\x35")
        out.append((b, 0, len(b), "crafted-param"))
    if spec.tname in ("NSEC", "NSEC3", "CSYNC"):
        pre = spec.ref_wire(dict(spec.nominal(), windows=[]))
        wins = [b"\x00\x00", b"\x00\x01\x00", b"\x00\x01\x40", b"\x00\x20" + b"\xff" * 32, b"\x00\x21" + b"\xff" * 33, b"\x01\x01\x40\x00\x01\x40", b"\x00\x01\x40\x00\x01\x40",
                b"\x00\x02\x40\x00", b"\x00\x01\x80", b"\xff\x20" + b"\x00" * 31 + b"\x01", b"\x00\x01\x40\x01\x01\x40\xff\x01\x01", b"\x00", b"\x00\x05\x40"]
        for wv in wins:
            b = pre + wv
            out.append((b, 0, len(b), "crafted-bitmap"))
    if spec.tname == "LOC":
        base = bytearray(spec.ref_wire(spec.nominal()))
        for pos in (0, 1, 2, 3):
            for v in range(256):
                b = bytearray(base)
                b[pos] = v
                out.append((bytes(b), 0, len(b), "crafted-loc-octet"))
        for lat in (0, 0x80000000 - 324000001, 0x80000000 - 324000000, 0x80000000 + 324000000, 0x80000000 + 324000001, 0xFFFFFFFF):
            for off, span in ((4, lat), (8, lat * 2 - 0x80000000 if 0 <= lat * 2 - 0x80000000 <= 0xFFFFFFFF else lat)):
                b = bytearray(base)
                b[off : off + 4] = span.to_bytes(4, "big")
                out.append((bytes(b), 0, len(b), "crafted-loc-coordinate"))
    if spec.tname == "APL":
        items = [b"\x00\x01\x18\x03\x0a\x00\x00", b"\x00\x01\x18\x04\x0a\x00\x00\x00", b"\x00\x01\x18\x05\x0a\x00\x00\x00\x01", b"\x00\x01\x21\x01\x0a", b"\x00\x02\x81\x01\x20",
                 b"\x00\x02\x00\x11" + bytes(17), b"\x00\x03\x00\x02\x01\x00", b"\x00\x03\x00\x00", b"\x00\x01\x00\x80", b"\x00\x01\x00\x84\x01\x02\x03\x04", b"\x00\x03\xff\x7f" + b"\x01" * 127, b"\x00\x03\xff\x40" + b"\x01" * 64]
        for it in items:
            out.append((it, 0, len(it), "crafted-apl"))
            out.append((it + items[0], 0, len(it) + len(items[0]), "crafted-apl"))
    return out


# --------------------------------------------------------------------------- run


def _report(R, f, replay):
    R.violation(f.clause, f.what, sig=dict(f.sig, clause=f.clause), replay=dict(replay, clause=f.clause))


def _attribute(spec, vals, rdclass, origins, fail):
    """Minimise towards the nominal record; returns (vals, value-class label)."""

    def still(v):
        st, fs = check_value(spec, v, rdclass, origins)
        return any(x.clause == fail.clause and x.sig.get("kind") == fail.sig.get("kind") for x in fs)

    try:
        mv, kept = spec.minimize(vals, still)
        return mv, spec.vclass(mv, kept)
    except Exception:
        return vals, "unminimised"


def run(R):
    import bounded._c02_model as M

    M.MODE["FULL_OCTETS"] = not R.quick
    M.MODE["FULL_INTS"] = not R.quick
    specs = build_specs()
    have = {(s.key.split("/")[0], s.tname) for s in specs}
    mods = discover_modules()
    for m in mods:
        if m not in have:
            R.note("implementation module dns.rdtypes.%s.%s has no model entry: covered by decode fuzzing only" % m)
    n_random = 25 if R.quick else 1500
    n_fuzz = 120 if R.quick else 2000

    run_dispatch(R, mods)
    run_generic(R)

    # pass 1: every type gets its one-factor boundary values and the structured decode inputs
    # before any type gets pairs / random records / random octets (pass 2), so that a slow
    # machine shortens the seeded part and never drops a type.
    for spec in specs:
        if R.deadline():
            R.note("deadline reached in pass 1 before type %s" % spec.key)
            break
        run_values(R, spec, spec.essential(not R.quick), "pass 1")
        run_fuzz(R, spec, structured_inputs(R, spec), "pass 1")
    for spec in specs:
        if R.deadline():
            R.note("deadline reached in pass 2 before type %s (pairs / seeded part shortened)" % spec.key)
            break
        run_values(R, spec, spec.extended(not R.quick, R.rng, n_random), "pass 2")
        run_fuzz(R, spec, random_inputs(R, spec, n_fuzz), "pass 2")
    # modules without a model: fuzz only
    for cname, tname in mods:
        if (cname, tname) in have or R.deadline():
            continue
        try:
            rdtype = int(dns.rdatatype.from_text(tname.replace("_", "-")))
            rdclass = 1 if cname in ("ANY", "IN") else int(dns.rdataclass.from_text(cname))
        except Exception as e:  # pragma: no cover
            R.note("cannot resolve %s/%s: %s" % (cname, tname, e))
            continue
        for buf, cur, rdlen, tag in decode_inputs(b"\x00" * 12, R.rng, n_fuzz, False):
            acc, fails = check_decode(rdclass, rdtype, buf, cur, rdlen, None)
            R.case("C02.decode_error_or_fixed_point", key=(rdclass, rdtype, buf, cur), nontrivial=acc)
            for f in fails:
                _report(R, f, {"kind": "wire", "rdclass": rdclass, "rdtype": rdtype, "buf": buf, "cur": cur, "rdlen": rdlen, "origin": None})


def run_values(R, spec, cases, which):
    refused = 0
    total = 0
    named = spec.has_name()
    for idx, (vals, labels) in enumerate(cases):
        if idx % 64 == 0 and R.deadline():
            R.note("deadline reached inside values of %s (%s)" % (spec.key, which))
            break
        total += 1
        name_varied = any(spec.by_attr[a].has_name() for a in labels)
        if named and (name_varied or idx % 8 == 0):
            origins = ORIGINS
        elif named:
            origins = ORIGINS[:1]
        else:
            origins = []
        classes = spec.rdclasses if (idx % 16 == 0) else spec.rdclasses[:1]
        for rdclass in classes:
            try:
                st, fails = check_value(spec, vals, rdclass, origins, deep=(idx % 4 == 0 or bool(labels) is False))
            except Exception as e:  # harness error
                R.note("harness error in check_value %s: %s: %s" % (spec.key, type(e).__name__, e))
                continue
            if st == "refused":
                refused += 1
                R.case("C02.wire_roundtrip", key=(spec.key, rdclass, which, idx), nontrivial=False)
                if any(str(l).startswith("noncanonical") for l in labels.values()):
                    continue  # legal on the wire today, but a stricter constructor would not contradict the property
                for f in fails:
                    mv, vclass = _attribute(spec, vals, rdclass, origins, f)
                    f.sig["vclass"] = vclass
                    _report(R, f, {"kind": "value", "spec": spec.key, "vals": mv, "rdclass": rdclass, "origins": origins})
                continue
            R.case("C02.wire_roundtrip", key=(spec.key, rdclass, repr(vals)))
            R.case("C02.wire_matches_reference", key=(spec.key, rdclass, repr(vals)))
            if origins:
                R.case("C02.wire_roundtrip_origin", key=(spec.key, rdclass, repr(vals), len(origins)))
            if idx == 0 and which == "pass 1":
                R.sample("C02.wire_roundtrip", {"type": spec.key, "rdclass": rdclass, "values": vals})
            for f in fails:
                mv, vclass = _attribute(spec, vals, rdclass, origins, f)
                f.sig["vclass"] = vclass
                _report(R, f, {"kind": "value", "spec": spec.key, "vals": mv, "rdclass": rdclass, "origins": origins})
    if total and refused * 2 > total:
        R.note("%s: constructor refused %d of %d model values (%s)" % (spec.key, refused, total, which))


def _nominal_wire(R, spec):
    try:
        return spec.ref_wire(spec.nominal())
    except Exception as e:  # pragma: no cover
        R.note("no nominal wire for %s: %s" % (spec.key, e))
        return b"\x00" * 8


def structured_inputs(R, spec):
    w = _nominal_wire(R, spec)
    inputs = decode_inputs(w, R.rng, 0, not R.quick)
    # encodings of boundary values as further mutation seeds
    seeds = []
    stride_cases = list(spec.essential(False))
    want = 30 if R.quick else 400
    step = max(1, len(stride_cases) // want)
    for vals, _l in stride_cases[::step]:
        try:
            seeds.append(spec.ref_wire(vals))
        except Exception:
            pass
    for sd in seeds:
        if len(sd) <= 600:
            inputs += seed_mutations(sd, R.rng)
    inputs += crafted_inputs(spec, R.rng, not R.quick)
    return inputs


def random_inputs(R, spec, n_fuzz):
    w = _nominal_wire(R, spec)
    return [x for x in decode_inputs(w, R.rng, n_fuzz, False) if x[3].startswith("random")]


def run_fuzz(R, spec, inputs, which):
    rdclass = spec.rdclasses[0]
    for idx, (buf, cur, rdlen, tag) in enumerate(inputs):
        if idx % 128 == 0 and R.deadline():
            R.note("deadline reached inside decode inputs of %s (%s)" % (spec.key, which))
            break
        origin = ORIGINS[idx % 3] if (idx % 4 == 3) else None
        try:
            acc, fails = check_decode(rdclass, spec.rdtype, buf, cur, rdlen, origin)
        except Exception as e:
            R.note("harness error in check_decode %s: %s: %s" % (spec.key, type(e).__name__, e))
            continue
        R.case("C02.decode_error_or_fixed_point", key=(spec.key, buf, cur, origin is None), nontrivial=acc)
        R.case("C02.exact_consumption", key=(spec.key, buf, cur, origin is None), nontrivial=acc)
        if acc and tag not in ("nominal", "seed"):
            R.sample("C02.decode_error_or_fixed_point", {"type": spec.key, "accepted": buf[cur : cur + rdlen], "input": tag})
        for f in fails:
            _report(R, f, {"kind": "wire", "rdclass": rdclass, "rdtype": spec.rdtype, "buf": buf, "cur": cur, "rdlen": rdlen, "origin": origin})


def run_dispatch(R, mods):
    import importlib

    for cname, tname in mods:
        try:
            mod = importlib.import_module("dns.rdtypes.%s.%s" % (cname, tname))
            want = getattr(mod, tname)
            rdtype = dns.rdatatype.from_text(tname.replace("_", "-"))
        except Exception as e:
            R.note("dispatch: cannot import %s/%s: %s" % (cname, tname, e))
            continue
        classes = [1, 3, 4, 4660] if cname == "ANY" else [int(dns.rdataclass.from_text(cname))]
        if cname == "ANY" and tname == "A":  # pragma: no cover
            classes = [4660]
        for rc in classes:
            if (cname, tname) != ("CH", "A") and tname == "A" and rc == 3:
                continue
            got = dns.rdata.get_rdata_class(dns.rdataclass.RdataClass.make(rc), rdtype)
            R.case("C02.dispatch", key=(cname, tname, rc))
            if got is not want:
                R.violation(
                    "C02.dispatch",
                    "get_rdata_class(%d, %s) is %s, expected the implementation %s" % (rc, tname, getattr(got, "__name__", got), want.__name__),
                    sig={"clause": "C02.dispatch", "kind": "implemented-type-not-dispatched", "impl": cname + "." + tname},
                    replay={"kind": "dispatch", "clause": "C02.dispatch", "cname": cname, "tname": tname, "rdclass": rc},
                )


def unknown_type_codes(R):
    # codes with a mnemonic but no implementation module, then codes without a mnemonic
    implemented = {int(dns.rdatatype.from_text(t.replace("_", "-"))) for (_c, t) in discover_modules()}
    known = {int(t) for t in dns.rdatatype.RdataType}
    pool = [t for t in range(1, 65535) if t not in known]
    fixed = [t for t in sorted(known) if t not in implemented and t != 0]
    extra = [263, 264, 300, 1000, 4096, 32770, 65279, 65280, 65281, 65534, 65535, 110, 127, 129, 248, 259]
    n = 200 if R.quick else 6000
    return fixed + extra + R.rng.sample(pool, n)


def check_generic(rdclass, rdtype, data):
    fails = []
    try:
        cls = dns.rdata.get_rdata_class(dns.rdataclass.RdataClass.make(rdclass), dns.rdatatype.RdataType.make(rdtype))
        if cls is not dns.rdata.GenericRdata:
            fails.append(Fail("C02.generic_unknown_types", "type code %d has no implementation but get_rdata_class gives %r" % (rdtype, cls), kind="unknown-type-not-generic", impl="rdata.get_rdata_class"))
            return True, fails
        buf = b"\xaa\xbb" + data + b"\xcc"
        rd = _fw(rdclass, rdtype, buf, 2, len(data))
        if type(rd) is not dns.rdata.GenericRdata or rd.data != data:
            fails.append(Fail("C02.generic_unknown_types", "generic decode does not hold exactly the RDATA octets", kind="generic-data-differs", impl="rdata.GenericRdata"))
        w = rd.to_wire()
        if w != data:
            fails.append(Fail("C02.generic_unknown_types", "generic re-encoding %s != RDATA %s" % (w.hex()[:60], data.hex()[:60]), kind="generic-reencode-differs", impl="rdata.GenericRdata"))
        rd2 = _fw(rdclass, rdtype, w)
        if not (rd2 == rd) or rd2.rdtype != rdtype or rd2.rdclass != rdclass:
            fails.append(Fail("C02.generic_unknown_types", "generic round trip not equal", kind="generic-not-equal", impl="rdata.GenericRdata"))
        if rd.to_generic().to_wire() != data:
            fails.append(Fail("C02.generic_unknown_types", "to_generic of a generic record changed the data", kind="generic-to_generic-differs", impl="rdata.GenericRdata"))
    except Exception as e:
        fails.append(Fail("C02.generic_unknown_types", "unknown type handling raised %s: %s" % (type(e).__name__, e), kind="generic-raises", exc=type(e).__name__, site=_site(e), impl="rdata.GenericRdata"))
    return True, fails


_GENERIC_PAYLOADS = [b"", b"\x00", bytes(range(256)), b"\xc0\x0c\x03www\xc0\x00" * 3]


def run_generic(R):
    for i, t in enumerate(unknown_type_codes(R)):
        if i % 256 == 0 and R.deadline():
            break
        for rc in (1, 3, 65280):
            for data in _GENERIC_PAYLOADS if i % 8 == 0 else _GENERIC_PAYLOADS[2:3]:
                st, fails = check_generic(rc, t, data)
                R.case("C02.generic_unknown_types", key=(rc, t, data), nontrivial=bool(st))
                for f in fails:
                    _report(R, f, {"kind": "generic", "rdclass": rc, "rdtype": t, "data": data})
    R.sample("C02.generic_unknown_types", {"rdclass": 1, "rdtype": 65280, "data": b"\x00"})
    # every implemented type also round-trips through its generic form
    # (to_generic is the RFC 3597 form of a known type)


# --------------------------------------------------------------------------- replay


def replay(data):
    kind = data.get("kind")
    clause = data.get("clause")
    if kind == "value":
        spec = {s.key: s for s in build_specs()}[data["spec"]]
        st, fails = check_value(spec, data["vals"], data["rdclass"], data.get("origins") or [])
        fails = [f for f in fails if f.clause == clause] or fails
        if fails:
            return True, "; ".join("%s: %s" % (f.clause, f.what) for f in fails)
        return False, "value %s round-trips (%s)" % (data["spec"], st)
    if kind == "wire":
        acc, fails = check_decode(data["rdclass"], data["rdtype"], data["buf"], data["cur"], data["rdlen"], data.get("origin"))
        if fails:
            return True, "; ".join("%s: %s" % (f.clause, f.what) for f in fails)
        return False, "input is %s" % ("accepted and a fixed point" if acc else "rejected with FormError")
    if kind == "generic":
        st, fails = check_generic(data["rdclass"], data["rdtype"], data["data"])
        if fails:
            return True, "; ".join(f.what for f in fails)
        return False, "generic round trip holds"
    if kind == "dispatch":
        import importlib

        want = getattr(importlib.import_module("dns.rdtypes.%s.%s" % (data["cname"], data["tname"])), data["tname"])
        got = dns.rdata.get_rdata_class(dns.rdataclass.RdataClass.make(data["rdclass"]), dns.rdatatype.from_text(data["tname"].replace("_", "-")))
        return (got is not want), "dispatch gives %s" % getattr(got, "__name__", got)
    return False, "unknown replay kind %r" % kind
