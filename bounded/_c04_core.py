"""Core of the C04 bounded stand-in: entry-point registry, outcome judgement,
watchdog, replay.  (Helper of bounded/C04.py.)

Every evaluated case is ``(entry, args)`` with JSON-able ``args``; ``judge`` runs the real
entry point of the ``dns`` package found on PYTHONPATH and classifies the outcome against
the text of property C04:

* wire entry points: a value, or an exception of the ``dns.exception.FormError`` family;
* text entry points: a value, or an exception of the ``dns.exception.SyntaxError`` family
  (zone readers: with ``file:line:`` prefix; documented ``ValueError``/``KeyError`` from the
  zone-semantic layer are accepted);
* other subclasses of ``dns.exception.DNSException`` (the library's own hierarchy, e.g.
  ``UnknownTSIGKey``, ``Truncated``, ``NameTooLong`` on the text side, ``UnknownOrigin``,
  ``NoSOA``) are *tolerated and counted* -- the property text is ambiguous about them;
* anything else (``IndexError``, ``struct.error``, ``ValueError``, ``UnicodeError``,
  ``AssertionError``, ...) or a call that does not return within ``LIMIT`` seconds is a
  violation;
* every returned value is rendered to text and to wire again; a non-library exception
  there is a violation of ``C04.rerender``.  Cases carrying ``"deep": True`` (the
  field-extreme generator) are additionally rendered with ``to_digestable``, without origin /
  unrelativized, as a message with the unverified TSIG kept, and record by record; their
  ``sig`` carries the record type.
"""

from __future__ import annotations

import os
import signal
import struct
import traceback

import dns
import dns.edns
import dns.exception
import dns.flags
import dns.message
import dns.name
import dns.rdata
import dns.rdataclass
import dns.rdatatype
import dns.tokenizer
import dns.tsig
import dns.ttl
import dns.zone
import dns.zonefile

_DNS_DIR = os.path.dirname(os.path.abspath(dns.__file__))

LIMIT = 8.0  # seconds; a single parser call on a <= 64 KiB input that needs longer "hangs"


# ----------------------------------------------------------------------------- watchdog
class _Hang(BaseException):
    pass


_state = {"fired": False, "installed": False}


def _on_alarm(signum, frame):  # pragma: no cover (only on a hang)
    _state["fired"] = True
    raise _Hang()


def install_watchdog() -> bool:
    if _state["installed"]:
        return True
    try:
        signal.signal(signal.SIGALRM, _on_alarm)
        _state["installed"] = True
    except Exception:
        _state["installed"] = False
    return _state["installed"]


def guarded(fn):
    """Run fn() under the watchdog.  Returns ('ok', value) | ('exc', exception) | ('hang', None)."""
    _state["fired"] = False
    armed = _state["installed"]
    try:
        if armed:
            signal.setitimer(signal.ITIMER_REAL, LIMIT)
        try:
            try:
                out = ("ok", fn())
            except _Hang:
                out = ("hang", None)
            except KeyboardInterrupt:
                raise
            except BaseException as e:  # noqa: BLE001 - that is the point
                out = ("exc", e)
        finally:
            if armed:
                signal.setitimer(signal.ITIMER_REAL, 0)
    except _Hang:  # fired between return and disarm
        return ("hang", None)
    if _state["fired"]:
        # the library swallowed/converted the watchdog exception: still a hang
        return ("hang", None)
    return out


# ----------------------------------------------------------------------------- helpers
def exc_name(e) -> str:
    t = type(e)
    if t.__module__ in ("builtins", "exceptions"):
        return t.__name__
    return f"{t.__module__}.{t.__name__}"


def site_of(e) -> str:
    """Innermost frame inside the dns package in which *e* was raised:
    'dns.zonefile.Reader.read'.  Stable against line-number changes."""
    best = None
    tb = e.__traceback__
    while tb is not None:
        code = tb.tb_frame.f_code
        fn = os.path.abspath(code.co_filename)
        if fn.startswith(_DNS_DIR + os.sep):
            rel = os.path.relpath(fn, os.path.dirname(_DNS_DIR))
            mod = rel[:-3].replace(os.sep, ".")
            if mod.endswith(".__init__"):
                mod = mod[: -len(".__init__")]
            qual = getattr(code, "co_qualname", code.co_name)
            best = f"{mod}.{qual}"
        tb = tb.tb_next
    if best is None:
        # raised below the library in a callee (e.g. idna): use the cause chain
        c = e.__cause__ or e.__context__
        if c is not None and c is not e:
            return site_of(c)
        return "?"
    return best


def short(s, n=160) -> str:
    s = str(s).replace("\n", "\\n")
    return s if len(s) <= n else s[: n - 3] + "..."


def _name_or_none(s):
    if s is None:
        return None
    return dns.name.from_text(s, None) if not s.endswith(".") else dns.name.from_text(s)


def _codec(c):
    return {
        None: None,
        "2003": dns.name.IDNA_2003,
        "2003p": dns.name.IDNA_2003_Practical,
        "2003s": dns.name.IDNA_2003_Strict,
        "2008": dns.name.IDNA_2008,
        "2008p": dns.name.IDNA_2008_Practical,
        "2008s": dns.name.IDNA_2008_Strict,
        "2008u": dns.name.IDNA_2008_UTS_46,
        "2008t": dns.name.IDNA_2008_Transitional,
    }[c]


TSIG_KEYNAME = "key."
TSIG_SECRET = b"0123456789abcdef0123456789abcdef"


def _keyring(k):
    if k == "none" or k is None:
        return None
    if k == "false":
        return False
    if k == "dict":
        return {dns.name.from_text(TSIG_KEYNAME): TSIG_SECRET}
    if k == "key":
        return dns.tsig.Key(TSIG_KEYNAME, TSIG_SECRET)
    raise ValueError(k)


def msg_kwargs(o):
    return dict(
        keyring=_keyring(o.get("keyring")),
        xfr=bool(o.get("xfr", False)),
        origin=_name_or_none(o.get("origin")),
        multi=bool(o.get("multi", False)),
        question_only=bool(o.get("question_only", False)),
        one_rr_per_rrset=bool(o.get("one_rr_per_rrset", False)),
        ignore_trailing=bool(o.get("ignore_trailing", False)),
        raise_on_truncation=bool(o.get("raise_on_truncation", False)),
        continue_on_error=bool(o.get("continue_on_error", False)),
    )


# ----------------------------------------------------------------------------- entry points
class Entry:
    def __init__(self, clause, family, call, rerender=None, extra_ok=None, post_exc=None):
        self.clause = clause
        self.family = family
        self.call = call
        self.rerender = rerender or (lambda v, a: [])
        self.extra_ok = extra_ok or (lambda e, a: False)
        self.post_exc = post_exc  # extra check on an in-family exception -> finding|None


FORM = dns.exception.FormError
SYNTAX = dns.exception.SyntaxError


# --- wire
def _call_msg_from_wire(a):
    return dns.message.from_wire(a["wire"], **msg_kwargs(a.get("opts", {})))


def _rr_message(m, a):
    origin = _name_or_none(a.get("opts", {}).get("origin"))
    out = [("to_text", lambda: m.to_text(origin=origin))]
    # a message carrying a TSIG that was not validated cannot be re-signed; render the rest
    out.append(("to_wire", lambda: _msg_to_wire(m, origin)))
    if a.get("deep"):
        out.extend(_rr_message_deep(m, origin))
    return out


def _rr_message_deep(m, origin):
    """Field-extreme cases: additionally the message as parsed (TSIG record kept: nothing is
    signed, the record is only written), and every record of it on its own."""
    out = []
    if m.tsig is not None and m.keyring is None:
        out.append(("to_wire+tsig", lambda: m.to_wire(origin=origin, max_size=65535)))
    rds = []
    for sec in m.sections:
        for rrs in sec:
            rds.extend(rrs)
    for special in (m.opt, m.tsig):
        if special is not None:
            rds.extend(special)

    for rd in rds:
        # the record type is part of the label (hence of the sig): a rendering defect of one
        # type is one finding, distinct from that of another type
        tn = _type_text(rd.rdtype)
        out.append((f"rdata[{tn}].to_text", lambda rd=rd: (rd.to_text(origin=origin, relativize=True), rd.to_text())))
        out.append((f"rdata[{tn}].to_wire", lambda rd=rd: rd.to_wire(origin=origin)))
        out.append((f"rdata[{tn}].to_digestable", lambda rd=rd: rd.to_digestable(origin=origin)))
    return out


def _type_text(t):
    try:
        return dns.rdatatype.to_text(t)
    except Exception:
        return f"TYPE{int(t)}"


def _msg_to_wire(m, origin):
    if m.tsig is not None and m.keyring is None:
        # no key is attached (validation was disabled or failed): rendering would need a
        # key the caller never supplied; render without the signature.
        import copy

        m = copy.copy(m)
        m.tsig = None
    return m.to_wire(origin=origin, max_size=65535)


def _call_name_from_wire(a):
    return dns.name.from_wire(a["wire"], a["current"])


def _rr_name_pair(v, a):
    n = v[0]
    return [("to_text", n.to_text), ("to_unicode", n.to_unicode), ("to_wire", n.to_wire)]


def _call_rdata_from_wire(a):
    return dns.rdata.from_wire(
        a["rdclass"], a["rdtype"], a["wire"], a["current"], a["rdlen"], _name_or_none(a.get("origin"))
    )


def _rr_rdata(rd, a):
    origin = _name_or_none(a.get("origin"))
    out = [
        ("to_text", lambda: rd.to_text(origin=origin, relativize=bool(a.get("relativize", True)))),
        ("to_wire", lambda: rd.to_wire(origin=origin)),
    ]
    if a.get("deep"):
        # field-extreme cases: every rendering the record offers
        out.append(("to_digestable", lambda: rd.to_digestable(origin=origin)))
        if origin is not None:
            out.append(("to_text", lambda: rd.to_text()))
            out.append(("to_text", lambda: rd.to_text(origin=origin, relativize=False)))
    return out


def _call_option_from_wire(a):
    return dns.edns.option_from_wire(a["otype"], a["wire"], a["current"], a["olen"])


def _rr_option(o, a):
    return [("to_text", o.to_text), ("to_wire", o.to_wire)]


# --- text
def _call_name_from_text(a):
    t = a["text"]
    if a.get("as_bytes"):
        t = t.encode("latin-1")
    return dns.name.from_text(t, _origin_arg(a), _codec(a.get("codec")))


def _origin_arg(a):
    o = a.get("origin", ".")
    if o is None:
        return None
    return _name_or_none(o)


def _call_name_from_unicode(a):
    return dns.name.from_unicode(a["text"], _origin_arg(a), _codec(a.get("codec")))


def _rr_name(n, a):
    out = [("to_text", n.to_text), ("to_unicode", n.to_unicode)]
    if n.is_absolute():
        out.append(("to_wire", n.to_wire))
    else:
        out.append(("to_wire", lambda: n.to_wire(origin=dns.name.root)))
    return out


def _call_ttl(a):
    return dns.ttl.from_text(a["text"])


def _rr_ttl(v, a):
    return [("to_wire", lambda: struct.pack("!I", v)), ("to_text", lambda: str(int(v)))]


def _call_rdata_from_text(a):
    origin = _name_or_none(a.get("origin"))
    return dns.rdata.from_text(
        a["rdclass"], a["rdtype"], a["text"], origin, bool(a.get("relativize", True)),
        None, _codec(a.get("codec")),
    )


def _call_zone_from_text(a):
    return dns.zone.from_text(
        a["text"],
        origin=a.get("origin", "example."),
        relativize=bool(a.get("relativize", True)),
        check_origin=bool(a.get("check_origin", False)),
        allow_directives=a.get("allow_directives", True),
        filename=a.get("filename"),
    )


def _rr_zone(z, a):
    if z.origin is None:
        # the reader never learned an origin (no origin argument, no $ORIGIN, origin check
        # disabled): not a complete zone value; the property is not read as covering it
        return []
    out = [("to_text", lambda: z.to_text())]

    def each_wire():
        for name, rds in z.iterate_rdatasets():
            for rd in rds:
                rd.to_wire(origin=z.origin)

    out.append(("to_wire", each_wire))
    return out


_ZONE_SEMANTIC_MODULES = ("dns.transaction.", "dns.zone.", "dns.versioned.", "dns.node.", "dns.btreezone.")


def _zone_extra_ok(e, a):
    # "zone-semantic violations may additionally surface as the documented ValueError/KeyError"
    if type(e) in (ValueError, KeyError):
        return site_of(e).startswith(_ZONE_SEMANTIC_MODULES)
    return False


def _zone_post_exc(e, a):
    """A syntax error from the zone reader carries file and line."""
    import re

    fname = a.get("filename") or "<string>"
    m = re.match(r"^" + re.escape(fname) + r":(\d+): ", str(e))
    nlines = a["text"].count("\n") + 1
    if not m:
        return ("zone reader SyntaxError without file:line prefix: " + short(e), {"class": "no file:line"})
    n = int(m.group(1))
    if not (1 <= n <= nlines):
        return (f"zone reader SyntaxError line {n} outside 1..{nlines}", {"class": "line out of range"})
    exp = a.get("expect_line")
    if exp is not None and n not in (exp, exp + 1):
        return (
            f"zone reader reported line {n} for the only malformed line {exp}",
            {"class": "wrong line"},
        )
    return None


def _call_read_rrsets(a):
    kw = {}
    for k in ("name", "ttl", "rdclass", "rdtype", "default_ttl", "origin", "relativize"):
        if k in a:
            kw[k] = a[k]
    if "rdclass" in kw and kw["rdclass"] == "none":
        kw["rdclass"] = None
    return dns.zonefile.read_rrsets(a["text"], **kw)


def _rr_rrsets(v, a):
    def f():
        for rrs in v:
            rrs.to_text()
            rrs.to_wire(__import__("io").BytesIO(), origin=dns.name.root)

    return [("to_text+to_wire", f)]


def _rrsets_post_exc(e, a):
    b = dict(a)
    b["filename"] = "<input>"
    return _zone_post_exc(e, b)


def _call_msg_from_text(a):
    return dns.message.from_text(a["text"])


def _rr_message_t(m, a):
    return [("to_text", m.to_text), ("to_wire", lambda: _msg_to_wire(m, None))]


def _call_tokenize(a):
    tok = dns.tokenizer.Tokenizer(a["text"])
    n = 0
    limit = 2 * len(a["text"]) + 8
    while True:
        t = tok.get(bool(a.get("want_leading")), bool(a.get("want_comment")))
        if t.is_eof():
            return n
        if a.get("unescape") == "str":
            t.unescape()
        elif a.get("unescape") == "bytes":
            t.unescape_to_bytes()
        n += 1
        if n > limit:
            raise _Hang()


ENTRIES = {
    "message.from_wire": Entry("C04.wire_message", FORM, _call_msg_from_wire, _rr_message),
    "name.from_wire": Entry("C04.wire_name", FORM, _call_name_from_wire, _rr_name_pair),
    "rdata.from_wire": Entry("C04.wire_rdata", FORM, _call_rdata_from_wire, _rr_rdata),
    "edns.option_from_wire": Entry("C04.wire_option", FORM, _call_option_from_wire, _rr_option),
    "name.from_text": Entry("C04.text_name", SYNTAX, _call_name_from_text, _rr_name),
    "name.from_unicode": Entry("C04.text_name", SYNTAX, _call_name_from_unicode, _rr_name),
    "ttl.from_text": Entry("C04.text_ttl", SYNTAX, _call_ttl, _rr_ttl),
    "rdata.from_text": Entry("C04.text_rdata", SYNTAX, _call_rdata_from_text, _rr_rdata),
    "zone.from_text": Entry(
        "C04.text_zone", SYNTAX, _call_zone_from_text, _rr_zone, _zone_extra_ok, _zone_post_exc
    ),
    "zonefile.read_rrsets": Entry(
        "C04.text_zone", SYNTAX, _call_read_rrsets, _rr_rrsets, _zone_extra_ok, _rrsets_post_exc
    ),
    "message.from_text": Entry("C04.text_message", SYNTAX, _call_msg_from_text, _rr_message_t),
    "tokenizer": Entry("C04.text_tokenizer", SYNTAX, _call_tokenize),
}


# ----------------------------------------------------------------------------- judgement
def judge(entry: str, args: dict):
    """Returns (findings, info).  finding = (clause, what, sig).  info: dict with
    'outcome' in {'value','family','tolerated','extra','bad','hang'} and 'exc'."""
    if entry == "message.coe":
        return judge_coe(args)
    spec = ENTRIES[entry]
    findings = []
    status, val = guarded(lambda: spec.call(args))
    info = {"outcome": None, "exc": None}
    if status == "hang":
        info["outcome"] = "hang"
        sig = {"entry": entry, "class": "hang"}
        for k in ("rdtype", "otype"):
            if k in args:
                sig[k] = str(args[k])
        findings.append((spec.clause, f"{entry} did not return within {LIMIT:.0f} s", sig))
    elif status == "exc":
        e = val
        info["exc"] = exc_name(e)
        if isinstance(e, spec.family):
            info["outcome"] = "family"
            if spec.post_exc is not None:
                f = spec.post_exc(e, args)
                if f is not None:
                    sig = {"entry": entry}
                    sig.update(f[1])
                    findings.append((spec.clause.replace("text_zone", "zone_error_location"), f[0], sig))
        elif isinstance(e, dns.exception.DNSException):
            info["outcome"] = "tolerated"
        elif spec.extra_ok(e, args):
            info["outcome"] = "extra"
        else:
            info["outcome"] = "bad"
            findings.append(
                (
                    spec.clause,
                    f"{entry} raised {exc_name(e)}: {short(e, 100)}",
                    {"entry": entry, "exc": exc_name(e), "site": site_of(e)},
                )
            )
    else:
        info["outcome"] = "value"
        info["value"] = val
        for label, thunk in spec.rerender(val, args):
            st, v2 = guarded(thunk)
            if st == "hang":
                findings.append(
                    ("C04.rerender", f"{label} of the value returned by {entry} did not return",
                     {"entry": entry, "op": label, "class": "hang"})
                )
            elif st == "exc" and not isinstance(v2, dns.exception.DNSException):
                sig = {"entry": entry, "op": label, "exc": exc_name(v2), "site": site_of(v2)}
                if args.get("deep") and "rdtype" in args:
                    # field-extreme records: the failing site is often a shared helper
                    # (IntEnum._check_value, struct.pack): the type tells the findings apart
                    sig["rdtype"] = _type_text(args["rdtype"])
                findings.append(
                    (
                        "C04.rerender",
                        f"value returned by {entry} cannot be rendered: {label} raised {exc_name(v2)}: {short(v2, 80)}"
                        + (f" [{args['field']}]" if args.get("field") else ""),
                        sig,
                    )
                )
    return findings, info


def judge_coe(args):
    """continue_on_error: failures after the header are recorded with their offset instead
    of raised (Truncated when requested and TC set excepted); differential against the
    strict parse of the same input with the same other options."""
    clause = "C04.continue_on_error"
    wire = args["wire"]
    opts = dict(args.get("opts", {}))
    findings = []
    info = {"outcome": None, "exc": None}
    o_c = dict(opts, continue_on_error=True)
    o_s = dict(opts, continue_on_error=False)
    st_c, v_c = guarded(lambda: dns.message.from_wire(wire, **msg_kwargs(o_c)))
    st_s, v_s = guarded(lambda: dns.message.from_wire(wire, **msg_kwargs(o_s)))
    if st_c == "hang" or st_s == "hang":
        findings.append((clause, "from_wire did not return", {"class": "hang"}))
        info["outcome"] = "hang"
        return findings, info
    tc = len(wire) >= 12 and bool(wire[2] & 0x02)
    rot = bool(opts.get("raise_on_truncation"))
    if len(wire) < 12:
        info["outcome"] = "short"
        if st_c != "exc" or not isinstance(v_c, FORM):
            findings.append((clause, "input shorter than a header did not raise a FormError",
                             {"class": "short header accepted"}))
        return findings, info
    if st_c == "exc":
        info["exc"] = exc_name(v_c)
        if isinstance(v_c, dns.message.Truncated) and rot and tc:
            info["outcome"] = "truncated"
            return findings, info
        info["outcome"] = "bad"
        findings.append(
            (
                clause,
                f"continue_on_error=True raised {exc_name(v_c)} instead of recording it: {short(v_c, 80)}",
                {"class": "raised", "exc": exc_name(v_c), "site": site_of(v_c)},
            )
        )
        return findings, info
    m = v_c
    errs = getattr(m, "errors", None)
    if not isinstance(errs, list):
        findings.append((clause, "message.errors is not a list", {"class": "errors missing"}))
        return findings, info
    for me in errs:
        off = getattr(me, "offset", None)
        ex = getattr(me, "exception", None)
        if not isinstance(ex, BaseException) or not isinstance(off, int) or not (12 <= off <= len(wire)):
            findings.append(
                (clause, f"recorded error without a valid offset: offset={off!r} (len {len(wire)})",
                 {"class": "bad offset"})
            )
            break
    if rot and tc:
        # continue mode returned although truncation was requested to be signalled
        findings.append((clause, "TC set and raise_on_truncation requested but no Truncated raised",
                         {"class": "truncation not signalled"}))
    info["outcome"] = "errors" if errs else "clean"
    if st_s == "exc":
        if isinstance(v_s, dns.message.Truncated) and rot and tc:
            pass
        elif not errs:
            findings.append(
                (clause, f"strict parse raises {exc_name(v_s)} but continue_on_error recorded nothing",
                 {"class": "failure not recorded"})
            )
        else:
            if type(errs[0].exception) is not type(v_s) and not isinstance(
                v_s, (dns.tsig.BadTime, dns.tsig.BadSignature)
            ):
                findings.append(
                    (clause,
                     f"first recorded error {exc_name(errs[0].exception)} differs from the strict failure {exc_name(v_s)}",
                     {"class": "first error differs"})
                )
    else:
        if errs:
            findings.append(
                (clause, f"strict parse succeeds but continue_on_error recorded {exc_name(errs[0].exception)}",
                 {"class": "spurious error"})
            )
        else:
            origin = _name_or_none(opts.get("origin"))
            a, b = guarded(lambda: (v_s.to_text(origin=origin), m.to_text(origin=origin)))
            if a == "ok" and b[0] != b[1]:
                findings.append((clause, "same input, no errors, but a different message than the strict parse",
                                 {"class": "different message"}))
    # an error placed in one RR must be located inside that RR
    span = args.get("expect_span")
    if span is not None and errs and not findings:
        off = errs[0].offset
        if not (span[0] <= off <= span[1]):
            findings.append((clause, f"first error offset {off} outside the corrupted record {span}",
                             {"class": "offset outside record"}))
    return findings, info


def replay(data):
    entry = data["entry"]
    args = data["args"]
    install_watchdog()
    findings, info = judge(entry, args)
    want = data.get("clause")
    hits = [f for f in findings if want is None or f[0] == want]
    if hits:
        return True, hits[0][1]
    return False, f"{entry}: outcome {info.get('outcome')} {info.get('exc') or ''}".strip()
