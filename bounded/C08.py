"""Bounded stand-in for C08 — rendered messages respect the size limit; truncation and
padding are exact.  (DESIGN.md section 4, C08-B5; clauses from the property statement.)

Oracle: the reference model and the independent RFC 1035 decoder of bounded/_c03_model.py.
For every subject message the unlimited rendering is decoded independently, which gives the
end offset E_k of every record set; for a limit L the real ``Message.to_wire`` is run and
its output is judged against L, E_k, and sizes of OPT (RFC 6891) and TSIG (RFC 8945)
computed here from their wire layouts — never from the library's own reserve arithmetic.
"""

from __future__ import annotations

import random
import struct

from bounded import _c03_model as M

BOUNDS = (
    "Subjects: seeded messages from the C03 model generator (responses, NOTIFY/other opcodes "
    "and UPDATE messages of 12-50 record sets from 67 record types, suffix-sharing names, with "
    "and without an origin), sized 560-3000 octets so that limits >= 512 cut them, each with a "
    "seeded configuration: EDNS on/off with 0-4 options, padding block in {0,16,128,468, "
    "1,2,3,7,255,256,512,random 1..600}, TSIG on/off (6 HMAC algorithms; key names unrelated, "
    "or under a name that first occurs in a late record set so that it would compress against "
    "removed octets).  Per subject, Message.to_wire(max_size=L, prefer_truncation in "
    "{False,True}) is run for EVERY L from 512 to len(full)+16 (quick: 10 subjects, thorough: "
    "150) or for the boundary set {E_k+R-1, E_k+R, E_k+R+1, the same with the padded/compressed "
    "reserve bounds, 512, len(full)-1..+1} (quick: 62 subjects, thorough: 2 500); plus "
    "max_size=0 with request_payload=L at 6 limits, and the clamp 65535 on 1 (quick) / 4 "
    "(thorough) messages larger than 65535 octets.  The low-level dns.renderer.Renderer is "
    "driven with the same record sets at the boundary limits, continuing after TooBig, to "
    "check rollback (whole sets, counts, no pointer into removed octets).  Zero-length EDNS "
    "options (RFC 6891 OPTION-LENGTH 0), run first with their own seeded generator: messages of "
    "580-1000 octets (before padding) whose OPT holds one of five option patterns - the single "
    "NSID request, 2-5 empty options with codes from {NSID, DAU, DHU, N3U, EXPIRE, KEEPALIVE, "
    "local/unassigned}, empty options scattered among / after / before non-empty ones; empty "
    "ones handed over as dns.edns.GenericOption, NSID also as NSIDOption - with TSIG and the "
    "padding block fixed by plan: EVERY limit 512..len+16 x prefer_truncation off/on for "
    "{no padding, padding 16/128 (thorough: any block)} x {TSIG off, on} (quick: 4 subjects, "
    "thorough: 40), and the boundary limits for padding blocks 16, 128, 468, {1,2,3,7,255,256,"
    "512} and a random one x TSIG off/on (quick: 8 subjects, thorough: 132), each also with "
    "request_payload as the limit at 4 limits; judged by the same clauses (size of every "
    "zero-length option = its 4-octet header, OPT RDATA compared octet for octet).  Options that ALREADY "
    "hold a PADDING option (RFC 7830, code 12) while padding is requested, own seeded generator, run "
    "after the zero-length class: messages of 580-1000 octets whose option list holds a "
    "dns.edns.GenericOption(PADDING, n zero octets), n in {0,1,7,33} (thorough: also 2..64 random), "
    "alone / first / last / in the middle of 2-3 other options / twice, x TSIG off/on x block in "
    "{16,32,128,468} (thorough: also {1,2,3,7,255,256,512,random}): the boundary limits (quick: 10 "
    "subjects covering every n, every position, every block and both TSIG settings; thorough: 240) "
    "and every limit 512..len+16 (quick: 1 subject, thorough: 8), x prefer_truncation off/on, "
    "judged by the same clauses (the pre-existing option counts 4+n octets and must be kept; the "
    "final length, TSIG included, is a multiple of the block).  Re-send flow: a padded query "
    "(make_query, 0-2 other options, first block in {16,32,128,468,random}, TSIG off/on with a key "
    "name unrelated to the question) is rendered, parsed by dns.message.from_wire, and its "
    "received.options are handed to use_edns(options=received.options, pad=block) on a new "
    "query, on make_response(received) and on the parsed message itself, block in "
    "{16,32,128,468} and random (quick: 90 flows, thorough: 1 200): both renderings must have a "
    "length that is a multiple of their block and must parse (independent decoder and "
    "dns.message.from_wire, TSIG verified).  Time-boxed at 88% "
    "of the tier budget.  TSIG uses HMAC only; nothing here needs the `cryptography` package "
    "(GSS-TSIG, whose MAC size is not predictable, is out of scope)."
)

TC = 0x0200

SIG_PAD_TSIG = {
    "site": "dns.message.Message.to_wire",
    "class": "padding with TSIG: the key name is compressed by add_rrset although the pad length assumed the uncompressed TSIG size",
}
SIG_F12 = {
    "site": "dns.message.Message.to_wire",
    "exc": "TooBig",
    "class": "prefer_truncation=True with padding: the padded OPT exceeds the limit (padding octets are not reserved)",
}

# RFC 8945 section 6 / dnspython names; MAC sizes from the hash definitions
_ALGS = (
    ((b"hmac-sha256", b""), 32),
    ((b"hmac-sha256", b""), 32),
    ((b"hmac-sha1", b""), 20),
    ((b"hmac-sha512", b""), 64),
    ((b"hmac-sha384", b""), 48),
    ((b"hmac-sha224", b""), 28),
    ((b"HMAC-MD5", b"SIG-ALG", b"REG", b"INT", b""), 16),
)


def _f(out, clause, what, sig):
    out.append({"clause": clause, "what": what, "sig": sig})


# ----------------------------------------------------------------------------- zero-length options
# RFC 6891 6.1.2: OPTION-LENGTH may be 0; such an option still occupies its 4-octet header.
# Codes whose payload is legitimately empty (RFC 5001 NSID request, RFC 6975 DAU/DHU/N3U with an
# empty list, RFC 7314 EXPIRE and RFC 7828 KEEPALIVE in a query) and unassigned/local codes.
# Codes the library decodes with a structured class that rejects an empty payload (ECS, COOKIE,
# EDE, REPORTCHANNEL) and PADDING itself are left out, so the output stays parseable.
_EMPTY_CODES = (3, 3, 5, 6, 7, 9, 11, 65001, 65534, 4, 26946)
_EMPTY_PATTERNS = ("nsid", "empties", "mixed", "tail", "head")
_SPECIAL_CODES = (8, 10, 12, 15, 18, 22, 23, 24, 25)
_VARIANT_MIN, _VARIANT_MAX = 580, 1000  # octets of the unlimited rendering before padding
SIG_EMPTY_DROPPED = {
    "site": "Renderer.add_opt",
    "class": "OPT differs: the zero-length options are missing from the rendered OPT",
}


# A PADDING option that is already in the option list when padding is requested (RFC 7830: the
# option is ordinary option data; a parsed padded message carries it in .options).  It occupies
# 4+n octets like any other option, and the length of the rendering must still be a multiple.
_PREPAD_LENS = (0, 1, 7, 33)
_PREPAD_WHERE = ("alone", "first", "last", "middle", "twice")
_PREPAD_BLOCKS = (16, 32, 128, 468)
SIG_PREPAD = {
    "site": "Renderer.add_opt",
    "class": "length not a multiple of the block: the option list already holds a PADDING option (code 12)",
}


def _prepad_options(rng, variant):
    """[(code, data)] holding a PADDING option of variant["padlen"] zero octets at the position
    variant["where"]: alone; first / last / middle: before / after / among 2-3 other options;
    twice: two PADDING options (the second of a seeded length) around the other options."""
    old = (12, b"\x00" * int(variant["padlen"]))
    where = variant["where"]
    if where == "alone":
        return [old]
    full = [(c, v) for c, v in M.gen_options(rng, maxn=3, maxlen=12) if c != 12]
    while len(full) < 2:
        full.append((rng.choice((65001, 65534, 4, 11)), bytes(rng.getrandbits(8) for _ in range(rng.randint(0, 9)))))
    if where == "first":
        return [old] + full
    if where == "last":
        return full + [old]
    if where == "middle":
        i = rng.randint(1, len(full) - 1)
        return full[:i] + [old] + full[i:]
    return [old] + full + [(12, b"\x00" * rng.choice(_PREPAD_LENS + (rng.randint(2, 64),)))]


def _variant_options(rng, variant):
    if variant["opts"] == "prepad":
        return _prepad_options(rng, variant)
    return _empty_pattern_options(rng, variant["opts"])


def _empty_pattern_options(rng, pattern):
    """[(code, data)] holding at least one option with a zero-length payload.
    nsid: the single NSID request; empties: 2-5 empty options (codes may repeat);
    mixed: empty options scattered among non-empty ones; tail / head: an empty option
    after / before the non-empty ones (next to the padding option / the RR header)."""

    def empty():
        c = rng.choice(_EMPTY_CODES + (rng.randint(26, 65000),))
        return (c if c not in _SPECIAL_CODES else 65001, b"")

    if pattern == "nsid":
        return [(3, b"")]
    if pattern == "empties":
        return [empty() for _ in range(rng.randint(2, 5))]
    full = [(c, v) for c, v in M.gen_options(rng, maxn=3, maxlen=12) if v]
    if not full:
        full = [(65001, bytes(rng.getrandbits(8) for _ in range(rng.randint(1, 9))))]
    if pattern == "tail":
        return full + [empty()]
    if pattern == "head":
        return [empty()] + full
    out = list(full)
    for _ in range(rng.randint(1, 3)):
        out.insert(rng.randint(0, len(out)), empty())
    return out


class Subject:
    """One message + configuration, rendered without limit and analysed once."""

    def __init__(self, sub, huge=False, variant=None):
        """variant (None for the ordinary subjects): configuration of a subject of the
        zero-length-option class, {"opts": pattern, "tsig": bool, "pad": int, "generic": bool};
        EDNS is forced on, the option list is replaced by one of _EMPTY_PATTERNS, padding block
        and TSIG are as stated, and the message is kept small (580-1000 octets) so that
        every limit can be swept cheaply.  {"opts": "prepad", "padlen": n, "where": one of
        _PREPAD_WHERE, "tsig", "pad"}: the class whose option list already holds a PADDING
        option of n octets (see _prepad_options)."""
        self.sub = sub
        self.variant = variant
        rng = random.Random(sub)
        self.ok = False
        self.problem = None
        kind = rng.choice(("response",) * 5 + ("update", "update", "notify", "opcode"))
        if kind == "notify":
            kind = "opcode"
        mult = 1
        if huge:
            kind = "response"
        for _attempt in range(4):
            ms = (rng.randint(3, 8) * mult, rng.randint(2, 6) * mult, rng.randint(2, 6) * mult)
            want_edns = rng.random() < 0.7
            types = None
            if variant is not None:
                ms = (rng.randint(2, 4) * mult, rng.randint(1, 3) * mult, rng.randint(1, 3) * mult)
                want_edns = True
            if huge:
                ms = (180, 60, 40)
                types = (16, 16, 16, 15, 2)
            m = M.gen_message(
                rng,
                kind=kind,
                min_sets=ms,
                allow_case_mix=False,
                want_edns=want_edns,
                max_options_len=12,
                types=types,
            )
            m.flags &= ~TC
            if huge:
                self._inflate(rng, m)
            body = 12 + sum(
                (len(M.name_wire(r.owner_abs)) + 10) * max(1, len(r.rdatas)) + sum(len(rd.wire()) for rd in r.rdatas)
                for s in m.sections
                for r in s
            )
            if body > (1000 if variant is None else 700) or _attempt == 3:
                break
            mult *= 2
        self.m = m
        if variant is not None:
            m.options = _variant_options(rng, variant)
        # configuration
        self.pad = 0
        if variant is not None:
            self.pad = int(variant["pad"])
        elif m.edns >= 0 and rng.random() < 0.65:
            self.pad = rng.choice((16, 16, 128, 128, 468, 468, 1, 2, 3, 7, 255, 256, 512, rng.randint(1, 600)))
        self.tsig = None
        if bool(variant["tsig"]) if variant is not None else rng.random() < 0.5:
            alg, macsize = rng.choice(_ALGS)
            names = [r.owner_abs for s in m.sections for r in s]
            r = rng.random()
            if r < 0.3 or not names:
                kname = (b"tsig-key", b"elsewhere", b"")
            else:
                # biased to late record sets: the key name's suffix first occurs there
                base = names[min(len(names) - 1, int(len(names) * (0.4 + 0.6 * rng.random())))]
                kname = ((b"k",) + base) if r < 0.8 else base
                if len(M.name_wire(kname)) > 255:
                    kname = base
            secret = bytes(rng.getrandbits(8) for _ in range(rng.choice((16, 32, 64))))
            other = b""
            err = 0
            if rng.random() < 0.1:
                err, other = 18, struct.pack("!HI", 0, 1700000000)
            self.tsig = {
                "name": kname,
                "alg": alg,
                "mac": macsize,
                "secret": secret,
                "fudge": rng.choice((300, 600, 65535)),
                "error": err,
                "other": other,
            }
        self._build()

    @staticmethod
    def _inflate(rng, m):
        """Make the message larger than 65535 octets: every TXT record gets 255-octet strings."""
        txt = [r for s in (1, 2, 3) for r in m.sections[s] if r.rdtype == 16]
        if not txt:
            return
        per = min(200, -(-72000 // (256 * len(txt))))
        for r in txt:
            r.rdatas = [M.MRdata([("b", b"".join(b"\xff" + bytes([65 + (i % 26)]) * 255 for i in range(per + rng.randint(0, 1))))])]

    # ------------------------------------------------------------------ sizes from the RFCs
    def opt_size(self):
        """RFC 6891 6.1.2: root owner (1) + TYPE, CLASS, TTL, RDLEN (10) + options, each
        with a 4-octet header; a padding option (RFC 7830) contributes its header here."""
        m = self.m
        if m.edns < 0:
            return 0
        n = 11 + sum(4 + len(v) for _, v in m.options)
        if self.pad:
            n += 4
        return n

    def tsig_size(self, owner_len=None):
        """RFC 8945 4.2: owner + 10 + algorithm name + time(6) fudge(2) macsize(2) mac
        origid(2) error(2) otherlen(2) other."""
        t = self.tsig
        if t is None:
            return 0
        o = len(M.name_wire(t["name"])) if owner_len is None else owner_len
        return o + 10 + len(M.name_wire(t["alg"])) + 16 + t["mac"] + len(t["other"])

    # ------------------------------------------------------------------ library objects
    def _build(self):
        import dns.exception
        import dns.message
        import dns.name
        import dns.tsig

        m = self.m
        try:
            self.msg, self.origin = M.build_library_message(m, pad=self.pad)
            if self.variant is not None:
                # the zero-length options are handed over as GenericOption (for NSID: unless
                # the variant asks for the library's own NSIDOption class)
                import dns.edns

                opts = []
                for code, data in m.options:
                    if code == 12:
                        opts.append(dns.edns.GenericOption(dns.edns.OptionType.PADDING, data))
                    elif not data and (code != 3 or self.variant.get("generic", True)):
                        opts.append(dns.edns.GenericOption(code, b""))
                    else:
                        opts.append(dns.edns.option_from_wire(code, data, 0, len(data)))
                self.msg.use_edns(m.edns, m.ednsflags, m.payload, options=opts, pad=self.pad)
                self.msg.set_rcode(m.rcode)
            self.key = None
            if self.tsig is not None:
                t = self.tsig
                self.key = dns.tsig.Key(dns.name.Name(t["name"]), t["secret"], dns.name.Name(t["alg"]))
                self.msg.use_tsig(self.key, fudge=t["fudge"], tsig_error=t["error"], other_data=t["other"])
            self.kw = {"want_shuffle": False}
            if self.origin is not None and m.kind != "update":
                self.kw["origin"] = self.origin
            self.full = self.msg.to_wire(max_size=65535, **self.kw)
        except dns.exception.TooBig:
            # only the > 65535 subjects get here; analyse them without OPT padding/TSIG
            self.full = None
        except Exception as e:
            self.problem = f"building/rendering the unlimited message raised {type(e).__name__}: {e}"
            return
        self.groups = M.expected_section_groups(m)
        self.nsets = [len(g) for g in self.groups]
        self.flat_sets = [(s, g) for s in range(4) for g in self.groups[s]]
        self.n = len(self.flat_sets)
        self.n012 = sum(self.nsets[:3])
        if self.full is None:
            self.E = None
            self.ok = True
            return
        try:
            d = M.decode(self.full)
        except M.DecodeError as e:
            self.problem = f"independent decoder cannot walk the unlimited rendering: {e}"
            return
        self.full_dec = d
        # end offset of every record set, in rendering order
        E = [12]
        frames = [f for s in range(4) for f in d.sections[s]]
        i = 0
        okay = True
        for s, g in self.flat_sets:
            got = frames[i : i + len(g)]
            if len(got) != len(g) or [x.key() for x in got] != [x.key() for x in g]:
                okay = False
                break
            i += len(g)
            E.append(got[-1].end)
        if not okay:
            self.problem = "the unlimited rendering does not match the model (see C03)"
            return
        self.E = E
        self.body_frames = frames[:i]
        self.tail_frames = frames[i:]
        exp_tail = (1 if m.edns >= 0 else 0) + (1 if self.tsig else 0)
        if len(self.tail_frames) != exp_tail:
            self.problem = "the unlimited rendering does not end with the configured OPT/TSIG"
            return
        if self.variant is not None and not (_VARIANT_MIN <= self.E[-1] + self.opt_size() + self.tsig_size() <= _VARIANT_MAX):
            return  # not a finding: the driver draws another subject
        self.ok = True

    # ------------------------------------------------------------------ judging one output
    def expected_k(self, L):
        """Bounds for the number of record sets kept at limit L.
        must_keep: sets that fit even under the most pessimistic accounting of OPT
        (padding up to pad-1 octets) and TSIG (owner not compressed)."""
        # a whole padding block is allowed for, so that an implementation that reserves room
        # for the padding (any amount up to one block) is not faulted for it
        r_upper = self.opt_size() + self.pad + self.tsig_size()
        k = 0
        while k < self.n and self.E[k + 1] + r_upper <= L:
            k += 1
        return k

    def judge(self, w, L, pt, cache):
        """Findings for a returned wire `w` at limit L."""
        out = []
        m = self.m
        if len(w) > L:
            _f(
                out,
                "C08.within_limit",
                f"rendered {len(w)} octets with limit {L} (prefer_truncation={pt}, pad={self.pad}, tsig={'yes' if self.tsig else 'no'})",
                {"site": "Message.to_wire", "class": "output longer than the limit"},
            )
        ck = w  # with TSIG the MAC changes at most once a second, so hits stay frequent
        hit = cache.get(ck)
        if hit is None:
            hit = self._analyse(w)
            if len(cache) > 64:
                cache.clear()
            cache[ck] = hit
        structural, k, tsig_len = hit
        out.extend(structural)
        if self.pad and len(w) % self.pad != 0:
            saved = (self.tsig_size() - tsig_len) if (self.tsig and tsig_len) else 0
            if saved > 0 and (len(w) + saved) % self.pad == 0:
                _f(
                    out,
                    "C08.padding_multiple",
                    f"padding block {self.pad}: final length {len(w)} is not a multiple; the TSIG owner name was compressed ({saved} octets saved) after the padding had been sized for the uncompressed record",
                    SIG_PAD_TSIG,
                )
            elif any(c == 12 for c, _ in m.options):
                held = [len(v) for c, v in m.options if c == 12]
                _f(
                    out,
                    "C08.padding_multiple",
                    f"padding block {self.pad}: final length {len(w)} is not a multiple (tsig={'yes' if self.tsig else 'no'}); "
                    f"the option list already held PADDING option(s) of {held} octets ({len(m.options)} options in all), "
                    f"the length is {(-len(w)) % self.pad} short of / {len(w) % self.pad} past a multiple",
                    dict(SIG_PREPAD, tsig=bool(self.tsig)),
                )
            else:
                _f(
                    out,
                    "C08.padding_multiple",
                    f"padding block {self.pad}: final length {len(w)} is not a multiple (tsig={'yes' if self.tsig else 'no'})",
                    {"site": "Renderer.add_opt", "class": "length not a multiple of the block", "tsig": bool(self.tsig)},
                )
        if k is None:
            return out
        if not pt and k != self.n:
            _f(
                out,
                "C08.toobig_or_truncate",
                f"without prefer_truncation the output holds {k} of {self.n} record sets and no TooBig was raised",
                {"site": "Message.to_wire", "class": "silent truncation"},
            )
        must = self.expected_k(L)
        if k < must:
            _f(
                out,
                "C08.exact_fit",
                f"limit {L}: record set {k + 1} ends at {self.E[k + 1]} and fits with OPT {self.opt_size()} + TSIG {self.tsig_size()} (+pad {self.pad}) but was left out",
                {"site": "Renderer._track_size", "class": "a record set that fits was removed"},
            )
        return out

    def _analyse(self, w):
        """Structure of one output, independent of the limit: (findings, k or None)."""
        out = []
        m = self.m
        dec = M.WireDecoder(w)
        try:
            d = dec.message()
        except M.DecodeError as e:
            if dec.problems:
                _f(
                    out,
                    "C08.no_dangling_pointer",
                    f"independent decoder: {dec.problems[0]}",
                    {"site": "Renderer._rollback", "class": "compression pointer into removed or foreign octets"},
                )
            else:
                _f(
                    out,
                    "C08.parseable",
                    f"independent decoder cannot walk the output: {e}",
                    {"site": "Message.to_wire", "class": "output not a well-formed message"},
                )
            return out, None, 0
        if d.problems:
            _f(
                out,
                "C08.no_dangling_pointer",
                f"independent decoder: {d.problems[0]}",
                {"site": "Renderer._rollback", "class": "compression pointer into removed or foreign octets"},
            )
        frames = [f for s in range(4) for f in d.sections[s]]
        tail = (1 if m.edns >= 0 else 0) + (1 if self.tsig else 0)
        if len(frames) < tail:
            _f(
                out,
                "C08.opt_tsig_kept",
                "the configured OPT/TSIG records are missing from the output",
                {"site": "Message.to_wire", "class": "OPT/TSIG missing"},
            )
            return out, None, 0
        body = frames[: len(frames) - tail]
        tailf = frames[len(frames) - tail :]
        # ---- prefix of whole record sets
        j = len(body)
        k = None
        acc = 0
        for idx, (s, g) in enumerate(self.flat_sets):
            if acc == j:
                k = idx
                break
            acc += len(g)
        if k is None and acc == j:
            k = self.n
        if k is None:
            _f(
                out,
                "C08.whole_sets",
                f"the output holds {j} records, which is not a whole number of leading record sets",
                {"site": "Renderer._track_size", "class": "partial record set"},
            )
            return out, None, 0
        if [f.key() for f in body] != [f.key() for f in self.body_frames[:j]] or w[12 : self.E[k]] != self.full[12 : self.E[k]]:
            _f(
                out,
                "C08.prefix",
                f"the {j} records of the output are not the first {j} records of the message",
                {"site": "Message.to_wire", "class": "not a prefix"},
            )
            return out, None, 0
        # ---- counts consistent (sections of the prefix + OPT + TSIG)
        exp_counts = [0, 0, 0, 0]
        for s, g in self.flat_sets[:k]:
            exp_counts[s] += len(g)
        exp_counts[3] += tail
        if list(d.counts) != exp_counts:
            _f(
                out,
                "C08.counts",
                f"header counts {d.counts}, records present {tuple(exp_counts)}",
                {"site": "Renderer.counts", "class": "count != records"},
            )
        # ---- TC exactly when something before the additional section was left out
        want_tc = k < self.n012
        exp_flags = m.wire_flags() | (TC if want_tc else 0)
        if d.flags != exp_flags or d.id != m.id:
            what = "TC" if (d.flags ^ exp_flags) == TC else "header"
            _f(
                out,
                "C08.tc_exact",
                f"{k} of {self.n} sets kept ({self.n012} before ADDITIONAL): flags {d.flags:#06x}, expected {exp_flags:#06x}",
                {"site": "Message.to_wire", "class": f"{what} wrong", "tc_expected": want_tc},
            )
        # ---- OPT and TSIG still there
        ti = 0
        if m.edns >= 0:
            got = tailf[ti]
            ti += 1
            good = got.rdtype == 41 and got.owner == (b"",) and got.rdclass == m.payload
            exp = m.expected_opt_frame()
            if good:
                good = got.ttl == exp.ttl
            if good:
                rd = got.fields[0][1] if got.fields else b""
                base = exp.fields[0][1] if exp.fields else b""
                if self.pad:
                    good = rd.startswith(base) and len(rd) >= len(base) + 4
                    if good:
                        code, ln = struct.unpack("!HH", rd[len(base) : len(base) + 4])
                        good = code == 12 and ln == len(rd) - len(base) - 4 and ln < self.pad
                else:
                    good = rd == base
            if not good:
                sig = {"site": "Renderer.add_opt", "class": "OPT differs"}
                rd = got.fields[0][1] if got.rdtype == 41 and got.fields else b""
                kept = b"".join(struct.pack("!HH", c, len(v)) + v for c, v in m.options if c != 12)
                if got.rdtype == 41 and self.pad and any(c == 12 for c, _ in m.options) and rd.startswith(kept) and rd[len(kept) : len(kept) + 2] == b"\x00\x0c":
                    # the same OPT with the PADDING option(s) of the option list left out
                    sig = {"site": "Renderer.add_opt", "class": "OPT differs: the PADDING option already in the option list is missing from the rendered OPT"}
                elif got.rdtype == 41 and any(not v for _, v in m.options):
                    # the same OPT with every zero-length option left out?
                    rd = got.fields[0][1] if got.fields else b""
                    stripped = b"".join(struct.pack("!HH", c, len(v)) + v for c, v in m.options if v)
                    if rd == stripped or (self.pad and rd.startswith(stripped) and rd[len(stripped) : len(stripped) + 2] == b"\x00\x0c"):
                        sig = SIG_EMPTY_DROPPED
                _f(
                    out,
                    "C08.opt_tsig_kept",
                    f"OPT record in the output {got.describe()} is not the configured one {exp.describe()} (+padding {self.pad})",
                    sig,
                )
        if self.tsig:
            got = tailf[ti]
            t = self.tsig
            good = got.rdtype == 250 and got.rdclass == 255 and got.ttl == 0 and M.lower_labels(got.owner) == M.lower_labels(t["name"])
            if good and got.owner != t["name"]:
                good = False
            if good:
                f = got.fields
                good = len(f) == 2 and f[0][0] == "n" and M.lower_labels(f[0][1]) == M.lower_labels(t["alg"])
                if good:
                    rest = f[1][1]
                    good = len(rest) == 16 + t["mac"] + len(t["other"])
                    if good:
                        fudge, macsize = struct.unpack("!HH", rest[6:10])
                        oid, err, olen = struct.unpack("!HHH", rest[10 + macsize : 16 + macsize]) if macsize == t["mac"] else (None, None, None)
                        good = (
                            fudge == t["fudge"]
                            and macsize == t["mac"]
                            and oid == m.id
                            and err == t["error"]
                            and olen == len(t["other"])
                        )
            if not good:
                _f(
                    out,
                    "C08.opt_tsig_kept",
                    f"the last record {got.describe()} is not the configured TSIG",
                    {"site": "Message.to_wire", "class": "TSIG differs"},
                )
        # ---- the library itself must be able to parse its output
        import dns.message

        try:
            kr = None
            if self.tsig:
                kr = self.key if self.tsig["error"] == 0 else False
            p = dns.message.from_wire(w, keyring=kr)
            pc = [p.section_count(s) for s in range(4)]
            problems = []
            if pc != list(d.counts):
                problems.append(f"section counts {pc} vs header {d.counts}")
            if bool(int(p.flags) & TC) != want_tc:
                problems.append("TC flag of the parsed message")
            if (p.opt is not None) != (m.edns >= 0):
                problems.append("OPT presence")
            if bool(p.had_tsig) != bool(self.tsig):
                problems.append("TSIG presence")
            sets = [len(p.sections[s]) for s in range(4)]
            if m.kind != "update":
                exp_sets = [0, 0, 0, 0]
                for s, g in self.flat_sets[:k]:
                    exp_sets[s] += 1
                if sets != exp_sets:
                    problems.append(f"record sets per section {sets} vs {exp_sets}")
            if problems:
                _f(
                    out,
                    "C08.parseable",
                    "the output parses but the parsed message disagrees: " + "; ".join(problems),
                    {"site": "dns.message.from_wire(output)", "class": "parsed message inconsistent"},
                )
        except Exception as e:
            _f(
                out,
                "C08.parseable",
                f"dns.message.from_wire rejects the output: {type(e).__name__}: {e}",
                {"site": "dns.message.from_wire(output)", "exc": type(e).__name__},
            )
        return out, k, (tailf[-1].end - tailf[-1].start) if self.tsig else 0

    # ------------------------------------------------------------------ one limit
    def check_limit(self, L, pt, route, cache):
        """route: 'max_size' | 'payload' (max_size=0, request_payload=L)."""
        import dns.exception

        out = []
        msg = self.msg
        try:
            if route == "payload":
                saved = msg.request_payload
                msg.request_payload = L
                try:
                    w = msg.to_wire(prefer_truncation=pt, **self.kw)
                finally:
                    msg.request_payload = saved
            else:
                w = msg.to_wire(max_size=L, prefer_truncation=pt, **self.kw)
        except dns.exception.TooBig:
            if pt:
                if self.pad and self._explained_by_padding(L):
                    _f(
                        out,
                        "C08.toobig_or_truncate",
                        f"limit {L}, pad {self.pad}: TooBig although truncation was preferred",
                        SIG_F12,
                    )
                else:
                    _f(
                        out,
                        "C08.toobig_or_truncate",
                        f"limit {L}: TooBig although truncation was preferred and padding (block {self.pad}) does not explain it; tsig={'yes' if self.tsig else 'no'}",
                        {"site": "dns.message.Message.to_wire", "exc": "TooBig", "class": "prefer_truncation=True, not explained by padding"},
                    )
            else:
                # legitimate unless the whole message fits under the most pessimistic accounting
                if self.expected_k(L) == self.n:
                    _f(
                        out,
                        "C08.exact_fit",
                        f"limit {L}: TooBig although the message ({self.E[-1]} + OPT {self.opt_size()} + TSIG {self.tsig_size()} + pad<{self.pad}) fits",
                        {"site": "Renderer._track_size", "class": "TooBig for a message that fits"},
                    )
            return out, "toobig"
        except Exception as e:
            _f(
                out,
                "C08.toobig_or_truncate",
                f"limit {L}: to_wire raised {type(e).__name__}: {e}",
                {"site": "dns.message.Message.to_wire", "exc": type(e).__name__},
            )
            return out, "error"
        out.extend(self.judge(w, L, pt, cache))
        return out, "returned"

    def _explained_by_padding(self, L):
        """TooBig under prefer_truncation is the recorded padding question (F12) exactly when
        the record sets that fit beside the reserved OPT/TSIG sizes, once padded up to the
        block size, exceed L."""
        r = self.opt_size() + self.tsig_size()
        k = 0
        while k < self.n and self.E[k + 1] + r <= L:
            k += 1
        total = self.E[k] + r
        return total + (-total) % self.pad > L

    # ------------------------------------------------------------------ limits
    def boundary_limits(self):
        r_lo = self.opt_size() + self.tsig_size(owner_len=2)
        r = self.opt_size() + self.tsig_size()
        r_hi = r + self.pad
        top = len(self.full) + 1
        s = {512, 513, len(self.full) - 1, len(self.full), len(self.full) + 1}
        for e in self.E:
            for rr in (r_lo, r, r_hi):
                for dlt in (-1, 0, 1):
                    s.add(e + rr + dlt)
        if self.pad:
            for e in self.E[:: max(1, len(self.E) // 6)]:
                b = ((e + r) // self.pad + 1) * self.pad
                s.update((b - 1, b, b + 1))
        return sorted(x for x in s if 512 <= x <= max(top, 513) + 16)

    # ------------------------------------------------------------------ low-level renderer
    def check_renderer(self, L):
        """Drive dns.renderer.Renderer directly, continue after TooBig: every accepted set
        must be whole, counts exact, no pointer into removed octets, length <= L."""
        import dns.exception
        import dns.renderer

        out = []
        m = self.m
        msg = self.msg
        origin = self.origin
        r = dns.renderer.Renderer(m.id, m.wire_flags(), L, origin)
        kept = []
        dropped = 0
        try:
            for idx, (s, g) in enumerate(self.flat_sets):
                rr = self._lib_set(idx)
                try:
                    if s == 0:
                        r.add_question(rr.name, rr.rdtype, rr.rdclass)
                    else:
                        r.add_rrset(s, rr, want_shuffle=False)
                    kept.append((s, g))
                except dns.exception.TooBig:
                    dropped += 1
            r.write_header()
            w = r.get_wire()
        except Exception as e:
            _f(
                out,
                "C08.rollback_whole",
                f"Renderer raised {type(e).__name__}: {e} at max_size {L}",
                {"site": "dns.renderer.Renderer", "exc": type(e).__name__},
            )
            return out, dropped
        if len(w) > L:
            _f(
                out,
                "C08.within_limit",
                f"Renderer(max_size={L}) produced {len(w)} octets",
                {"site": "dns.renderer.Renderer", "class": "output longer than max_size"},
            )
        dec = M.WireDecoder(w)
        try:
            d = dec.message()
        except M.DecodeError as e:
            cl = "C08.no_dangling_pointer" if dec.problems else "C08.rollback_whole"
            _f(
                out,
                cl,
                f"after {dropped} rollbacks the independent decoder fails: {dec.problems[0] if dec.problems else e}",
                {"site": "Renderer._rollback", "class": "compression pointer into removed or foreign octets" if dec.problems else "buffer not restored"},
            )
            return out, dropped
        if d.problems:
            _f(
                out,
                "C08.no_dangling_pointer",
                f"after {dropped} rollbacks: {d.problems[0]}",
                {"site": "Renderer._rollback", "class": "compression pointer into removed or foreign octets"},
            )
        exp_counts = [0, 0, 0, 0]
        exp_frames = [[], [], [], []]
        for s, g in kept:
            exp_counts[s] += len(g)
            exp_frames[s].extend(g)
        if list(d.counts) != exp_counts:
            _f(
                out,
                "C08.counts",
                f"Renderer header counts {d.counts}, accepted records {tuple(exp_counts)}",
                {"site": "Renderer.counts", "class": "count != records"},
            )
        else:
            for s in range(4):
                if [f.key() for f in d.sections[s]] != [f.key() for f in exp_frames[s]]:
                    _f(
                        out,
                        "C08.rollback_whole",
                        f"after {dropped} rollbacks section {s} does not hold exactly the accepted record sets",
                        {"site": "Renderer._rollback", "class": "accepted records differ"},
                    )
                    break
        return out, dropped

    def _lib_set(self, idx):
        """The library RRset that corresponds to flat set number idx."""
        if not hasattr(self, "_libsets"):
            self._libsets = [rr for s in range(4) for rr in self.msg.sections[s]]
        return self._libsets[idx]


# ----------------------------------------------------------------------------- driver


def _stop(R):
    return R.deadline() or R.elapsed() > 0.88 * R.budget_s


_MSG_CLAUSES = (
    "C08.within_limit",
    "C08.toobig_or_truncate",
    "C08.parseable",
    "C08.whole_sets",
    "C08.prefix",
    "C08.counts",
    "C08.tc_exact",
    "C08.opt_tsig_kept",
    "C08.no_dangling_pointer",
    "C08.padding_multiple",
    "C08.exact_fit",
)


def _record(R, subj, findings, desc):
    for f in findings:
        R.violation(f["clause"], f["what"], sig=f["sig"], replay={"desc": desc, "clause": f["clause"], "sig": f["sig"]})


def _sweep(R, subj, limits, stats):
    cache = {}
    sub = subj.sub
    for L in limits:
        if _stop(R):
            return False
        for pt in (False, True):
            desc = {"sub": sub, "L": L, "pt": pt, "route": "max_size", "huge": False, "variant": subj.variant}
            findings, outcome = subj.check_limit(L, pt, "max_size", cache)
            stats[outcome] = stats.get(outcome, 0) + 1
            truncating = L < len(subj.full)
            key = (sub, L, pt)
            R.case("C08.within_limit", key=key, nontrivial=outcome == "returned")
            R.case("C08.toobig_or_truncate", key=key, nontrivial=truncating)
            R.case("C08.exact_fit", key=key, nontrivial=truncating)
            if outcome == "returned":
                for c in ("C08.parseable", "C08.whole_sets", "C08.prefix", "C08.counts"):
                    R.case(c, key=key, nontrivial=truncating)
                R.case("C08.tc_exact", key=key, nontrivial=truncating and pt)
                R.case("C08.opt_tsig_kept", key=key, nontrivial=truncating and (subj.m.edns >= 0 or subj.tsig is not None))
                R.case("C08.no_dangling_pointer", key=key, nontrivial=truncating and subj.tsig is not None and not subj.pad)
                if subj.pad:
                    R.case("C08.padding_multiple", key=key)
            _record(R, subj, findings, desc)
    return True


def _describe(subj):
    return {
        "sub": subj.sub,
        "kind": subj.m.kind,
        "sets": subj.n,
        "octets": len(subj.full) if subj.full else ">65535",
        "edns": subj.m.edns,
        "options": len(subj.m.options),
        "pad": subj.pad,
        "tsig": None if subj.tsig is None else [l.decode("latin-1") for l in subj.tsig["name"]],
        **({} if subj.variant is None else {"variant": subj.variant, "option_list": [[c, len(v)] for c, v in subj.m.options]}),
    }


def run(R):
    random.seed(R.seed * 104729 + 3)
    n_full = 10 if R.quick else 150
    n_bound = 62 if R.quick else 2500
    n_huge = 1 if R.quick else 4
    stats = {}
    subjects = 0
    unusable = 0

    def new_subject(huge=False, variant=None, rng=None):
        nonlocal unusable
        for _ in range(5 if variant is None else 12):
            sub = (rng or R.rng).getrandbits(48)
            try:
                s = Subject(sub, huge=huge, variant=variant)
            except Exception as e:
                R.note(f"generator failed for sub={sub}: {type(e).__name__}: {e}")
                continue
            if s.problem:
                # the unlimited rendering is C03's subject; here it is a precondition
                R.violation(
                    "C08.parseable",
                    s.problem,
                    sig={"site": "Message.to_wire(unlimited)", "class": "precondition failed"},
                    replay={"desc": {"sub": sub, "L": 65535, "pt": False, "route": "max_size", "huge": huge, "variant": variant}, "clause": "C08.parseable", "sig": {"site": "Message.to_wire(unlimited)", "class": "precondition failed"}},
                )
                unusable += 1
                continue
            if s.ok:
                return s
        return None

    # ---- messages beyond 65535 octets: the effective limit is clamped to 65535
    for _ in range(n_huge):
        if _stop(R):
            break
        s = new_subject(huge=True)
        if s is None:
            continue
        _huge(R, s)

    # ---- OPT records holding zero-length options (own generator: the draws of R.rng, and so
    # the ordinary subjects of a given seed, are the same as without this block)
    _empty_option_cases(R, new_subject)

    # ---- option lists that already hold a PADDING option while padding is requested, and the
    # flow "parse a padded query, re-send its options with pad=block" (own generators as well)
    _prepadded_cases(R, new_subject)
    _resend_cases(R)

    # ---- boundary limits + request_payload route + low-level renderer, many subjects
    for i in range(n_bound + n_full):
        if _stop(R):
            R.note(f"time budget reached after {i} subjects")
            break
        s = new_subject()
        if s is None:
            continue
        subjects += 1
        full_sweep = i % ((n_bound + n_full) // n_full) == 0
        if full_sweep:
            limits = range(512, len(s.full) + 17)
        else:
            limits = s.boundary_limits()
        R.sample("C08.prefix", dict(_describe(s), limits=len(limits), sweep="every limit" if full_sweep else "boundaries"))
        if not _sweep(R, s, limits, stats):
            break
        # request_payload as the effective limit
        bl = s.boundary_limits()
        cache = {}
        for L in R.rng.sample(bl, min(6, len(bl))):
            if L > 65535:
                continue
            for pt in (False, True):
                desc = {"sub": s.sub, "L": L, "pt": pt, "route": "payload", "huge": False}
                findings, outcome = s.check_limit(L, pt, "payload", cache)
                R.case("C08.within_limit", key=(s.sub, L, pt, "payload"), nontrivial=outcome == "returned")
                _record(R, s, findings, desc)
        # low-level renderer with rollback and continuation
        rl = [L for L in bl if L < len(s.full)]
        for L in R.rng.sample(rl, min(12 if not full_sweep else 40, len(rl))):
            desc = {"sub": s.sub, "L": L, "pt": False, "route": "renderer", "huge": False}
            findings, dropped = s.check_renderer(L)
            R.case("C08.rollback_whole", key=(s.sub, L), nontrivial=dropped > 0)
            R.case("C08.no_dangling_pointer", key=(s.sub, L, "renderer"), nontrivial=dropped > 0)
            _record(R, s, findings, desc)
    R.note(f"subjects {subjects}, outcomes {stats}, unusable {unusable}")


def _empty_option_plan(quick, vr):
    """(variant, sweep) list; sweep is 'every' (every limit 512..len+16) or 'bounds'."""
    pats = list(_EMPTY_PATTERNS)
    vr.shuffle(pats)
    plan = []
    n = [0]

    def add(tsig, pad, sweep, pattern=None):
        if pattern is None:
            pattern = pats[n[0] % len(pats)]
        n[0] += 1
        generic = True if pattern == "nsid" and tsig is False and pad == 0 else vr.random() < 0.6
        plan.append(({"opts": pattern, "tsig": tsig, "pad": pad, "generic": generic}, sweep))

    other_pads = (1, 2, 3, 7, 255, 256, 512)
    for rep in range(1 if quick else 5):
        # every limit, no padding: (prefer_truncation off/on) x TSIG off/on
        add(False, 0, "every", "nsid" if rep == 0 else None)
        add(True, 0, "every", vr.choice(("mixed", "empties")) if rep == 0 else None)
        # every limit with padding
        add(False, 16 if quick else vr.choice((16, 128)), "every")
        add(True, vr.choice((16, 128)), "every")
        if not quick:
            add(False, 0, "every")
            add(True, 0, "every")
            add(False, vr.choice(other_pads + (128, 468)), "every")
            add(True, vr.choice(other_pads + (468,)), "every")
    # padding cases at the boundary limits
    if quick:
        pads = [16, 128, 128, 468, 468] + vr.sample(other_pads, 2) + [vr.randint(1, 600)]
        tsigs = [True, False, True, False, True] + [vr.random() < 0.5 for _ in range(3)]
        for pad, tsig in zip(pads, tsigs):
            add(tsig, pad, "bounds")
    else:
        for rep in range(6):
            for pad in (16, 128, 468) + other_pads + (vr.randint(1, 600),):
                for tsig in (False, True):
                    add(tsig, pad, "bounds")
    return plan


def _empty_option_cases(R, new_subject):
    """Subjects whose OPT holds options with a zero-length payload (alone, several, mixed
    with non-empty ones): every-limit sweeps and padding cases, judged by the same clauses."""
    vr = random.Random(R.seed * 7919 + 0xC08)
    stats = {}
    done = 0
    for variant, sweep in _empty_option_plan(R.quick, vr):
        if _stop(R):
            R.note(f"time budget reached after {done} zero-length-option subjects")
            break
        s = new_subject(variant=variant, rng=vr)
        if s is None:
            R.note(f"no usable zero-length-option subject for {variant}")
            continue
        if not any(not v for _, v in s.m.options) or s.m.edns < 0:
            R.note(f"harness: sub={s.sub} {variant} has no zero-length option")
            continue
        done += 1
        limits = range(512, len(s.full) + 17) if sweep == "every" else s.boundary_limits()
        R.sample("C08.opt_tsig_kept", dict(_describe(s), limits=len(limits), sweep="every limit" if sweep == "every" else "boundaries"))
        if not _sweep(R, s, limits, stats):
            break
        bl = s.boundary_limits()
        cache = {}
        for L in vr.sample(bl, min(4, len(bl))):
            for pt in (False, True):
                desc = {"sub": s.sub, "L": L, "pt": pt, "route": "payload", "huge": False, "variant": variant}
                findings, outcome = s.check_limit(L, pt, "payload", cache)
                R.case("C08.within_limit", key=(s.sub, L, pt, "payload"), nontrivial=outcome == "returned")
                _record(R, s, findings, desc)
    R.note(f"zero-length-option subjects {done}, outcomes {stats}")


def _prepad_plan(quick, vr):
    """(variant, sweep) list for the class 'the option list already holds a PADDING option'."""
    plan = []

    def add(n, where, tsig, pad, sweep):
        plan.append(({"opts": "prepad", "padlen": n, "where": where, "tsig": tsig, "pad": pad, "generic": True}, sweep))

    other_pads = (1, 2, 3, 7, 255, 256, 512)
    if quick:
        add(vr.choice((1, 7, 33)), vr.choice(("last", "middle", "alone")), False, vr.choice((16, 32)), "every")
        wheres = list(_PREPAD_WHERE) * 2
        lens = list(_PREPAD_LENS) * 2 + [33, 7]
        blocks = list(_PREPAD_BLOCKS) * 2 + [32, 468]
        tsigs = [False, True] * 5
        for x in (wheres, lens, blocks, tsigs):
            vr.shuffle(x)
        for n, where, tsig, pad in zip(lens, wheres, tsigs, blocks):
            add(n, where, tsig, pad, "bounds")
        return plan
    for rep in range(8):
        add(vr.choice(_PREPAD_LENS), vr.choice(_PREPAD_WHERE), rep % 2 == 1, vr.choice(_PREPAD_BLOCKS + (vr.choice(other_pads),)), "every")
    i = 0
    for rep in range(2):
        for where in _PREPAD_WHERE:
            for tsig in (False, True):
                for pad in _PREPAD_BLOCKS + other_pads + (vr.randint(1, 600),):
                    n = (_PREPAD_LENS + (vr.randint(2, 64), vr.randint(2, 64)))[i % 6]
                    i += 1
                    add(n, where, tsig, pad, "bounds")
    return plan


def _prepadded_cases(R, new_subject):
    """Subjects whose option list already holds a PADDING option (code 12) while padding is
    requested: the pre-existing option is ordinary option data (4+n octets, kept), a new one is
    appended, and the final length, TSIG included, is a multiple of the block."""
    vr = random.Random(R.seed * 7927 + 0xC08C)
    stats = {}
    done = 0
    for variant, sweep in _prepad_plan(R.quick, vr):
        if _stop(R):
            R.note(f"time budget reached after {done} pre-existing-padding subjects")
            break
        s = new_subject(variant=variant, rng=vr)
        if s is None:
            R.note(f"no usable pre-existing-padding subject for {variant}")
            continue
        if not any(c == 12 for c, _ in s.m.options) or s.m.edns < 0 or not s.pad:
            R.note(f"harness: sub={s.sub} {variant} has no pre-existing PADDING option")
            continue
        done += 1
        limits = range(512, len(s.full) + 17) if sweep == "every" else s.boundary_limits()
        R.sample("C08.padding_multiple", dict(_describe(s), limits=len(limits), sweep="every limit" if sweep == "every" else "boundaries"))
        if not _sweep(R, s, limits, stats):
            break
        bl = s.boundary_limits()
        cache = {}
        for L in vr.sample(bl, min(4, len(bl))):
            for pt in (False, True):
                desc = {"sub": s.sub, "L": L, "pt": pt, "route": "payload", "huge": False, "variant": variant}
                findings, outcome = s.check_limit(L, pt, "payload", cache)
                R.case("C08.within_limit", key=(s.sub, L, pt, "payload"), nontrivial=outcome == "returned")
                if outcome == "returned":
                    R.case("C08.padding_multiple", key=(s.sub, L, pt, "payload"))
                _record(R, s, findings, desc)
    R.note(f"pre-existing-padding subjects {done}, outcomes {stats}")


# ----------------------------------------------------------------------------- re-send flow
_RESEND_AS = ("query", "response", "same")


def _resend_flow(desc):
    """A padded query is rendered and parsed; its received.options (which hold the PADDING option)
    are handed to use_edns(options=received.options, pad=block) on a new query / on
    make_response(received) / on the parsed message itself, which is rendered again.
    Returns (findings, reached): both renderings must be a multiple of their block and parse."""
    import dns.edns
    import dns.message
    import dns.name
    import dns.tsig

    out = []
    rng = random.Random(desc["sub"])
    pad1, block, tsig, as_ = int(desc["pad1"]), int(desc["block"]), bool(desc["tsig"]), desc["as"]
    labels = tuple(bytes(rng.choice(b"abcdefghijklmnopqrstuvwxyz0123456789-") for _ in range(rng.randint(1, 20))) for _ in range(rng.randint(1, 5)))
    qname = dns.name.Name(labels + (b"",))
    rdtype = rng.choice((1, 28, 15, 16, 33, 65, 255))
    extra = []
    for code, data in M.gen_options(rng, maxn=2, maxlen=12):
        if code != 12:
            extra.append(dns.edns.GenericOption(code, data) if not data else dns.edns.option_from_wire(code, data, 0, len(data)))
    key = None
    if tsig:
        alg, _macsize = rng.choice(_ALGS)
        # unrelated to the question name: nothing of the key name can be compressed
        key = dns.tsig.Key(dns.name.Name((b"tsig-key", b"elsewhere", b"")), bytes(rng.getrandbits(8) for _ in range(32)), dns.name.Name(alg))

    def multiple(w, blk, step, held):
        if len(w) % blk:
            if held:
                _f(
                    out,
                    "C08.padding_multiple",
                    f"re-send flow ({step}, as {as_}): use_edns(options=received.options, pad={blk}) with received PADDING option(s) of {held} octets "
                    f"rendered {len(w)} octets, {(-len(w)) % blk} short of a multiple (tsig={'yes' if tsig else 'no'})",
                    dict(SIG_PREPAD, tsig=tsig),
                )
            else:
                _f(
                    out,
                    "C08.padding_multiple",
                    f"re-send flow ({step}): padding block {blk}: final length {len(w)} is not a multiple (tsig={'yes' if tsig else 'no'})",
                    {"site": "Renderer.add_opt", "class": "length not a multiple of the block", "tsig": tsig},
                )

    def parses(w, step, **kw):
        try:
            d = M.decode(w)
            if d.problems:
                raise M.DecodeError(d.problems[0])
        except M.DecodeError as e:
            _f(out, "C08.parseable", f"re-send flow ({step}): independent decoder cannot walk the output: {e}", {"site": "Message.to_wire", "class": "output not a well-formed message"})
            return None
        try:
            return dns.message.from_wire(w, **kw)
        except Exception as e:
            _f(out, "C08.parseable", f"re-send flow ({step}): dns.message.from_wire rejects the output: {type(e).__name__}: {e}", {"site": "dns.message.from_wire(output)", "exc": type(e).__name__})
            return None

    try:
        q = dns.message.make_query(qname, rdtype, use_edns=0, options=extra, pad=pad1, id=rng.getrandbits(16))
        if key is not None:
            q.use_tsig(key)
        w1 = q.to_wire()
    except Exception as e:
        _f(out, "C08.toobig_or_truncate", f"re-send flow: rendering the padded query raised {type(e).__name__}: {e}", {"site": "dns.message.Message.to_wire", "exc": type(e).__name__})
        return out, False
    multiple(w1, pad1, "first rendering", [])
    received = parses(w1, "first rendering", keyring=key)
    if received is None:
        return out, False
    held = [len(o.to_wire()) for o in received.options if int(o.otype) == 12]
    if not held:
        return out, False  # the judge of the first rendering has said why
    try:
        kw = {}
        if as_ == "query":
            m2 = dns.message.make_query(qname, rdtype, id=received.id)
            if key is not None:
                m2.use_tsig(key)
        elif as_ == "response":
            m2 = dns.message.make_response(received)
            if key is not None:
                kw["request_mac"] = received.mac
        else:
            m2 = received
            if key is not None:
                m2.use_tsig(key)
        m2.use_edns(0, options=received.options, pad=block)
        w2 = m2.to_wire()
    except Exception as e:
        _f(out, "C08.toobig_or_truncate", f"re-send flow (as {as_}): rendering with the received options raised {type(e).__name__}: {e}", {"site": "dns.message.Message.to_wire", "exc": type(e).__name__, "class": "received options re-sent"})
        return out, True
    multiple(w2, block, "second rendering", held)
    p2 = parses(w2, "second rendering", keyring=key, **kw)
    if p2 is not None and (p2.opt is None or bool(p2.had_tsig) != tsig or p2.question != m2.question):
        _f(out, "C08.parseable", f"re-send flow (as {as_}): the second rendering parses but OPT/TSIG/question disagree", {"site": "dns.message.from_wire(output)", "class": "parsed message inconsistent"})
    return out, True


def _resend_cases(R):
    vr = random.Random(R.seed * 7933 + 0xC08D)
    done = reached = 0
    for rep in range(3 if R.quick else 40):
        for tsig in (False, True):
            for block in _PREPAD_BLOCKS + (vr.randint(1, 600),):
                for as_ in _RESEND_AS:
                    if _stop(R):
                        R.note(f"time budget reached after {done} re-send flows")
                        return
                    pad1 = vr.choice(_PREPAD_BLOCKS + (vr.randint(2, 600),))
                    desc = {"route": "resend", "sub": vr.getrandbits(48), "pad1": pad1, "block": block, "tsig": tsig, "as": as_}
                    try:
                        findings, ok = _resend_flow(desc)
                    except Exception as e:
                        R.note(f"harness error in the re-send flow {desc}: {type(e).__name__}: {e}")
                        continue
                    done += 1
                    reached += ok
                    key = ("resend", desc["sub"], pad1, block, tsig, as_)
                    R.case("C08.padding_multiple", key=key, nontrivial=ok)
                    R.case("C08.parseable", key=key, nontrivial=ok)
                    if done <= 2:
                        R.sample("C08.padding_multiple", desc)
                    for f in findings:
                        R.violation(f["clause"], f["what"], sig=f["sig"], replay={"desc": desc, "clause": f["clause"], "sig": f["sig"]})
    R.note(f"re-send flows {done}, of which {reached} re-sent a received PADDING option")


def _huge(R, s):
    """A message that cannot fit 65535 octets: max_size=0 (and > 65535) must clamp."""
    import dns.exception
    import dns.message

    m = s.m
    if s.full is not None:
        R.note(f"sub={s.sub}: the 'huge' subject is only {len(s.full)} octets; skipped")
        return
    for max_size, pt in ((0, False), (0, True), (70000, True), (100000, False)):
        desc = {"sub": s.sub, "L": max_size, "pt": pt, "route": "max_size", "huge": True}
        key = (s.sub, max_size, pt, "huge")
        saved = s.msg.request_payload
        s.msg.request_payload = 0
        try:
            w = s.msg.to_wire(max_size=max_size, prefer_truncation=pt, **s.kw)
            outcome = "returned"
        except dns.exception.TooBig:
            outcome = "toobig"
        except Exception as e:
            outcome = "error"
            R.violation(
                "C08.toobig_or_truncate",
                f"a message larger than 65535 octets: to_wire(max_size={max_size}) raised {type(e).__name__}: {e}",
                sig={"site": "dns.message.Message.to_wire", "exc": type(e).__name__, "class": "message larger than 65535"},
                replay={"desc": desc, "clause": "C08.toobig_or_truncate", "sig": {}},
            )
        finally:
            s.msg.request_payload = saved
        R.case("C08.within_limit", key=key, nontrivial=True)
        R.case("C08.toobig_or_truncate", key=key, nontrivial=True)
        if outcome == "toobig" and pt and not s.pad:
            R.violation(
                "C08.toobig_or_truncate",
                f"a message larger than 65535 octets: TooBig although truncation was preferred (max_size={max_size})",
                sig={"site": "dns.message.Message.to_wire", "exc": "TooBig", "class": "prefer_truncation=True, not explained by padding"},
                replay={"desc": desc, "clause": "C08.toobig_or_truncate", "sig": {}},
            )
        if outcome == "toobig" and pt and s.pad:
            R.violation("C08.toobig_or_truncate", f"limit 65535, pad {s.pad}: TooBig although truncation was preferred", sig=SIG_F12, replay={"desc": desc, "clause": "C08.toobig_or_truncate", "sig": SIG_F12})
        if outcome != "returned":
            continue
        if len(w) > 65535:
            R.violation(
                "C08.within_limit",
                f"to_wire(max_size={max_size}) returned {len(w)} octets; the effective limit is 65535",
                sig={"site": "Message.to_wire", "class": "output longer than the limit"},
                replay={"desc": desc, "clause": "C08.within_limit", "sig": {}},
            )
            continue
        if not pt:
            R.violation(
                "C08.toobig_or_truncate",
                "a message that cannot fit 65535 octets was returned without prefer_truncation",
                sig={"site": "Message.to_wire", "class": "silent truncation"},
                replay={"desc": desc, "clause": "C08.toobig_or_truncate", "sig": {}},
            )
            continue
        # structure of the truncated output
        try:
            d = M.decode(w)
            flat = [f for sec in range(4) for f in d.sections[sec]]
            tail = (1 if m.edns >= 0 else 0) + (1 if s.tsig else 0)
            body = flat[: len(flat) - tail]
            exp = [f for _, g in s.flat_sets for f in g]
            good = [f.key() for f in body] == [f.key() for f in exp[: len(body)]]
            acc = 0
            whole = False
            k = 0
            for k, (sec, g) in enumerate(s.flat_sets):
                if acc == len(body):
                    whole = True
                    break
                acc += len(g)
            want_tc = k < s.n012
            if d.problems or not good or not whole or bool(d.flags & TC) != want_tc or len(body) == len(exp):
                R.violation(
                    "C08.prefix",
                    f"truncation at the 65535 clamp: prefix={good} whole_sets={whole} tc={bool(d.flags & TC)} expected_tc={want_tc} pointer_problems={d.problems[:1]}",
                    sig={"site": "Message.to_wire", "class": "truncated output at the 65535 clamp is not a TC-marked whole-set prefix"},
                    replay={"desc": desc, "clause": "C08.prefix", "sig": {}},
                )
            R.case("C08.prefix", key=key)
            dns.message.from_wire(w, keyring=(s.key if s.tsig and s.tsig["error"] == 0 else (False if s.tsig else None)))
            R.case("C08.parseable", key=key)
        except Exception as e:
            R.violation(
                "C08.parseable",
                f"truncated output at the 65535 clamp does not parse: {type(e).__name__}: {e}",
                sig={"site": "Message.to_wire", "class": "output not a well-formed message"},
                replay={"desc": desc, "clause": "C08.parseable", "sig": {}},
            )


def replay(data):
    random.seed(4242)
    desc = data["desc"]
    want_clause = data.get("clause")
    want_sig = data.get("sig") or {}
    if desc.get("route") == "resend":
        findings, _ = _resend_flow(desc)
        for f in findings:
            if f["clause"] == want_clause and (not want_sig or repr(sorted(f["sig"].items())) == repr(sorted(want_sig.items()))):
                return True, f["what"]
        return False, f"clause holds for the re-send flow (pad {desc['pad1']} then {desc['block']}, as {desc['as']})"
    s = Subject(desc["sub"], huge=desc.get("huge", False), variant=desc.get("variant"))
    if s.problem:
        return True, s.problem
    if desc.get("huge"):
        from bounded.common import Run

        R = Run("C08", "quick", 0, 120.0)
        _huge(R, s)
        for v in R.violations:
            if v["clause"] == want_clause:
                return True, v["what"]
        return False, "clause holds for the message larger than 65535 octets"
    if desc["route"] == "renderer":
        findings, _ = s.check_renderer(desc["L"])
    else:
        findings, _ = s.check_limit(desc["L"], desc["pt"], desc["route"], {})
    for f in findings:
        if f["clause"] == want_clause and (not want_sig or repr(sorted(f["sig"].items())) == repr(sorted(want_sig.items()))):
            return True, f["what"]
    return False, f"clause holds at limit {desc['L']} (prefer_truncation={desc['pt']}, route={desc['route']})"
