"""Bounded stand-in for C03 — messages survive render-then-parse unchanged; compression
is sound.  (DESIGN.md section 4, C03-B9; clauses taken from the property statement.)

Oracle: bounded/_c03_model.py — a reference model of the message whose record octets are
built from the RFC layouts, and an independent RFC 1035 wire decoder with strict pointer
rules.  The real ``Message.to_wire`` / ``dns.message.from_wire`` are run on library
objects built from the model through the public API.

The overflow family (bounded/_c03_overflow.py) drives the low-level ``dns.renderer.Renderer``
(and ``Message.to_wire(max_size, prefer_truncation=True)`` with a TSIG key) through record sets
that are rejected with TooBig and rolled back while rendering carries on with sets that
reuse the rolled-back names; its verdicts come from the same decoder and model.
"""

from __future__ import annotations

import itertools
import random
import struct

from bounded import _c03_model as M
from bounded import _c03_overflow as OV

BOUNDS = (
    "Exhaustive: rcode 0..4095 x opcode (dns.rcode/dns.opcode flag codecs against bit "
    "arithmetic, opcode.from_flags on all 65536 flag words, and every rcode carried through a "
    "rendered and parsed message); owner/target sharing lattice: every message with a question "
    "and two NS/MX/SOA-style records whose owner and rdata names range over a 7-name suffix "
    "lattice incl. root and one case-differing spelling (quick: seeded 1 200 of the 16 807 "
    "combinations, thorough: all); every RFC 2136 prerequisite/update form x 6 types x "
    "relative/absolute owner; first-name offsets 0x3FF0..0x4010 around the 14-bit pointer "
    "limit (quick: 9 offsets, thorough: all 33).  Seeded: whole messages from the model "
    "generator (query, response, NOTIFY, opcodes 1-15, UPDATE through the UpdateMessage API "
    "with every form; 0-6 record sets per section from 67 record types in classes IN/CH/HS/"
    "private; suffix-sharing name pools with odd octets, 63-octet labels, optional origin with "
    "relative names, 12% case-mixed pools; EDNS versions 0-255, all 16 flag bits, payload "
    "0-65535, 0-4 options of 8 kinds, extended rcodes; 2% with a leading TXT that pushes names "
    "past 0x3FFF; 15% rendered with record shuffling): 5 000 messages quick, 200 000 thorough "
    "(or the time budget).  Overflow family (record sets rejected with TooBig, rolled back, "
    "rendering carried on): low-level dns.renderer.Renderer with max_size, add_question / "
    "add_rrset / add_rdataset catching TooBig and continuing, add_edns, write_header, add_tsig; "
    "1-4 rolled-back record sets per message, each the first mention of a fresh owner name "
    "(under the zone / a new branch / under an earlier rolled-back name / 63-octet label; owner "
    "X, sub.X, p.q.X or X only in the rdata; TXT, NS, MX, SRV sets sized above the limit under "
    "any compression), followed by 0-3 small sets of 10 kinds that reuse X or names ending in "
    "it, and a TSIG whose key name is X / k.X / key.sub.X / unrelated / absent; 25% with an "
    "origin and relative names; limits: all small sets fit uncompressed + slack 0-30 (65%), a "
    "tighter random limit (20%), big sets of random size (15%); and Message.to_wire(max_size, "
    "prefer_truncation=True) with EDNS and such a TSIG key.  Enumerated grid of 7 150 "
    "(fresh-name pattern x overflowing set x its owner x reusing set x TSIG key x 1-3 episodes) "
    "on both routes (quick: seeded 500 + 150 of them; thorough: all), plus seeded scenarios: "
    "1 300 renderer + 350 message quick, 20 000 + 5 000 thorough.  TSIG is otherwise exercised "
    "in C08, not here (HMAC only).  Nothing here needs the `cryptography` package."
)

SIG_F10 = {
    "site": "dns.name.Name.to_wire",
    "class": "compression pointer targets a suffix that differs in ASCII case",
}
SIG_UPDATE_EQ = {
    "site": "dns.update.UpdateMessage (present/absent/delete(name)) vs UpdateMessage._parse_rr_header",
    "class": "meta-class form built with rdclass ANY/NONE and deleting=None parses to zone class + deleting; Message.__eq__ is False",
}


def _finding(out, clause, what, sig):
    out.append({"clause": clause, "what": what, "sig": sig})


def _lib_records(msg, origin, section):
    """Records of a library message section in wire terms:
    (owner labels absolute, type, wire class, ttl|None, uncompressed rdata|None)."""
    out = []
    for rrset in msg.sections[section]:
        name = rrset.name
        if not name.is_absolute():
            name = name.derelativize(origin)
        cls = int(rrset.deleting) if rrset.deleting is not None else int(rrset.rdclass)
        if section == 0:
            out.append([(name.labels, int(rrset.rdtype), cls, None, None)])
        elif len(rrset) == 0:
            out.append([(name.labels, int(rrset.rdtype), cls, 0, b"")])
        else:
            out.append(
                [(name.labels, int(rrset.rdtype), cls, int(rrset.ttl), rd.to_wire(None, None, origin)) for rd in rrset]
            )
    return out


def _model_records(m, section):
    out = []
    for r in m.sections[section]:
        if section == 0:
            out.append([(r.owner_abs, r.rdtype, r.wire_class, None, None)])
        elif not r.rdatas:
            out.append([(r.owner_abs, r.rdtype, r.wire_class, 0, b"")])
        else:
            out.append([(r.owner_abs, r.rdtype, r.wire_class, r.ttl, rd.wire()) for rd in r.rdatas])
    return out


def _low(rec):
    return (M.lower_labels(rec[0]), rec[1], rec[2], rec[3], None if rec[4] is None else rec[4].lower())


def _cmp_records(exp_groups, got_groups, ordered, regroup):
    """exp/got: lists of groups of records.  With ``regroup`` (UPDATE parsing puts every RR
    in its own set; so does any parse of shuffled input) only the flat record sequence
    per expected group is compared."""
    eflat = [r for g in exp_groups for r in g]
    gflat = [r for g in got_groups for r in g]
    if len(eflat) != len(gflat):
        return "diff", f"{len(gflat)} records, expected {len(eflat)}"
    if not regroup and [len(g) for g in exp_groups] != [len(g) for g in got_groups]:
        return "diff", f"record sets of sizes {[len(g) for g in got_groups]}, expected {[len(g) for g in exp_groups]}"
    status = "ok"
    i = 0
    for g in exp_groups:
        got = gflat[i : i + len(g)]
        i += len(g)
        e = list(g)
        if not ordered:
            e = sorted(e, key=repr)
            got = sorted(got, key=repr)
        if e == got:
            continue
        el = [_low(x) for x in g]
        gl = [_low(x) for x in gflat[i - len(g) : i]]
        if not ordered:
            el = sorted(el, key=repr)
            gl = sorted(gl, key=repr)
        if el == gl:
            status = "case"
            continue
        return "diff", f"expected {e[:1]!r} got {got[:1]!r}"
    return status, ""


def check_model(m, shuffle=False):
    """Run every clause on one model message.  Returns (findings, info)."""
    import dns.exception
    import dns.message
    import dns.name

    out = []
    info = {"pointers": 0, "len": 0, "records": 0}
    try:
        msg, origin = M.build_library_message(m)
    except Exception as e:  # the public construction API failed on a well-formed message
        _finding(
            out,
            "C03.render_parse_total",
            f"building the message through the public API raised {type(e).__name__}: {e}",
            {"site": "build", "exc": type(e).__name__},
        )
        return out, info
    kw = {}
    if not shuffle:
        kw["want_shuffle"] = False
    if origin is not None and m.kind != "update":
        kw["origin"] = origin
    try:
        wire = msg.to_wire(max_size=65535, **kw)
    except Exception as e:
        _finding(
            out,
            "C03.render_parse_total",
            f"to_wire raised {type(e).__name__}: {e}",
            {"site": "Message.to_wire", "exc": type(e).__name__},
        )
        return out, info
    info["len"] = len(wire)
    info["wire"] = wire

    # ---------------------------------------------------------------- independent decode
    dec = M.WireDecoder(wire)
    try:
        d = dec.message()
    except M.DecodeError as e:
        if dec.problems:
            _finding(
                out,
                "C03.compression_sound",
                f"independent decoder: {dec.problems[0]}",
                {"site": "Renderer/Name.to_wire", "class": "invalid compression pointer"},
            )
        else:
            _finding(
                out,
                "C03.header_counts",
                f"independent decoder cannot walk the rendered message: {e}",
                {"site": "Message.to_wire", "class": "framing/count mismatch"},
            )
        return out, info
    info["pointers"] = len(d.pointers)
    info["records"] = sum(len(s) for s in d.sections)
    if d.problems:
        _finding(
            out,
            "C03.compression_sound",
            f"independent decoder: {d.problems[0]}",
            {"site": "Renderer/Name.to_wire", "class": "invalid compression pointer"},
        )
    if d.id != m.id or d.flags != m.wire_flags():
        _finding(
            out,
            "C03.header_fields",
            f"rendered header id/flags {d.id}/{d.flags:#06x}, expected {m.id}/{m.wire_flags():#06x}",
            {"site": "Renderer.write_header", "class": "id/flags"},
        )
    ecounts = m.expected_counts()
    if d.counts != ecounts:
        _finding(
            out,
            "C03.header_counts",
            f"header counts {d.counts}, records in the model {ecounts}",
            {"site": "Renderer.counts", "class": "count != records"},
        )
    groups = M.expected_section_groups(m)
    opt_frame = m.expected_opt_frame()
    got_sections = [list(s) for s in d.sections]
    got_opt = None
    if opt_frame is not None and got_sections[3]:
        got_opt = got_sections[3].pop()
    case_seen = False
    for s in range(4):
        st, detail = M.compare_frames(groups[s], got_sections[s], ordered=not shuffle)
        if st == "case" and m.case_mix:
            case_seen = True
        elif st != "ok":
            detail = detail or "a name differs in ASCII case although no case-differing spelling was used"
            _finding(
                out,
                "C03.records_same",
                f"rendered section {s} differs from the model: {detail}",
                {"site": "Message.to_wire", "class": "rendered records differ", "section": s},
            )
    if case_seen:
        _finding(
            out,
            "C03.compression_sound",
            "an independent decoder recovers a name that differs in case from the one rendered",
            SIG_F10,
        )
    if opt_frame is not None:
        if got_opt is None or got_opt.key() != opt_frame.key():
            _finding(
                out,
                "C03.edns_state",
                f"rendered OPT {None if got_opt is None else got_opt.describe()} expected {opt_frame.describe()}",
                {"site": "Renderer.add_opt", "class": "OPT record differs"},
            )

    # ---------------------------------------------------------------- parse
    parsed = []
    try:
        p = dns.message.from_wire(wire)
        parsed.append((p, None))
        # Parsing *with* the origin (names come back relative) is an extra route through
        # _get_section; it is skipped where the property text gives no ground for a verdict:
        # case-mixed pools (the origin's spelling replaces the rendered one) and origin "."
        # with EDNS (the OPT owner is relativized to the empty name -> BadEDNS).
        if origin is not None and not m.case_mix and not (len(m.origin) == 1 and m.edns >= 0):
            parsed.append((dns.message.from_wire(wire, origin=origin), origin))
    except Exception as e:
        _finding(
            out,
            "C03.render_parse_total",
            f"from_wire raised {type(e).__name__}: {e}",
            {"site": "dns.message.from_wire", "exc": type(e).__name__},
        )
        return out, info
    opcode = (m.flags >> 11) & 0xF
    exp_ttl = opt_frame.ttl if opt_frame is not None else 0
    # the original object must itself report the model's values (set_rcode/set_opcode codecs)
    for obj, who in ((msg, "original"), (p, "parsed")):
        try:
            got = (obj.id, int(obj.flags) & 0xFFFF, int(obj.opcode()), int(obj.rcode()))
        except Exception as e:
            got = ("exception", type(e).__name__)
        exp = (m.id, m.wire_flags(), opcode, m.rcode)
        if got != exp:
            _finding(
                out,
                "C03.header_fields",
                f"{who} message (id, flags, opcode, rcode) = {got}, expected {exp}",
                {"site": "Message.rcode/opcode/flags", "class": f"{who} header value"},
            )
        try:
            gote = (
                int(obj.edns),
                int(obj.ednsflags),
                int(obj.payload),
                [(int(o.otype), o.to_wire()) for o in obj.options],
            )
        except Exception as e:
            gote = ("exception", type(e).__name__)
        expe = (m.edns, exp_ttl, m.payload if m.edns >= 0 else 0, [(c, v) for c, v in m.options])
        if gote != expe:
            _finding(
                out,
                "C03.edns_state",
                f"{who} message EDNS state {gote!r}, expected {expe!r}",
                {"site": "Message.edns/ednsflags/payload/options", "class": f"{who} EDNS state"},
            )
    if list(p.options) != list(msg.options) and not any(f["clause"] == "C03.edns_state" for f in out):
        _finding(
            out,
            "C03.edns_state",
            "parsed options do not compare equal to the original options",
            {"site": "dns.edns.Option.__eq__", "class": "option equality"},
        )
    regroup = m.kind == "update" or shuffle
    for pm, po in parsed:
        case_p = False
        for s in range(4):
            try:
                got = _lib_records(pm, origin, s)
            except Exception as e:
                _finding(
                    out,
                    "C03.records_same",
                    f"cannot read back parsed section {s}: {type(e).__name__}: {e}",
                    {"site": "dns.message.from_wire", "class": "parsed record unusable"},
                )
                continue
            st, detail = _cmp_records(_model_records(m, s), got, ordered=not shuffle, regroup=regroup)
            if st == "case" and m.case_mix:
                case_p = True
            elif st != "ok":
                _finding(
                    out,
                    "C03.records_same",
                    f"parsed section {s} (origin={'yes' if po is not None else 'no'}) differs from the original: {detail}",
                    {"site": "dns.message.from_wire", "class": "parsed records differ", "section": s},
                )
            try:
                sc = pm.section_count(s)
            except Exception as e:
                sc = f"{type(e).__name__}"
            if sc != d.counts[s]:
                _finding(
                    out,
                    "C03.header_counts",
                    f"section_count({s}) of the parsed message is {sc}, header says {d.counts[s]}",
                    {"site": "Message.section_count", "class": "count != header"},
                )
        if case_p and not case_seen:
            _finding(
                out,
                "C03.compression_sound",
                "the parsed message carries a name that differs in case from the one rendered",
                SIG_F10,
            )
        # ------------------------------------------------------------ re-render
        try:
            again = pm.to_wire(max_size=65535, want_shuffle=False)
        except Exception as e:
            _finding(
                out,
                "C03.rerender_exact",
                f"re-rendering the parsed message raised {type(e).__name__}: {e}",
                {"site": "Message.to_wire(parsed)", "exc": type(e).__name__},
            )
        else:
            if again != wire:
                k = next((i for i, (a, b) in enumerate(zip(again, wire)) if a != b), min(len(again), len(wire)))
                _finding(
                    out,
                    "C03.rerender_exact",
                    f"second rendering differs at octet {k} (lengths {len(wire)} -> {len(again)}, origin={'yes' if po is not None else 'no'})",
                    {"site": "Message.to_wire(parsed)", "class": "bytes differ"},
                )
    # ---------------------------------------------------------------- Message.__eq__
    if m.all_absolute:
        try:
            eq = (p == msg) and (msg == p) and not (p != msg)
        except Exception as e:
            eq = False
            _finding(
                out,
                "C03.eq_original",
                f"Message.__eq__ raised {type(e).__name__}",
                {"site": "Message.__eq__", "exc": type(e).__name__},
            )
        if not eq:
            recs_equal = all(
                _cmp_records(_model_records(m, s), _lib_records(p, origin, s), not shuffle, True)[0] in ("ok", "case")
                for s in range(4)
            )
            meta_forms = m.kind == "update" and any(
                r.form in ("present_name", "present_rrset", "absent_name", "absent_rrset", "delete_name")
                for s in (1, 2)
                for r in m.sections[s]
            )
            if recs_equal and m.case_mix and not meta_forms:
                _finding(
                    out,
                    "C03.eq_original",
                    "a record whose name was compressed against a case-differing suffix no longer compares equal",
                    SIG_F10,
                )
            elif recs_equal and meta_forms:
                _finding(
                    out,
                    "C03.eq_original",
                    "parsed UPDATE message holds the same records but does not compare equal to the original",
                    SIG_UPDATE_EQ,
                )
            else:
                _finding(
                    out,
                    "C03.eq_original",
                    "parsed message (absolute names) does not compare equal to the original",
                    {"site": "Message.__eq__", "class": "parsed != original", "kind": m.kind},
                )
    return out, info


# ----------------------------------------------------------------------------- case builders


def seeded_message(sub, big):
    rng = random.Random(sub)
    return M.gen_message(rng, big=big)


_LATTICE = (
    (b"",),
    (b"com", b""),
    (b"example", b"com", b""),
    (b"a", b"example", b"com", b""),
    (b"b", b"a", b"example", b"com", b""),
    (b"net", b""),
    (b"EXAMPLE", b"com", b""),
)
_LATTICE_T = (2, 15, 6)  # NS, MX, SOA: one / one-after-prefix / two names in rdata


def lattice_message(ix):
    """ix = (q, o1, t1, o2, t2) indices into the lattice; record types cycle with o1."""
    q, o1, t1, o2, t2 = ix
    m = M.MMessage()
    m.notes = []
    m.kind = "response"
    m.id = 0x1234
    m.flags = 0x8400
    m.rcode = 0
    m.edns, m.ednsflags, m.payload, m.options = -1, 0, 0, []
    m.origin = None
    m.abs_only = True
    m.case_mix = 6 in ix
    m.zone = m.zone_class = m.ops = None
    L = _LATTICE
    m.sections = [[M.MRRset(L[q], L[q], 1, 1, 0, [])], [], [], []]

    def rd(t, target, other):
        if t == 2:
            return M.MRdata([("n", target)])
        if t == 15:
            return M.MRdata([("b", b"\x00\x0a"), ("n", target)])
        return M.MRdata([("n", target), ("n", other), ("b", struct.pack("!IIIII", 1, 2, 3, 4, 5))])

    ta = _LATTICE_T[(o1 + t1) % 3]
    tb = _LATTICE_T[(o2 + t2 + 1) % 3]
    m.sections[1].append(M.MRRset(L[o1], L[o1], 1, ta, 300, [rd(ta, L[t1], L[o2])]))
    key1 = (M.lower_labels(L[o1]), ta)
    if (M.lower_labels(L[o2]), tb) == key1:
        tb = _LATTICE_T[(_LATTICE_T.index(tb) + 1) % 3]
    m.sections[2].append(M.MRRset(L[o2], L[o2], 1, tb, 300, [rd(tb, L[t2], L[t1])]))
    m.all_absolute = True
    return m


_FORMS = (
    "present_name",
    "present_rrset",
    "present_value",
    "absent_name",
    "absent_rrset",
    "add",
    "delete_name",
    "delete_rrset",
    "delete_rr",
    "replace",
)
_FORM_TYPES = (1, 16, 15, 6, 46, 65280)


def update_form_message(form_ix, type_ix, relative, second_form_ix):
    rng = random.Random(form_ix * 1000 + type_ix * 10 + second_form_ix)
    m = M.MMessage()
    m.notes = []
    m.kind = "update"
    m.id = 77
    m.flags = 5 << 11
    m.rcode = 0
    m.edns, m.ednsflags, m.payload, m.options = -1, 0, 0, []
    m.origin = (b"example", b"")
    m.abs_only = not relative
    m.case_mix = False
    m.zone = m.origin
    m.zone_class = 1
    pool = M.NamePool(rng, m.origin, False, False, size=3, relative_ok=relative, case_map=M.make_case_map(rng, plain=True))
    m.sections = [[M.MRRset(m.origin, m.origin, 1, 6, 0, [])], [], [], []]
    ops = []
    for fi in (form_ix, second_form_ix):
        form = _FORMS[fi]
        t = _FORM_TYPES[type_ix]
        owner = (b"host",) if relative else (b"host", b"example", b"")
        oa = M.absolutize(owner, m.origin)
        rdv = M.gen_rdata(rng, t, 1, pool)
        cov = M.rdata_covers(t, rdv)
        if form == "present_name":
            m.sections[1].append(M.MRRset(owner, oa, 255, 255, 0, [], wire_class=255, form=form))
            ops.append((form, owner, None, None, None))
        elif form == "present_rrset":
            m.sections[1].append(M.MRRset(owner, oa, 255, t, 0, [], wire_class=255, form=form))
            ops.append((form, owner, t, None, None))
        elif form == "present_value":
            m.sections[1].append(M.MRRset(owner, oa, 1, t, 0, [rdv], cov, form=form))
            ops.append((form, owner, t, None, rdv))
        elif form == "absent_name":
            m.sections[1].append(M.MRRset(owner, oa, 254, 255, 0, [], wire_class=254, form=form))
            ops.append((form, owner, None, None, None))
        elif form == "absent_rrset":
            m.sections[1].append(M.MRRset(owner, oa, 254, t, 0, [], wire_class=254, form=form))
            ops.append((form, owner, t, None, None))
        elif form == "add":
            m.sections[2].append(M.MRRset(owner, oa, 1, t, 3600, [rdv], cov, form=form))
            ops.append((form, owner, t, 3600, rdv))
        elif form == "delete_name":
            m.sections[2].append(M.MRRset(owner, oa, 255, 255, 0, [], wire_class=255, form=form))
            ops.append((form, owner, None, None, None))
        elif form == "delete_rrset":
            m.sections[2].append(M.MRRset(owner, oa, 1, t, 0, [], wire_class=255, form=form))
            ops.append((form, owner, t, None, None))
        elif form == "delete_rr":
            m.sections[2].append(M.MRRset(owner, oa, 1, t, 0, [rdv], cov, wire_class=254, form=form))
            ops.append((form, owner, t, None, rdv))
        else:
            m.sections[2].append(M.MRRset(owner, oa, 1, t, 0, [], wire_class=255, form="delete_rrset"))
            m.sections[2].append(M.MRRset(owner, oa, 1, t, 60, [rdv], cov, form="add"))
            ops.append((form, owner, t, 60, rdv))
    m.ops = ops
    m.all_absolute = m.abs_only
    return m


def boundary_message(first_name_offset, variant):
    """A TXT record sized so that the owner name of the next record starts exactly at
    ``first_name_offset``; that name and its suffixes are then repeated.  RFC 1035 4.1.4:
    a pointer offset has 14 bits, so a name first written above 0x3FFF cannot be a target."""
    m = M.MMessage()
    m.notes = []
    m.kind = "response"
    m.id = 9
    m.flags = 0x8000
    m.rcode = 0
    m.edns, m.ednsflags, m.payload, m.options = -1, 0, 0, []
    m.origin = None
    m.abs_only = True
    m.case_mix = False
    m.zone = m.zone_class = m.ops = None
    t_owner = (b"t", b"")
    pre = 12 + len(M.name_wire(t_owner)) + 10
    need = first_name_offset - pre
    chunks = []
    while need > 0:
        n = min(255, need - 1)
        chunks.append(bytes([n]) + b"T" * n)
        need -= n + 1
    big = M.MRdata([("b", b"".join(chunks))])
    if variant == 0:
        fresh = (b"fresh", b"zone", b"test", b"")
    else:
        fresh = (b"f", b"r", b"e", b"s", b"h", b"")
    sub1 = (b"www",) + fresh
    m.sections = [[], [], [], []]
    m.sections[1].append(M.MRRset(t_owner, t_owner, 1, 16, 1, [big]))
    m.sections[1].append(M.MRRset(fresh, fresh, 1, 2, 5, [M.MRdata([("n", sub1)])]))
    m.sections[1].append(M.MRRset(sub1, sub1, 1, 15, 5, [M.MRdata([("b", b"\x00\x01"), ("n", fresh)])]))
    m.sections[2].append(M.MRRset(fresh[1:], fresh[1:], 1, 6, 5, [M.MRdata([("n", sub1), ("n", fresh), ("b", b"\x00" * 20)])]))
    m.sections[3].append(M.MRRset(sub1, sub1, 1, 1, 5, [M.MRdata([("b", b"\x01\x02\x03\x04")])]))
    m.all_absolute = True
    return m


def build_case(desc):
    k = desc["k"]
    if k == "seed":
        return seeded_message(desc["sub"], desc.get("big", False)), desc.get("shuffle", False)
    if k == "lattice":
        return lattice_message(tuple(desc["ix"])), False
    if k == "update":
        return update_form_message(desc["f"], desc["t"], desc["rel"], desc["f2"]), False
    if k == "boundary":
        return boundary_message(desc["off"], desc["v"]), False
    raise ValueError(k)


# ----------------------------------------------------------------------------- flag codecs


def check_flag_codecs(R):
    import dns.message
    import dns.opcode
    import dns.rcode

    clause = "C03.flag_codecs"
    for v in range(4096):
        R.case(clause, key=("rcode", v))
        try:
            f, ef = dns.rcode.to_flags(v)
            ok = int(f) == (v & 0xF) and int(ef) == ((v >> 4) << 24)
            # from_flags must ignore every other bit of the two words
            back = dns.rcode.from_flags(int(f) | 0xFFF0, int(ef) | 0x00FFFFFF)
            back2 = dns.rcode.from_flags(v & 0xF, (v >> 4) << 24)
            ok = ok and int(back) == v and int(back2) == v
        except Exception as e:
            ok = False
            f = ef = type(e).__name__
        if not ok:
            R.violation(
                clause,
                f"rcode {v}: to_flags -> ({f}, {ef}) / from_flags does not invert",
                sig={"site": "dns.rcode.to_flags/from_flags", "class": "not inverse"},
                replay={"k": "rcode", "v": v},
            )
    for o in range(16):
        R.case(clause, key=("opcode", o))
        try:
            ok = int(dns.opcode.to_flags(o)) == (o << 11)
        except Exception:
            ok = False
        if not ok:
            R.violation(
                clause,
                f"opcode {o}: to_flags is not o << 11",
                sig={"site": "dns.opcode.to_flags", "class": "wrong bits"},
                replay={"k": "opcode", "v": o},
            )
    bad = None
    for x in range(65536):
        if int(dns.opcode.from_flags(x)) != ((x >> 11) & 0xF):
            bad = x
            break
    R.case(clause, key="opcode.from_flags all 65536 words")
    if bad is not None:
        R.violation(
            clause,
            f"opcode.from_flags({bad:#06x}) is not bits 11-14",
            sig={"site": "dns.opcode.from_flags", "class": "wrong bits"},
            replay={"k": "opflags", "v": bad},
        )
    # every rcode through a real message, cycling opcodes (5 = UPDATE needs a zone: skipped here,
    # covered by the generator)
    ops = [o for o in range(16) if o != 5]
    for v in range(4096):
        if _stop(R):
            break
        o = ops[v % len(ops)]
        R.case(clause, key=("msg", v, o))
        fails, detail = _rcode_message(v, o)
        if fails:
            R.violation(
                clause,
                detail,
                sig={"site": "Message.set_rcode/rcode via wire", "class": "rcode/opcode not preserved"},
                replay={"k": "rcodemsg", "v": v, "o": o},
            )


def _rcode_message(v, o):
    import dns.message

    try:
        msg = dns.message.Message(id=v)
        msg.flags = 0x8180
        msg.set_opcode(o)
        msg.set_rcode(v)
        wire = msg.to_wire()
        d = M.decode(wire)
        exp_flags = 0x8180 | (o << 11) | (v & 0xF)
        if d.flags != exp_flags:
            return True, f"rcode {v} opcode {o}: header flags {d.flags:#06x}, expected {exp_flags:#06x}"
        if v > 15:
            if d.counts[3] != 1 or d.sections[3][0].rdtype != 41 or (d.sections[3][0].ttl >> 24) != (v >> 4):
                return True, f"rcode {v}: extended bits not in the OPT TTL"
        elif d.counts[3] != 0:
            return True, f"rcode {v}: an OPT record appeared without EDNS"
        p = dns.message.from_wire(wire)
        if int(p.rcode()) != v or int(p.opcode()) != o or int(p.flags) != exp_flags:
            return True, f"rcode {v} opcode {o}: parsed rcode {int(p.rcode())} opcode {int(p.opcode())} flags {int(p.flags):#06x}"
        if p.to_wire() != wire:
            return True, f"rcode {v} opcode {o}: second rendering differs"
    except Exception as e:
        return True, f"rcode {v} opcode {o}: {type(e).__name__}: {e}"
    return False, "ok"


# ----------------------------------------------------------------------------- driver

_CLAUSES = (
    "C03.render_parse_total",
    "C03.header_fields",
    "C03.edns_state",
    "C03.records_same",
    "C03.header_counts",
    "C03.rerender_exact",
    "C03.compression_sound",
    "C03.eq_original",
)


def _run_case(R, desc):
    try:
        m, shuffle = build_case(desc)
    except Exception as e:  # generator bug: a note, never a violation
        R.note(f"generator failed for {desc}: {type(e).__name__}: {e}")
        return
    findings, info = check_model(m, shuffle)
    key = repr(sorted(desc.items()))
    reached = info["len"] > 0
    R.case("C03.render_parse_total", key=key)
    for c in _CLAUSES[1:]:
        if c == "C03.compression_sound":
            nt = info["pointers"] > 0
        elif c == "C03.eq_original":
            if not m.all_absolute:
                continue
            nt = reached
        elif c == "C03.edns_state":
            nt = reached and m.edns >= 0
        elif c == "C03.records_same":
            nt = reached and info["records"] > 0
        else:
            nt = reached
        R.case(c, key=key, nontrivial=nt)
    if reached and info["pointers"] > 0:
        R.sample(
            "C03.compression_sound",
            {"case": desc, "kind": m.kind, "octets": info["len"], "records": info["records"], "pointers": info["pointers"]},
        )
    for f in findings:
        R.violation(f["clause"], f["what"], sig=f["sig"], replay={"desc": desc, "clause": f["clause"], "sig": f["sig"]})


def _run_overflow(R, desc):
    """One scenario of the overflow family (bounded/_c03_overflow.py)."""
    try:
        sc = OV.build_scenario(desc)
    except Exception as e:  # generator bug: a note, never a violation
        R.note(f"generator failed for {desc}: {type(e).__name__}: {e}")
        return
    try:
        findings, info = OV.check_scenario(sc)
    except Exception as e:  # pragma: no cover - harness bug
        R.note(f"harness error for {desc}: {type(e).__name__}: {e}")
        return
    key = repr(sorted(desc.items()))
    reached = info["len"] > 0
    rolled = reached and info["rollbacks"] > 0
    reused = rolled and (info["reuse"] > 0 or info["tsig_reuse"])
    R.case("C03.render_parse_total", key=key, nontrivial=rolled)
    R.case("C03.header_fields", key=key, nontrivial=reached)
    R.case("C03.edns_state", key=key, nontrivial=reached and info["edns"])
    R.case("C03.records_same", key=key, nontrivial=rolled and info["records"] > 0)
    R.case("C03.header_counts", key=key, nontrivial=rolled)
    if not info["tsig"]:
        R.case("C03.rerender_exact", key=key, nontrivial=rolled)
    R.case("C03.compression_sound", key=key, nontrivial=reused and info["pointers"] > 0)
    if reused and info["pointers"] > 0:
        R.sample(
            "C03.header_counts",
            {
                "case": desc,
                "limit": sc.L,
                "octets": info["len"],
                "record sets rejected with TooBig": info["rollbacks"],
                "later sets reusing a rolled-back first mention": info["reuse"],
                "tsig key name under a rolled-back name": info["tsig_reuse"],
                "pointers": info["pointers"],
            },
        )
    for f in findings:
        R.violation(f["clause"], f["what"], sig=f["sig"], replay={"desc": desc, "clause": f["clause"], "sig": f["sig"]})


def _stop(R):
    """Stop generating at 88% of the budget so that the tier ends inside its wall-time limit."""
    return R.deadline() or R.elapsed() > 0.88 * R.budget_s


def run(R):
    # record shuffling uses the global generator of the random module: seed it so that the
    # rendered octets (not the verdicts, which are order-insensitive) are reproducible
    random.seed(R.seed * 7919 + 17)

    check_flag_codecs(R)

    # RFC 2136 forms, exhaustive
    for f in range(len(_FORMS)):
        for t in range(len(_FORM_TYPES)):
            for rel in (False, True):
                f2s = range(len(_FORMS)) if not R.quick else ((f + 3) % len(_FORMS),)
                for f2 in f2s:
                    _run_case(R, {"k": "update", "f": f, "t": t, "rel": rel, "f2": f2})
        if _stop(R):
            return

    # 14-bit pointer boundary
    offs = range(0x3FF0, 0x4011) if not R.quick else (0x3FF0, 0x3FFC, 0x3FFD, 0x3FFE, 0x3FFF, 0x4000, 0x4001, 0x4002, 0x4010)
    for off in offs:
        for v in (0, 1):
            _run_case(R, {"k": "boundary", "off": off, "v": v})
        if _stop(R):
            return

    # suffix-sharing lattice
    n = len(_LATTICE)
    all_ix = list(itertools.product(range(n), repeat=5))
    if R.quick:
        all_ix = R.rng.sample(all_ix, 1200)
    for ix in all_ix:
        _run_case(R, {"k": "lattice", "ix": list(ix)})
        if _stop(R):
            return

    # overflow family: record sets rejected with TooBig and rolled back, rendering carried on.
    # Own generator (derived from the seed) so that the seeded whole messages below are the
    # same cases as before for a given seed.
    orng = random.Random(f"C03-overflow-{R.seed}")
    grid = OV.grid_points()
    if R.quick:
        picks = [(g, "renderer") for g in orng.sample(grid, 500)] + [(g, "message") for g in orng.sample(grid, 150)]
    else:
        picks = [(g, route) for g in grid for route in ("renderer", "message")]
    for i, (g, route) in enumerate(picks):
        _run_overflow(R, {"k": "overflow", "route": route, "sub": orng.getrandbits(32) if R.quick else i, "grid": list(g)})
        if i % 50 == 0 and _stop(R):
            return
    for route, n in (("renderer", 1300 if R.quick else 20000), ("message", 350 if R.quick else 5000)):
        for i in range(n):
            if i % 50 == 0 and _stop(R):
                return
            _run_overflow(R, {"k": "overflow", "route": route, "sub": orng.getrandbits(48)})

    # seeded whole messages
    total = 5000 if R.quick else 200000
    for i in range(total):
        if _stop(R):
            R.note(f"time budget reached after {i} seeded messages")
            break
        sub = R.rng.getrandbits(48)
        big = R.rng.random() < 0.02
        shuffle = R.rng.random() < 0.15
        _run_case(R, {"k": "seed", "sub": sub, "big": big, "shuffle": shuffle})


def replay(data):
    random.seed(12345)
    if "desc" not in data:
        k = data.get("k")
        if k == "rcodemsg":
            return _rcode_message(data["v"], data["o"])
        if k == "rcode":
            import dns.rcode

            v = data["v"]
            try:
                f, ef = dns.rcode.to_flags(v)
                ok = int(f) == (v & 0xF) and int(ef) == ((v >> 4) << 24) and int(dns.rcode.from_flags(int(f) | 0xFFF0, int(ef) | 0x00FFFFFF)) == v
            except Exception as e:
                return True, f"{type(e).__name__}: {e}"
            return (not ok), f"rcode {v} -> ({int(f)}, {int(ef)})"
        if k in ("opcode", "opflags"):
            import dns.opcode

            v = data["v"]
            if k == "opcode":
                ok = int(dns.opcode.to_flags(v)) == (v << 11)
            else:
                ok = int(dns.opcode.from_flags(v)) == ((v >> 11) & 0xF)
            return (not ok), f"{k} {v}"
        return False, "unknown replay record"
    if data["desc"].get("k") == "overflow":
        findings, info = OV.check_desc(data["desc"])
    else:
        m, shuffle = build_case(data["desc"])
        findings, info = check_model(m, shuffle)
    want = (data.get("clause"), repr(sorted((data.get("sig") or {}).items())))
    for f in findings:
        if (f["clause"], repr(sorted(f["sig"].items()))) == want:
            return True, f["what"]
    if findings and data.get("clause") is None:
        return True, findings[0]["what"]
    return False, f"clause holds on this case ({info.get('len', 0)} octets rendered)"
