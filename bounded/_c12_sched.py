"""Controlled scheduler used by the bounded stand-ins C12 and C17.

Real OS threads run the *real* library code, but only one of them runs at any moment:
every thread parks at each *scheduling point* (before a lock acquisition, after a lock
release, before an ``Event.wait``, optionally at every traced source line) and the
controller (the thread that called ``Sched.run``) decides who continues.  The outcome of
an execution is therefore a pure function of the sequence of choices, which makes
exhaustive enumeration (stateless DFS over the choice tree) and seeded random schedules
deterministic and replayable.

``ShimThreading(sched)`` is a drop-in for the two names the library uses from
``threading`` (``Lock`` and ``Event``); ``RLock`` is provided for completeness.
"""

from __future__ import annotations

import sys
import _thread
import threading as _real


class _Sem:
    """Binary semaphore on a raw lock (much cheaper than threading.Semaphore).  The
    scheduler's hand-off protocol guarantees release/acquire strictly alternate."""

    __slots__ = ("_l",)

    def __init__(self):
        self._l = _thread.allocate_lock()
        self._l.acquire()

    def release(self):
        self._l.release()

    def acquire(self, timeout=-1):
        return self._l.acquire(True, timeout)


class LineHook:
    """Line-level pre-emption through sys.monitoring (PEP 669): a LINE event is enabled
    only on the given code objects, so code outside them runs at full speed."""

    TOOL = 4

    def __init__(self, sched_ref):
        self._ref = sched_ref
        self.codes = []

    def install(self, codes):
        mon = sys.monitoring
        mon.use_tool_id(self.TOOL, "bounded-sched")
        mon.register_callback(self.TOOL, mon.events.LINE, self._line)
        for c in codes:
            mon.set_local_events(self.TOOL, c, mon.events.LINE)
        self.codes = list(codes)

    def uninstall(self):
        mon = sys.monitoring
        for c in self.codes:
            mon.set_local_events(self.TOOL, c, 0)
        mon.register_callback(self.TOOL, mon.events.LINE, None)
        mon.free_tool_id(self.TOOL)
        self.codes = []

    def _line(self, code, lineno):
        s = self._ref[0]
        if s is not None and s.line_mode and s.current is not None and not s.aborting:
            s.point("line", lineno)


class Abort(BaseException):
    """Raised inside a parked task to unwind it when an execution is abandoned."""


class HarnessFault(Exception):
    pass


class Task:
    __slots__ = (
        "idx", "sem", "pending", "done", "body", "thread", "exc", "state", "arrived",
        "nlocks", "user",
    )

    def __init__(self, idx, body):
        self.idx = idx
        self.sem = _Sem()
        self.pending = ("start", None)
        self.done = False
        self.body = body
        self.thread = None
        self.exc = None
        self.state = None
        self.arrived = False
        self.nlocks = 0
        self.user = None


class ShimLock:
    def __init__(self, sched):
        self._s = sched
        self.owner = None

    def acquire(self, blocking=True, timeout=-1):
        s = self._s
        t = s.current
        if t is None:  # not under the scheduler (set-up code in the controller)
            if self.owner is not None:
                raise HarnessFault("lock taken outside the scheduler while held")
            self.owner = "main"
            return True
        if not blocking:
            if self.owner is not None:
                return False
        else:
            s.point("acquire", self)
            if self.owner is not None:
                raise HarnessFault("scheduled an acquire of a held lock")
        self.owner = t
        t.nlocks += 1
        if s.on_acquire is not None:
            s.on_acquire(t, self)
        return True

    def release(self):
        s = self._s
        t = s.current
        if t is None:
            self.owner = None
            return
        self.owner = None
        t.nlocks -= 1
        if s.on_release is not None and not s.aborting:
            s.on_release(t, self)
        if s.release_points and not s.aborting:
            s.point("release", self)

    def locked(self):
        return self.owner is not None

    def __enter__(self):
        self.acquire()
        return self

    def __exit__(self, *a):
        self.release()
        return False


class ShimEvent:
    def __init__(self, sched):
        self._s = sched
        self.flag = False

    def is_set(self):
        return self.flag

    isSet = is_set

    def set(self):
        self.flag = True

    def clear(self):
        self.flag = False

    def wait(self, timeout=None):
        s = self._s
        if s.current is None:
            if not self.flag:
                raise HarnessFault("wait on an unset event outside the scheduler")
            return True
        s.point("wait", self)
        return True


class ShimThreading:
    """Stands in for the ``threading`` module inside the module under test."""

    def __init__(self, sched_ref):
        self._ref = sched_ref  # a one-element list holding the current Sched

    def Lock(self):
        return ShimLock(self._ref[0])

    RLock = Lock

    def Event(self):
        return ShimEvent(self._ref[0])

    def __getattr__(self, name):
        return getattr(_real, name)


class Sched:
    """One controlled execution."""

    LOCAL = ("start", "wait", "release")

    def __init__(self, choose, release_points=False, line_mode=False, max_steps=4000):
        self.choose = choose  # f(alternatives:list[int], last:int|None, step) -> idx
        self.release_points = release_points
        self.line_mode = line_mode  # LineHook installed by the caller
        self.max_steps = max_steps
        self.tasks = []
        self.current = None
        self.aborting = False
        self.fin = _Sem()
        self.last = None
        self.fault = None
        self.stuck = []
        self.trace = []  # (alternatives tuple, chosen)
        self.on_acquire = None
        self.on_release = None
        self.on_decision = None  # f(sched) before each choice
        self.outcome = None
        self.steps = 0

    # ---------------------------------------------------------------- task side
    def spawn(self, body):
        t = Task(len(self.tasks), body)
        self.tasks.append(t)
        return t

    def _handoff(self):
        """Called by the thread that holds the baton and is about to park or end:
        decide who runs next and wake it (or wake the controller when finished)."""
        nxt = self._decide()
        if nxt is None:
            self.fin.release()
        else:
            nxt.sem.release()

    def point(self, kind, obj=None):
        t = self.current
        if t is None:
            return
        t.pending = (kind, obj)
        self.current = None
        nxt = self._decide()
        if nxt is t:  # the same thread continues: no context switch at all
            self.current = t
            return
        if nxt is None:
            self.fin.release()
        else:
            nxt.sem.release()
        t.sem.acquire()
        if self.aborting:
            raise Abort()
        self.current = t

    def _run_task(self, t):
        t.sem.acquire()
        try:
            if self.aborting:
                return
            self.current = t
            t.body(t)
        except Abort:
            pass
        except BaseException as e:  # harness error inside a body
            t.exc = e
        finally:
            t.done = True
            t.pending = ("done", None)
            if not self.aborting:
                self.current = None
                self._handoff()

    # ---------------------------------------------------------------- decisions
    @staticmethod
    def enabled(t):
        if t.done:
            return False
        kind, obj = t.pending
        if kind == "acquire":
            return obj.owner is None
        if kind == "wait":
            return obj.flag
        return True

    def _decide(self):
        try:
            if self.on_decision is not None:
                self.on_decision(self)
            en = [t.idx for t in self.tasks if self.enabled(t)]
            if not en:
                self.outcome = "ok" if all(t.done for t in self.tasks) else "deadlock"
                self.stuck = [(t.idx, t.pending[0]) for t in self.tasks if not t.done]
                return None
            if self.steps >= self.max_steps:
                self.outcome = "steplimit"
                return None
            self.steps += 1
            # A pending step that touches no shared state (thread start, return from a
            # wait whose event is already set, continuation after a release) commutes
            # with every other step: run it at once, it is not a branching point.
            loc = [i for i in en if self.tasks[i].pending[0] in self.LOCAL]
            if loc:
                ch = loc[0]
            else:
                alts, ch = self.choose(en, self.last, len(self.trace))
                self.trace.append((tuple(alts), ch))
            self.last = ch
            return self.tasks[ch]
        except BaseException as e:  # a bug in a hook or chooser
            self.fault = e
            self.outcome = "fault"
            return None

    def run(self):
        workers = [_get_worker() for _ in self.tasks]
        for w, t in zip(workers, self.tasks):
            w.job = (self, t)
            w.sem.release()
        nxt = self._decide()
        if nxt is not None:
            nxt.sem.release()
            if not self.fin.acquire(120):
                self.outcome = "hang"
        self.aborting = True
        for t in self.tasks:
            if not t.done:
                t.sem.release()
        for w in workers:
            if w.done.acquire(10):
                _POOL.append(w)
        if self.fault is not None:
            raise HarnessFault("scheduler hook failed: %r" % (self.fault,))
        return self.outcome


class _Worker:
    def __init__(self):
        self.job = None
        self.sem = _Sem()
        self.done = _Sem()
        self.thread = _real.Thread(target=self._loop, daemon=True)
        self.thread.start()

    def _loop(self):
        while True:
            self.sem.acquire()
            sched, t = self.job
            self.job = None
            try:
                sched._run_task(t)
            finally:
                self.done.release()


_POOL = []


def _get_worker():
    return _POOL.pop() if _POOL else _Worker()


# -------------------------------------------------------------------- choosers
class PrefixChooser:
    """Follows ``prefix`` then always takes the first alternative.  With
    ``preempt_bound`` set, a switch away from the last task while it is still enabled
    counts as a pre-emption and at most that many are allowed."""

    def __init__(self, prefix=(), preempt_bound=None):
        self.prefix = list(prefix)
        self.bound = preempt_bound
        self.preempts = 0
        self.diverged = False

    def __call__(self, en, last, step):
        if last is not None and last in en:
            alts = [last] + [i for i in en if i != last]
            if self.bound is not None and self.preempts >= self.bound:
                alts = [last]
        else:
            alts = list(en)
        if step < len(self.prefix):
            ch = self.prefix[step]
            if ch not in alts:
                self.diverged = True
                ch = alts[0]
        else:
            ch = alts[0]
        if last is not None and last in en and ch != last:
            self.preempts += 1
        return alts, ch


class RandomChooser:
    def __init__(self, rng, stick=0.0):
        self.rng = rng
        self.stick = stick

    def __call__(self, en, last, step):
        if last is not None and last in en and self.stick > 0 and self.rng.random() < self.stick:
            return en, last
        return en, en[self.rng.randrange(len(en))]


def next_prefix(trace):
    """Stateless-DFS backtracking: the next unexplored choice sequence, or None."""
    i = len(trace) - 1
    while i >= 0:
        alts, ch = trace[i]
        pos = alts.index(ch)
        if pos + 1 < len(alts):
            return [c for _, c in trace[:i]] + [alts[pos + 1]]
        i -= 1
    return None
