"""Reference model, operation encoding and fingerprints shared by the bounded stand-ins
C10, C11 and C13 (zone transactions, versioned snapshots, inbound transfers).

Everything here is written from the documentation of ``dns.transaction`` / ``dns.node`` /
RFC 1982 / RFC 1995 / RFC 5936 and *not* derived from the implementation: the model is a
plain ``dict`` keyed by absolute owner name.

Operations are JSON-able dicts (so that a violation can be replayed from its file):

    {"op": "add"|"replace", "n": <name index>, "sp": <spelling>, "form": "ttl_rdata"|
        "rdataset"|"rrset", "ttl": int, "rds": [<pool key>, ...]}
    {"op": "delete"|"delete_exact", "n":, "sp":, "form": "name"|"type"|"type_covers"|
        "rdataset"|"rdata"|"rrset", "type": "A", "covers": "NONE", "tystr": bool,
        "rds": [...]}
    {"op": "serial", "value": int, "relative": bool, "sp": "default"|<spelling>}

Spellings: "rel" (relative Name), "abs" (absolute Name), "srel"/"sabs" (the same as text).
"""

from __future__ import annotations

import signal
import traceback

import dns.name
import dns.rdata
import dns.rdataclass
import dns.rdataset
import dns.rdatatype
import dns.rrset
import dns.transaction

ORIGIN_TEXT = "example."
ORIGIN = dns.name.from_text(ORIGIN_TEXT)

# owner names of the small scope (relative text; "@" is the apex)
NAMES = ["@", "a", "b.a", "c", "D.c", "e"]
OUTSIDE = "www.example.net."  # not a subdomain of the origin

IN = dns.rdataclass.IN
NONE = dns.rdatatype.NONE

_POOL_TEXT = {
    "a1": ("A", "10.0.0.1"),
    "a2": ("A", "10.0.0.2"),
    "a3": ("A", "10.0.0.3"),
    "q1": ("AAAA", "2001:db8::1"),
    "t1": ("TXT", '"hello"'),
    "t2": ("TXT", '"world" "two"'),
    "m1": ("MX", "10 mail.example.net."),
    "c1": ("CNAME", "t1.example.net."),
    "c2": ("CNAME", "t2.example.net."),
    "n1": ("NS", "ns1.example.net."),
    "n2": ("NS", "ns2.example.net."),
    "x1": ("NSEC", "z.example.net. A NSEC"),
    "x2": ("NSEC", "y.example.net. A TXT NSEC"),
    "sa": ("RRSIG", "A 8 2 300 20300101000000 20200101000000 1 example.net. AAAA"),
    "sa2": ("RRSIG", "A 8 2 300 20300101000000 20200101000000 2 example.net. AAAB"),
    "sc": ("RRSIG", "CNAME 8 2 300 20300101000000 20200101000000 1 example.net. AAAA"),
    "sx": ("RRSIG", "NSEC 8 2 300 20300101000000 20200101000000 1 example.net. AAAA"),
}
_pool_cache: dict = {}


def rd(key: str) -> dns.rdata.Rdata:
    """The rdata of a pool key; ``soa:<serial>`` makes an SOA with that serial."""
    r = _pool_cache.get(key)
    if r is None:
        if key.startswith("soa:"):
            r = dns.rdata.from_text(
                IN, "SOA", f"ns.example.net. host.example.net. {int(key[4:])} 7200 900 1209600 300"
            )
        elif key.startswith("ch:"):
            # a CH-class TXT, for the wrong-class refusals
            r = dns.rdata.from_text(dns.rdataclass.CH, "TXT", '"chaos"')
        else:
            t, text = _POOL_TEXT[key]
            r = dns.rdata.from_text(IN, t, text)
        _pool_cache[key] = r
    return r


_tok_by_id: dict = {}
_rdata_by_tok: dict = {}


def tok(r: dns.rdata.Rdata):
    """A cheap hashable token standing for the rdata *value* (Rdata.__hash__ renders the
    wire form on every call, far too slow for fingerprints).  Pool rdatas are recognised by
    identity; anything else is tokenised by type and presentation text (SOA: by fields)."""
    e = _tok_by_id.get(id(r))
    if e is not None and e[0] is r:
        return e[1]
    if r.rdtype == dns.rdatatype.SOA:
        t = (
            "SOA",
            r.serial,
            r.refresh,
            r.retry,
            r.expire,
            r.minimum,
            tuple(x.lower() for x in r.mname.labels),
            tuple(x.lower() for x in r.rname.labels),
        )
    else:
        t = (int(r.rdtype), r.to_text().lower())
    if len(_tok_by_id) > 200000:
        _tok_by_id.clear()
    _tok_by_id[id(r)] = (r, t)
    _rdata_by_tok.setdefault(t, r)
    return t


def untok(t) -> dns.rdata.Rdata:
    return _rdata_by_tok[t]


def abs_name(n: int) -> dns.name.Name:
    t = NAMES[n]
    if t == "@":
        return ORIGIN
    return dns.name.from_text(t, ORIGIN)


def spell(n, sp: str):
    """The owner name ``n`` (index, or "out" for an out-of-zone name) in spelling ``sp``."""
    if n == "out":
        return dns.name.from_text(OUTSIDE) if sp in ("abs", "rel") else OUTSIDE
    t = NAMES[n]
    if sp == "rel":
        return dns.name.empty if t == "@" else dns.name.from_text(t, None)
    if sp == "abs":
        return abs_name(n)
    if sp == "srel":
        return t
    if sp == "sabs":
        return ORIGIN_TEXT if t == "@" else t + "." + ORIGIN_TEXT
    raise ValueError(sp)


def is_normalised(sp: str, relativize: bool) -> bool:
    return (sp in ("rel", "srel")) == relativize


# ------------------------------------------------------------------ the reference model

_CNAME_KIND, _NEUTRAL_KIND, _REGULAR_KIND = "cname", "neutral", "regular"
_NEUTRAL_TYPES = {dns.rdatatype.NSEC, dns.rdatatype.NSEC3, dns.rdatatype.KEY}
# RFC 1035 / RFC 2672 / RFC 4034: at most one RR of these types at a name
_SINGLETONS = {
    dns.rdatatype.SOA,
    dns.rdatatype.CNAME,
    dns.rdatatype.DNAME,
    dns.rdatatype.NSEC,
    dns.rdatatype.NXT,
}


def kind_of(rdtype, covers):
    base = covers if rdtype == dns.rdatatype.RRSIG else rdtype
    if base == dns.rdatatype.CNAME:
        return _CNAME_KIND
    if base in _NEUTRAL_TYPES:
        return _NEUTRAL_KIND
    return _REGULAR_KIND


def rds_key(rdatas):
    r0 = rdatas[0]
    covers = r0.covers() if r0.rdtype in (dns.rdatatype.RRSIG, dns.rdatatype.SIG) else NONE
    return (int(r0.rdtype), int(covers))


class Model:
    """name (absolute) -> {(rdtype, covers): [ttl, set(rdata)]}"""

    def __init__(self, content=None):
        self.c: dict = {}
        self.zero_alt = None
        if content:
            for n, node in content.items():
                self.c[n] = {k: [v[0], set(v[1])] for k, v in node.items()}

    def copy(self) -> "Model":
        return Model(self.c)

    def fp(self):
        return {
            n: {k: (v[0], tuple(sorted(v[1]))) for k, v in node.items()}
            for n, node in self.c.items()
        }

    def get(self, name, key):
        return self.c.get(name, {}).get(key)

    # the documented node rule: the most recent change wins between CNAME and other data
    def put(self, name, key, ttl, rdatas):
        node = self.c.setdefault(name, {})
        k = kind_of(*key)
        if k == _CNAME_KIND:
            for other in [o for o in node if kind_of(*o) == _REGULAR_KIND]:
                del node[other]
        elif k == _REGULAR_KIND:
            for other in [o for o in node if kind_of(*o) == _CNAME_KIND]:
                del node[other]
        node[key] = [ttl, {tok(r) for r in rdatas}]

    def remove(self, name, key):
        node = self.c.get(name)
        if node is not None and key in node:
            del node[key]
            if not node:
                del self.c[name]

    def soa_serial(self):
        e = self.get(ORIGIN, (int(dns.rdatatype.SOA), 0))
        if not e or not e[1]:
            return None
        return untok(next(iter(e[1]))).serial

    def apply(self, op):
        """Apply ``op``; return the exception class the documentation prescribes (the model
        is then unchanged) or None.  "any" = some exception, unspecified which."""
        kind = op["op"]
        if kind == "serial":
            e = self.get(ORIGIN, (int(dns.rdatatype.SOA), 0))
            if op["value"] < 0:
                return ValueError
            if e is None:
                return KeyError
            old = untok(next(iter(e[1])))
            if op["relative"]:
                if op["value"] > 2**31 - 1:  # RFC 1982 section 3.1
                    return ValueError
                new = (old.serial + op["value"]) % 2**32
            else:
                new = op["value"] % 2**32
            # A resulting serial of 0: the property text says nothing; the library maps it
            # to 1.  The model follows, and remembers that 0 is acceptable as well.
            self.zero_alt = None
            if new == 0:
                alt = self.copy()
                alt.put(ORIGIN, (int(dns.rdatatype.SOA), 0), e[0], [old.replace(serial=0)])
                self.zero_alt = alt
                new = 1
            self.put(ORIGIN, (int(dns.rdatatype.SOA), 0), e[0], [old.replace(serial=new)])
            return None
        if op["n"] == "out":
            return KeyError
        name = abs_name(op["n"])
        if kind in ("add", "replace"):
            rdatas = [rd(k) for k in op["rds"]]
            if rdatas[0].rdclass != IN:
                return ValueError
            key = rds_key(rdatas)
            if key[0] == dns.rdatatype.SOA and name != ORIGIN:
                return ValueError
            ttl = op["ttl"]
            if key[0] in _SINGLETONS:
                rdatas = rdatas[-1:]
            if kind == "add":
                e = self.get(name, key)
                if e is not None:
                    ttl = min(ttl, e[0])  # TTL minimisation on merge
                    if key[0] not in _SINGLETONS:
                        rdatas = [untok(t) for t in e[1]] + rdatas
            self.put(name, key, ttl, rdatas)
            return None
        exact = kind == "delete_exact"
        form = op["form"]
        if form == "name":
            if name not in self.c:
                return dns.transaction.DeleteNotExact if exact else None
            del self.c[name]
            return None
        if form in ("type", "type_covers"):
            key = (
                int(dns.rdatatype.from_text(op["type"])),
                int(dns.rdatatype.from_text(op["covers"])) if form == "type_covers" else 0,
            )
            if self.get(name, key) is None:
                return dns.transaction.DeleteNotExact if exact else None
            self.remove(name, key)
            return None
        rdatas = [rd(k) for k in op["rds"]]
        if rdatas[0].rdclass != IN:
            return ValueError
        key = rds_key(rdatas)
        e = self.get(name, key)
        if e is None:
            return dns.transaction.DeleteNotExact if exact else None
        toks = {tok(r) for r in rdatas}
        if exact and not toks <= e[1]:
            return dns.transaction.DeleteNotExact
        e[1] -= toks
        if not e[1]:
            self.remove(name, key)
        return None


# ------------------------------------------------------------------ driving the real code


def make_rdataset(op):
    rdatas = [rd(k) for k in op["rds"]]
    return dns.rdataset.from_rdata_list(op.get("ttl", 0), rdatas)


def make_rrset(op, name):
    if isinstance(name, str):
        name = dns.name.from_text(name, None)
    rdatas = [rd(k) for k in op["rds"]]
    return dns.rrset.from_rdata_list(name, op.get("ttl", 0), rdatas)


def apply_real(txn, op):
    kind = op["op"]
    if kind == "serial":
        if op.get("sp", "default") == "default":
            txn.update_serial(op["value"], op["relative"])
        else:
            txn.update_serial(op["value"], op["relative"], spell(0, op["sp"]))
        return
    name = spell(op["n"], op["sp"])
    form = op["form"]
    if kind in ("add", "replace"):
        f = txn.add if kind == "add" else txn.replace
        if form == "ttl_rdata":
            f(name, op["ttl"], rd(op["rds"][0]))
        elif form == "rdataset":
            f(name, make_rdataset(op))
        else:
            f(make_rrset(op, name))
        return
    f = txn.delete if kind == "delete" else txn.delete_exact
    if form == "name":
        f(name)
    elif form == "type":
        t = op["type"] if op.get("tystr", True) else int(dns.rdatatype.from_text(op["type"]))
        f(name, t)
    elif form == "type_covers":
        if op.get("tystr", True):
            f(name, op["type"], op["covers"])
        else:
            f(
                name,
                int(dns.rdatatype.from_text(op["type"])),
                int(dns.rdatatype.from_text(op["covers"])),
            )
    elif form == "rdataset":
        f(name, make_rdataset(op))
    elif form == "rdata":
        f(name, rd(op["rds"][0]))
    else:
        f(make_rrset(op, name))


def op_target(op):
    """(absolute name, (rdtype, covers)) the op is about, for read-your-writes probes."""
    if op["op"] == "serial":
        return ORIGIN, (int(dns.rdatatype.SOA), 0)
    if op["n"] == "out":
        return None, None
    name = abs_name(op["n"])
    if op.get("form") == "name":
        return name, None
    if op.get("form") in ("type", "type_covers"):
        return name, (
            int(dns.rdatatype.from_text(op["type"])),
            int(dns.rdatatype.from_text(op["covers"])) if op["form"] == "type_covers" else 0,
        )
    return name, rds_key([rd(k) for k in op["rds"]])


# ------------------------------------------------------------------ fingerprints


def _abs(name, origin):
    return name if name.is_absolute() else name.derelativize(origin)


def items_fp(items, origin, relativize):
    """Fingerprint of (name, node) pairs: {abs name: {(type, covers): (ttl, frozenset)}}.
    Structural anomalies (empty node, empty rdataset, key in the wrong relativity,
    duplicate rdataset key) are kept visible under the pseudo-key "!"."""
    d = {}
    bad = []
    for name, node in items:
        if origin is not None and name.is_absolute() == bool(relativize) and (
            not relativize or name.is_subdomain(origin)
        ):
            bad.append(("key-relativity", str(name)))
        n = _abs(name, origin) if origin is not None else name
        e = {}
        cnt = 0
        for rds in node:
            cnt += 1
            k = (int(rds.rdtype), int(rds.covers))
            if k in e:
                bad.append(("duplicate-rdataset", str(name), k))
            if len(rds) == 0:
                bad.append(("empty-rdataset", str(name), k))
            e[k] = (rds.ttl, tuple(sorted([tok(r) for r in rds])))
        if cnt == 0:
            bad.append(("empty-node", str(name)))
        if n in d:
            bad.append(("duplicate-name", str(name)))
        d[n] = e
    if bad:
        d["!"] = tuple(sorted(map(repr, bad)))
    return d


def zone_fp(zone):
    return items_fp(list(zone.items()), zone.origin, zone.relativize)


def txn_fp(txn, zone):
    """The transaction's own view, through its public iteration API."""
    d = {}
    origin = zone.origin
    names = set()
    for name in txn.iterate_names():
        names.add(_abs(name, origin))
    for name, rds in txn.iterate_rdatasets():
        n = _abs(name, origin)
        d.setdefault(n, {})[(int(rds.rdtype), int(rds.covers))] = (
            rds.ttl,
            tuple(sorted([tok(r) for r in rds])),
        )
    for n in names:
        if n not in d:
            d[n] = {}  # an empty node: visible as a difference from the model
    return d


def fp_text(fp):
    out = []
    for n in sorted(fp, key=lambda x: str(x)):
        if n == "!":
            out.append("!" + repr(fp[n]))
            continue
        for k in sorted(fp[n]):
            ttl, rdatas = fp[n][k]
            out.append(
                f"{n} {dns.rdatatype.to_text(k[0])}"
                + (f"({dns.rdatatype.to_text(k[1])})" if k[1] else "")
                + f" ttl={ttl} "
                + ",".join(sorted(untok(r).to_text() for r in rdatas))
            )
        if not fp[n]:
            out.append(f"{n} <empty node>")
    return "; ".join(out)


def fp_diff(a, b):
    """Short text of the first difference between two fingerprints (expected a, got b)."""
    for n in sorted(set(a) | set(b), key=lambda x: str(x)):
        if a.get(n) != b.get(n):
            return f"at {n}: expected {fp_text({n: a[n]}) if n in a else 'absent'} / got {fp_text({n: b[n]}) if n in b else 'absent'}"
    return "equal"


# ------------------------------------------------------------------ zones

VARIANTS = [
    ("plain", True),
    ("plain", False),
    ("versioned", True),
    ("versioned", False),
    ("btree", True),
    ("btree", False),
]


def zone_class(kind):
    if kind == "plain":
        import dns.zone

        return dns.zone.Zone
    if kind == "versioned":
        import dns.versioned

        return dns.versioned.Zone
    import dns.btreezone

    return dns.btreezone.Zone


class Wedged(Exception):
    """writer() would block forever: a write transaction is still registered."""


def safe_writer(zone, replacement=False):
    """zone.writer() that cannot hang the harness: a versioned zone whose previous write
    transaction was never ended would block in Event.wait()."""
    if getattr(zone, "_write_txn", None) is not None:
        raise Wedged()
    return zone.writer(replacement)


def new_zone(kind, relativize, content: Model | None = None):
    """A zone of the given implementation holding ``content`` (loaded through one
    replacement transaction, the way dns.zone.from_text does)."""
    z = zone_class(kind)(ORIGIN, relativize=relativize)
    if content is not None:
        load(z, content)
    return z


def load(zone, content: Model):
    with safe_writer(zone, True) as txn:
        for n, node in content.c.items():
            name = n.relativize(ORIGIN) if zone.relativize else n
            # other data first, CNAME-kind last cannot matter: the model never mixes them
            for key, (ttl, rdatas) in node.items():
                txn.add(name, dns.rdataset.from_rdata_list(ttl, [untok(t) for t in rdatas]))


def model_of(entries) -> Model:
    """entries: [(name index, ttl, [pool keys])]"""
    m = Model()
    for n, ttl, keys in entries:
        rdatas = [rd(k) for k in keys]
        m.put(abs_name(n), rds_key(rdatas), ttl, rdatas)
    return m


BASES = {
    "apex": [(0, 3600, ["soa:10"]), (0, 3600, ["n1", "n2"])],
    "small": [
        (0, 3600, ["soa:4294967295"]),
        (0, 3600, ["n1"]),
        (1, 300, ["a1"]),
        (2, 200, ["c1"]),
    ],
    "rich": [
        (0, 3600, ["soa:2147483647"]),
        (0, 3600, ["n1", "n2"]),
        (1, 300, ["a1", "a2"]),
        (1, 300, ["sa"]),
        (1, 100, ["t1"]),
        (2, 200, ["c1"]),
        (2, 200, ["sc"]),
        (2, 50, ["x1"]),
        (3, 600, ["n1"]),
        (4, 600, ["a3"]),
        (5, 30, ["m1"]),
    ],
}


_base_cache: dict = {}


def base_model(base_id) -> Model:
    """A fresh copy of the model of BASES[base_id]."""
    m = _base_cache.get(base_id)
    if m is None:
        m = _base_cache[base_id] = model_of(BASES[base_id])
    return m.copy()


# ------------------------------------------------------------------ misc


def innermost_dns_site(exc) -> str:
    """module.function of the innermost frame inside the dns package."""
    site = "?"
    tb = exc.__traceback__
    while tb is not None:
        code = tb.tb_frame.f_code
        fn = code.co_filename.replace("\\", "/")
        if "/dns/" in fn:
            site = (
                "dns."
                + fn.split("/dns/", 1)[1][:-3].replace("/", ".")
                + "."
                + getattr(code, "co_qualname", code.co_name)
            )
        tb = tb.tb_next
    return site


def raised_in_library(exc) -> bool:
    """True when the innermost frame of the exception's traceback is inside the dns package
    (the code under test raised it), False when the harness itself did."""
    tb = exc.__traceback__
    last = None
    while tb is not None:
        last = tb.tb_frame.f_code.co_filename.replace("\\", "/")
        tb = tb.tb_next
    return last is not None and "/dns/" in last and "/bounded/" not in last


class HarnessTimeout(BaseException):
    pass


class watchdog:
    """Safety net only: turns an unexpected hang of the code under test into a
    HarnessTimeout in the main thread (reported as a note, never as a verdict)."""

    def __init__(self, seconds):
        self.seconds = seconds

    def _fire(self, *_):
        raise HarnessTimeout()

    def __enter__(self):
        try:
            self.old = signal.signal(signal.SIGALRM, self._fire)
            signal.setitimer(signal.ITIMER_REAL, self.seconds)
            self.armed = True
        except ValueError:  # not in the main thread
            self.armed = False
        return self

    def __exit__(self, *a):
        if self.armed:
            signal.setitimer(signal.ITIMER_REAL, 0)
            signal.signal(signal.SIGALRM, self.old)
        return False
