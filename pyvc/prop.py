"""Per-property run of the deductive tier: verify every contract and lemma tagged with the
property, compare with the committed ledger, replay counter-models natively, fall back to the
directed native search where a verdict is not available."""

from __future__ import annotations

import concurrent.futures as cf
import importlib
import json
import multiprocessing as mp
import os
import pkgutil
import time
import traceback

ROOT = os.path.dirname(os.path.dirname(os.path.abspath(__file__)))
LEDGER = os.path.join(ROOT, "obligations.lock.json")


def load_all_contracts():
    import contracts

    for m in sorted(pkgutil.iter_modules(contracts.__path__), key=lambda x: x.name):
        importlib.import_module(f"contracts.{m.name}")
    from pyvc.api import REG

    return REG


def _verify(arg):
    kind, name = arg
    try:
        reg = load_all_contracts()
        from pyvc.api import verify_contract, verify_lemma

        if kind == "lemma":
            return verify_lemma(reg, reg.lemmas[name])
        if kind == "static":
            return reg.statics[name][0](reg)
        if kind == "step":
            from pyvc.api import verify_step

            return verify_step(reg, reg.steps[name])
        if kind == "roundtrip":
            from pyvc.api import verify_roundtrip

            return verify_roundtrip(reg, reg.roundtrips[name])
        return verify_contract(reg, reg.contracts[name])
    except Exception:
        return {"contract": {"lemma": "lemma:", "static": "static:", "step": "step:", "roundtrip": "roundtrip:"}.get(kind, "") + name, "status": "engine-error", "unsupported": traceback.format_exc(limit=8),
                "obligations": [], "props": [], "functions": [], "assumed_contracts": [], "inlined": [], "paths": 0, "covers": 0, "solver_time_s": 0}


def _native(arg):
    name, seed, n, first = arg
    try:
        reg = load_all_contracts()
        from pyvc.native import coerce, search, undesc

        c = reg.contracts[name]
        cands = []
        for inp in first or []:
            try:
                cands.append({nm: coerce(ty, undesc(inp[nm])) for nm, ty in c.params.items() if not (nm == "self" and name.endswith(".__init__"))})
            except Exception:
                pass
        return name, search(c, seed, n, cands)
    except Exception:
        return name, (None, {"error": traceback.format_exc(limit=6)})


def items_for(reg, prop, tier="thorough"):
    out = []
    for n, c in reg.contracts.items():
        if prop in c.props:
            if c.heavy and tier == "quick":
                continue
            out.append(("contract", n))
    for n, l in reg.lemmas.items():
        if prop in l.props:
            out.append(("lemma", n))
    for n, (fn, props) in reg.statics.items():
        if prop in props:
            out.append(("static", n))
    for n, l in reg.steps.items():
        if prop in l.props:
            out.append(("step", n))
    for n, l in reg.roundtrips.items():
        if prop in l.props and not (l.heavy and tier == "quick"):
            out.append(("roundtrip", n))
    return out


def _child(fn, arg, q):
    try:
        q.put(fn(arg))
    except Exception:
        q.put(("__error__", traceback.format_exc(limit=6)))


def _run_killable(fn, args, jobs, limit_s, key=lambda a: a):
    """Run fn(arg) for every arg, each in its own process, at most `jobs` at a time; a process
    that exceeds limit_s wall-clock seconds is killed.  Returns {key(arg): result}."""
    ctx = mp.get_context("fork")
    out = {}
    pending = list(args)
    running = []
    while pending or running:
        while pending and len(running) < jobs:
            a = pending.pop(0)
            q = ctx.Queue()
            p = ctx.Process(target=_child, args=(fn, a, q), daemon=True)
            p.start()
            running.append((a, p, q, time.time()))
        for item in list(running):
            a, p, q, t0 = item
            got = False
            res = None
            try:
                res = q.get_nowait()
                got = True
            except Exception:
                if not p.is_alive():
                    try:
                        res = q.get(timeout=1)
                    except Exception:
                        res = ("__error__", "process ended without a result")
                    got = True
            if got:
                out[key(a)] = res
                p.join(1)
                if p.is_alive():
                    p.kill()
                running.remove(item)
            elif time.time() - t0 > limit_s:
                p.kill()
                out[key(a)] = ("__timeout__", f"killed after {limit_s} s")
                running.remove(item)
        time.sleep(0.03)
    return out


def _is_fail(res):
    return isinstance(res, tuple) and len(res) == 2 and res[0] in ("__error__", "__timeout__")


def _run_native(native_jobs, jobs, limit_s):
    """Each native search runs in its own killable process (the real code may hang on a
    counter-example; the per-call watchdog reports that, this limit is the backstop)."""
    raw = _run_killable(_native, native_jobs, jobs, limit_s, key=lambda a: a[0])
    out = {}
    for name, res in raw.items():
        out[name] = (None, {"error": f"native search: {res[1]}"}) if _is_fail(res) else res[1]
    return out


VERIFY_LIMIT_S = float(os.environ.get("PYVC_VERIFY_LIMIT_S", "480"))


def run_items(items, jobs=16, limit_s=None):
    """Verify every item in its own killable process: a solver call that ignores its timeout
    must not hang the check (the contract is then 'undecided', never a violation)."""
    if not items:
        return []
    raw = _run_killable(_verify, items, jobs, limit_s or VERIFY_LIMIT_S, key=lambda a: a)
    out = []
    for it in items:
        res = raw.get(it)
        if _is_fail(res):
            kind, name = it
            out.append({"contract": {"lemma": "lemma:", "static": "static:", "step": "step:", "roundtrip": "roundtrip:"}.get(kind, "") + name,
                        "status": "undecided" if res[0] == "__timeout__" else "engine-error", "unsupported": res[1], "obligations": [],
                        "props": [], "functions": [], "assumed_contracts": [], "inlined": [], "paths": 0, "covers": 0, "solver_time_s": 0})
        else:
            out.append(res)
    return out


def load_ledger():
    try:
        return json.load(open(LEDGER))
    except Exception:
        return {}


def run(prop, tier="quick", seed=0, jobs=16):
    t0 = time.time()
    reg = load_all_contracts()
    items = items_for(reg, prop, tier)
    if tier == "thorough":
        os.environ["PYVC_DEEP_COVERS"] = "1"  # non-vacuity with instantiated hypotheses on every path
    skipped_heavy = sorted(n for n, c in reg.contracts.items() if prop in c.props and c.heavy and tier == "quick")
    results = run_items(items, jobs, limit_s=VERIFY_LIMIT_S if tier == "quick" else 1500)
    ledger = load_ledger()
    n_native = 400 if tier == "quick" else 6000
    native_jobs = []
    for r in results:
        name = r["contract"]
        if name.startswith("lemma:") or name.startswith("static:") or name.startswith("step:") or name.startswith("roundtrip:") or name not in reg.contracts:
            continue
        c = reg.contracts[name]
        if getattr(c, "no_native", False):
            continue
        if c.status == "assumed":
            native_jobs.append((name, seed, n_native, []))
            continue
        first = [o["inputs"] for o in r["obligations"] if o["status"] == "sat" and o.get("inputs")]
        boost = 10 if r["status"] != "proved" else 1
        native_jobs.append((name, seed, n_native * boost, first))
    native = {}
    if native_jobs:
        native = _run_native(native_jobs, jobs, 240 if tier == "quick" else 1200)
    violations, degraded, not_proved = [], [], []
    obligations = discharged = 0
    backends = {}
    for r in results:
        name = r["contract"]
        led = ledger.get(name, {}).get("status")
        obs = r["obligations"]
        for o in obs:
            backends[o["backend"] or "none"] = backends.get(o["backend"] or "none", 0) + 1
        if r["status"] == "assumed":
            continue
        obligations += len(obs)
        discharged += sum(1 for o in obs if o["status"] == "unsat")
        nat_fail, nat_stats = native.get(name, (None, {}))
        if r["status"] == "proved":
            pass
        elif r["status"] == "failed" and led != "proved" and nat_fail is None:
            # never proved on the unchanged tree (not in the ledger): a proof attempt that does not
            # go through is "not proved", not a violation
            pass
        elif r["status"] == "failed":
            for o in obs:
                if o["status"] != "sat":
                    continue
                v = {
                    "clause": o["label"], "tier": "proof", "contract": name,
                    "what": f"obligation {o['label']} of {name} no longer holds ({o.get('detail') or 'counter-model found'})",
                    "sig": {"contract": name, "obligation": _norm(o["label"])},
                    "replay": {"kind": "contract", "contract": name, "obligation": o["label"], "solver": o["backend"],
                               "model": o.get("model"), "model_inputs": o.get("inputs"), "path": o["path"]},
                    "ledger": led,
                }
                if nat_fail is not None:
                    v["replay"]["inputs"] = nat_fail["inputs"]
                    v["replay"]["native_detail"] = nat_fail["detail"]
                    v["replay"]["native_clause"] = nat_fail["clause"]
                    v["sig"]["native_clause"] = nat_fail["clause"]
                    v["no_input"] = False
                    v["what"] += f"; replayed on the real code: {nat_fail['detail']}"
                else:
                    v["no_input"] = True
                    v["replay"]["native_search"] = nat_stats
                violations.append(v)
        else:
            degraded.append({"contract": name, "status": r["status"], "reason": r.get("unsupported") or "undecided obligation(s)", "ledger": led})
        if r["status"] != "proved":
            not_proved.append({"contract": name, "status": r["status"], "reason": r.get("unsupported")})
        # a native failure is a failing input on the real code whatever the solver said
        if nat_fail is not None and not any(v.get("contract") == name for v in violations):
            violations.append({
                "clause": f"{name}.{nat_fail['clause']}", "tier": "bounded-native", "contract": name,
                "what": f"contract of {name} fails on the real code: {nat_fail['detail']}",
                "sig": {"contract": name, "native_clause": nat_fail["clause"]},
                "replay": {"kind": "contract", "contract": name, "inputs": nat_fail["inputs"], "native_detail": nat_fail["detail"], "native_clause": nat_fail["clause"]},
                "no_input": False, "ledger": led,
            })
    functions, assumed, inlined = [], set(), set()
    for r in results:
        for f in r.get("functions", []):
            if f not in functions:
                functions.append(f)
        assumed |= set(r.get("assumed_contracts", []))
        inlined |= set(r.get("inlined", []))
    trusted = sorted(n for n, c in reg.contracts.items() if c.status == "assumed" and (prop in c.props or n in assumed))
    return {
        "prop": prop, "tier": tier, "seed": seed,
        "contracts": [{k: r.get(k) for k in ("contract", "status", "paths", "covers", "wall_s", "solver_time_s", "unsupported", "note")} | {"vcs": len(r["obligations"]), "unsat": sum(1 for o in r["obligations"] if o["status"] == "unsat")} for r in results],
        "obligations": obligations, "discharged": discharged, "backends": backends,
        "solver_time_s": round(sum(r.get("solver_time_s", 0) for r in results), 3),
        "functions": functions, "assumed_contracts": sorted(assumed), "inlined": sorted(inlined), "trusted_contracts": trusted,
        "externals": dict(getattr(reg, "externals", {})),
        "violations": violations, "degraded": degraded, "not_proved": not_proved, "not_run_in_quick": skipped_heavy,
        "native": {k: v[1] for k, v in native.items()},
        "samples": _samples(results),
        "wall_s": round(time.time() - t0, 3),
        "raw": results,
    }


def _norm(label):
    return label


def _samples(results):
    out = []
    for r in results:
        for o in r["obligations"][:1]:
            out.append({"contract": r["contract"], "obligation": o["label"], "status": o["status"], "backend": o["backend"], "time_s": o["time_s"]})
        if len(out) >= 8:
            break
    return out


def relock(only=None):
    """Regenerate the ledger; with `only` (names as they appear in the ledger), re-verify just those and merge."""
    reg = load_all_contracts()
    items = [("contract", n) for n in reg.contracts] + [("lemma", n) for n in reg.lemmas] + [("static", n) for n in reg.statics] + [("step", n) for n in reg.steps] + [("roundtrip", n) for n in reg.roundtrips]
    led = {}
    if only:
        led = json.load(open(LEDGER))
        pref = {"lemma": "lemma:", "static": "static:", "step": "step:", "roundtrip": "roundtrip:", "contract": ""}
        items = [(k, n) for k, n in items if pref[k] + n in only or n in only]
    os.environ["PYVC_DEEP_COVERS"] = "1"  # the ledger is built with the instantiated non-vacuity check on every path
    results = run_items(items, limit_s=1500)
    for r in results:
        if r.get("paths_infeasible_after_instantiation"):
            print(f"NOTE {r['contract']}: {r['paths_infeasible_after_instantiation']} path(s) infeasible only after instantiation "
                  "(legitimate when a branch contradicts a quantified precondition; otherwise look for an unsound hypothesis)")
        led[r["contract"]] = {"status": r["status"], "obligations": sorted({o["label"] for o in r["obligations"]}), "vcs": len(r["obligations"])}
    json.dump(led, open(LEDGER, "w"), indent=1, sort_keys=True)
    return led


if __name__ == "__main__":
    import sys

    if sys.argv[1] == "relock":
        led = relock(set(sys.argv[2:]) or None)
        for k, v in sorted(led.items()):
            print(f"{v['status']:12s} {k} vcs={v['vcs']}")
    else:
        r = run(sys.argv[1], sys.argv[2] if len(sys.argv) > 2 else "quick")
        r.pop("raw")
        print(json.dumps(r, indent=1)[:6000])
