"""Specification functions: each has an SMT definition (used in VCs) and an executable one
(used for native replay / bounded runs).  Recursive definitions are uninterpreted functions
whose defining equation is instantiated at the argument terms that occur (fuel 1)."""

from __future__ import annotations

import z3

from . import sym as S
from .api import REG
from .sym import SBool, SBytes, SInt, SSeq, Unsupported, simp, to_z3

ARR_BYTES = z3.ArraySort(S.IntS, S.SeqI)


def _seq_parts(I, labels):
    """(array, offset, length) view of a tuple/list of bytes"""
    from . import models as M

    if isinstance(labels, SSeq):
        return labels.arr, to_z3(labels.off), to_z3(labels.n)
    if isinstance(labels, (tuple, list)):
        arr = z3.K(S.IntS, z3.Empty(S.SeqI))
        for i, x in enumerate(labels):
            arr = z3.Store(arr, i, M.as_seq(I, x))
        return arr, z3.IntVal(0), z3.IntVal(len(labels))
    raise Unsupported("expected a tuple of bytes")


# wirelen(labels, j) = sum_{k<j} (len(labels[k]) + 1) --------------------------------------
# encoded as W(arr, lo, hi): the sum over array indices lo <= k < hi, so that slices of a tuple
# (same array, shifted offset) share one function.  Facts instantiated at the terms that occur:
# unfolding at either end, non-negativity, and additivity W(a,c) = W(a,b) + W(b,c) between
# terms over the same array (L-sum: additivity of a finite sum, by induction on the length).
WIRELEN = z3.Function("wirelen", ARR_BYTES, S.IntS, S.IntS, S.IntS)  # (arr, lo, hi)


def _w_raw(I, arr, lo, hi):
    t = WIRELEN(arr, lo, hi)
    I.path.assume(z3.And(t >= 0, z3.Implies(hi <= lo, t == 0)))
    return t


def _w_term(I, arr, lo, hi, unfold=True):
    lo, hi = simp(lo), simp(hi)
    t = _w_raw(I, arr, lo, hi)
    seen = I.path.__dict__.setdefault("_wterms", [])
    key = (arr.get_id(), lo.get_id(), hi.get_id())
    if any(k == key for k, _ in seen):
        return t
    seen.append((key, (arr, lo, hi)))
    if unfold:
        el_hi = z3.Length(z3.Select(arr, hi - 1)) + 1
        el_lo = z3.Length(z3.Select(arr, lo)) + 1
        I.path.assume(z3.Implies(hi > lo, t == _w_raw(I, arr, lo, simp(hi - 1)) + el_hi))
        I.path.assume(z3.Implies(hi > lo, t == el_lo + _w_raw(I, arr, simp(lo + 1), hi)))
    for k2, (arr2, a, b) in seen[:-1][-4:]:
        if k2[0] != key[0]:
            continue
        # additivity instances between [lo,hi) and [a,b)
        I.path.assume(z3.Implies(z3.And(lo <= a, a <= b, b <= hi),
                                 t == _w_raw(I, arr, lo, a) + WIRELEN(arr, a, b) + _w_raw(I, arr, b, hi)))
        I.path.assume(z3.Implies(z3.And(a <= lo, lo <= hi, hi <= b),
                                 WIRELEN(arr, a, b) == _w_raw(I, arr, a, lo) + t + _w_raw(I, arr, hi, b)))
    return t


def wirelen_smt(I, labels, j):
    arr, off, n = _seq_parts(I, labels)
    jz = to_z3(j)
    t = _w_term(I, arr, off, off + jz)
    return SInt(t)


def wirelen_native(labels, j):
    return sum(len(x) + 1 for x in list(labels)[:j])


REG.spec("wirelen", wirelen_smt, wirelen_native, "sum over k<j of len(labels[k])+1")


def lower_smt(I, b):
    from . import models as M

    return SBytes(M.lower_of(I, M.as_seq(I, b)), "bytes")


REG.spec("lower", lower_smt, lambda b: bytes(b).lower(), "ASCII lower-casing of an octet string")


def blt_smt(I, a, b):
    from . import models as M

    x, y = M.as_seq(I, a), M.as_seq(I, b)
    M.blt_facts(I, x, y)
    return SBool(M.BLT(x, y))


REG.spec("blt", blt_smt, lambda a, b: bytes(a) < bytes(b), "lexicographic order on octet strings")


def implies_smt(I, a, b):
    return SBool(simp(z3.Implies(I.as_bool_expr(a), I.as_bool_expr(b))))


# wenc(labels, j, canon): RFC 1035 3.1 wire encoding of the first j labels: for each label one
# length octet followed by the label (ASCII-lowered when canon) ----------------------------------
WENC = z3.Function("wire_enc", ARR_BYTES, S.IntS, S.IntS, S.BoolS, S.SeqI)  # (arr, lo, hi, canon)


def wenc_smt(I, labels, j, canon):
    from . import models as M

    arr, off, n = _seq_parts(I, labels)
    lo, hi = simp(off), simp(off + to_z3(j))
    cz = canon.e if isinstance(canon, SBool) else z3.BoolVal(bool(canon))
    t = WENC(arr, lo, hi, cz)
    last = z3.Select(arr, hi - 1)
    lowered = M.lower_of(I, last)
    body = z3.Concat(WENC(arr, lo, hi - 1, cz), z3.Unit(z3.Length(last)), z3.If(cz, lowered, last))
    I.path.assume(t == z3.If(hi <= lo, z3.Empty(S.SeqI), body))
    # lemma L-frame (by induction on hi - lo, stated, not re-proved): the encoding of labels[lo:hi] does not depend on
    # array cells outside [lo, hi) - instantiated for the stores the array term is built from (e.g. list.append)
    a = arr
    for _ in range(4):
        if z3.is_app(a) and a.decl().kind() == z3.Z3_OP_STORE:
            base, idx = a.arg(0), a.arg(1)
            for h in (hi, hi - 1):  # the term itself and its unfolding
                I.path.assume(z3.Implies(z3.Or(idx >= h, idx < lo), WENC(arr, lo, h, cz) == WENC(base, lo, h, cz)))
            a = base
        else:
            break
    return SBytes(t, "bytes")


def wenc_native(labels, j, canon):
    out = b""
    for l in list(labels)[:j]:
        out += bytes([len(l)]) + (bytes(l).lower() if canon else bytes(l))
    return out


REG.spec("wenc", wenc_smt, wenc_native, "concatenation over k<j of [len(labels[k])] ++ labels[k] (lower-cased when canon)")


def be_smt(I, x, n):
    from .models2 import be_bytes

    if not isinstance(n, int):
        raise Unsupported("be(): constant width required")
    return SBytes(be_bytes(to_z3(x), n), "bytes")


REG.spec("be", be_smt, lambda x, n: int(x).to_bytes(n, "big"), "big-endian encoding of x in n octets")


def kpos_of_smt(I, d):
    """ghost: the position array of a dict's keys in its iteration order"""
    from .sym import SMap
    from . import models as M

    if not isinstance(d, SMap):
        raise Unsupported("kpos_of: symbolic dict expected")
    if d.keys is None:
        M.attach_key_order(I, d, "d")
    return _ArrView(d.kpos)


class _ArrView:
    """indexable ghost array (Int -> Int) usable in clauses as a[k]"""

    def __init__(self, arr):
        self.arr = arr


REG.spec("kpos_of", kpos_of_smt, lambda d: {k: i for i, k in enumerate(d)}, "position of each key in the dict's iteration order")


# esc(label, i, special, lo): master-file text of the first i octets of an octet string:
# an octet in `special` is backslash-quoted, a printable octet (lo <= c < 0x7F) is itself, any
# other octet is \DDD (RFC 1035 5.1) ---------------------------------------------------------
ESC = {}


def _emit(c, special, lo):
    quoted = z3.Concat(z3.Unit(z3.IntVal(92)), z3.Unit(c))
    plain = z3.Unit(c)
    ddd = z3.Concat(z3.Unit(z3.IntVal(92)), z3.Unit(48 + c / 100), z3.Unit(48 + (c / 10) % 10), z3.Unit(48 + c % 10))
    is_special = z3.Or(*[c == v for v in special]) if special else z3.BoolVal(False)
    return z3.If(is_special, quoted, z3.If(z3.And(c >= lo, c < 0x7F), plain, ddd))


def _esc_smt(special, lo, tag):
    fn = z3.Function("esc_" + tag, S.SeqI, S.IntS, S.SeqI)

    def smt(I, label, i):
        from . import models as M

        e = M.as_seq(I, label)
        iz = to_z3(i)
        t = fn(e, iz)
        c = e[iz - 1]
        I.path.assume(t == z3.If(iz <= 0, z3.Empty(S.SeqI), z3.Concat(fn(e, iz - 1), _emit(c, special, lo))))
        return SBytes(t, "str")

    return smt


def _esc_native(special, lo):
    def native(label, i):
        out = ""
        for c in bytes(label)[:i]:
            if c in special:
                out += "\\" + chr(c)
            elif lo <= c < 0x7F:
                out += chr(c)
            else:
                out += "\\%03d" % c
        return out

    return native


_NAME_SPECIAL = sorted(b'"().;\\@$')
_QSTR_SPECIAL = sorted(b'"\\')
REG.spec("esc_name", _esc_smt(_NAME_SPECIAL, 0x21, "name"), _esc_native(_NAME_SPECIAL, 0x21),
         "RFC 1035 5.1 text of a label: \" ( ) . ; \\ @ $ are backslash-quoted, 0x21..0x7E printed, everything else \\DDD")
REG.spec("esc_qstring", _esc_smt(_QSTR_SPECIAL, 0x20, "qstring"), _esc_native(_QSTR_SPECIAL, 0x20),
         "text of a quoted character-string: \" and \\ are backslash-quoted, 0x20..0x7E printed, everything else \\DDD")


def snap_smt(I, ref, old_ref):
    from .sym import SRef

    if not isinstance(ref, SRef):
        raise Unsupported("snap(ref, old): heap reference expected")
    if isinstance(old_ref, SRef):
        return SRef(ref.cls, ref.id, old_ref.heap)
    h = getattr(old_ref, "heap_snapshot", None)
    if h is None:
        h = getattr(old_ref, "heap", None)
    if h is None:
        raise Unsupported("snap(ref, old): the second argument is not a pre-state value")
    return SRef(ref.cls, ref.id, h)


REG.spec("snap", snap_smt, lambda r, o: r, "the object r as it was in the heap snapshot that old_* values refer to")


def cur_smt(I, ref):
    from .sym import SRef

    if not isinstance(ref, SRef):
        raise Unsupported("cur(ref): heap reference expected")
    return SRef(ref.cls, ref.id, None)


REG.spec("cur", cur_smt, lambda r: r, "the object r in the current heap (r may have been read from a snapshot)")


def ref_smt(I, clsname, ident):
    from .sym import SRef

    return SRef(I.reg.resolve(clsname), to_z3(ident), None)


REG.spec("ref", ref_smt, lambda c, i: i, "the object of heap class c with identity i, in the current heap")


def idof_smt(I, ref):
    from .sym import SRef, SInt

    if isinstance(ref, S.SObj):
        from .models import key_of

        return SInt(key_of(I, ref))  # a record object: one abstract identity per allocation
    if not isinstance(ref, SRef):
        raise Unsupported("idof(ref): heap reference expected")
    return SInt(ref.id)


REG.spec("idof", idof_smt, lambda r: id(r), "the identity of a heap object (the integer that ghost sequences of objects hold)")


def allocated_smt(I, ref):
    from .sym import SRef, SBool
    from .models import heap_limit

    if not isinstance(ref, SRef):
        raise Unsupported("allocated(ref): heap reference expected")
    return SBool(z3.And(ref.id >= 1, ref.id < heap_limit(I)))


REG.spec("allocated", allocated_smt, lambda r: r is not None, "r is an object that exists in the state the clause speaks about (not one created later)")
