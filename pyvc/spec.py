"""Specification functions: each has an SMT definition (used in VCs) and an executable one
(used for native replay / bounded runs).  Recursive definitions are uninterpreted functions
whose defining equation is instantiated at the argument terms that occur (fuel 1)."""

from __future__ import annotations

import z3

from . import sym as S
from .api import REG
from .sym import SBool, SBytes, SInt, SSeq, Unsupported, simp, to_z3

ARR_BYTES = z3.ArraySort(S.IntS, S.SeqI)


def _seq_parts(I, labels):
    """(array, offset, length) view of a tuple/list of bytes"""
    from . import models as M

    if isinstance(labels, SSeq):
        return labels.arr, to_z3(labels.off), to_z3(labels.n)
    if isinstance(labels, (tuple, list)):
        arr = z3.K(S.IntS, z3.Empty(S.SeqI))
        for i, x in enumerate(labels):
            arr = z3.Store(arr, i, M.as_seq(I, x))
        return arr, z3.IntVal(0), z3.IntVal(len(labels))
    raise Unsupported("expected a tuple of bytes")


# wirelen(labels, j) = sum_{k<j} (len(labels[k]) + 1) --------------------------------------
WIRELEN = z3.Function("wirelen", ARR_BYTES, S.IntS, S.IntS, S.IntS)  # (arr, off, j)


def _wirelen_unfold(I, arr, off, j):
    t = WIRELEN(arr, off, j)
    I.path.assume(t == z3.If(j <= 0, 0, WIRELEN(arr, off, j - 1) + z3.Length(z3.Select(arr, off + j - 1)) + 1))
    I.path.assume(t >= 0)
    I.path.assume(z3.Implies(j >= 0, t >= j))
    return t


def wirelen_smt(I, labels, j):
    arr, off, n = _seq_parts(I, labels)
    jz = to_z3(j)
    t = _wirelen_unfold(I, arr, off, jz)
    # second unfolding step towards j-1 (fuel 2) helps preservation proofs
    _wirelen_unfold(I, arr, off, simp(jz - 1))
    return SInt(t)


def wirelen_native(labels, j):
    return sum(len(x) + 1 for x in list(labels)[:j])


REG.spec("wirelen", wirelen_smt, wirelen_native, "sum over k<j of len(labels[k])+1")


def lower_smt(I, b):
    from . import models as M

    return SBytes(M.lower_of(I, M.as_seq(I, b)), "bytes")


REG.spec("lower", lower_smt, lambda b: bytes(b).lower(), "ASCII lower-casing of an octet string")


def blt_smt(I, a, b):
    from . import models as M

    x, y = M.as_seq(I, a), M.as_seq(I, b)
    M.blt_facts(I, x, y)
    return SBool(M.BLT(x, y))


REG.spec("blt", blt_smt, lambda a, b: bytes(a) < bytes(b), "lexicographic order on octet strings")


def implies_smt(I, a, b):
    return SBool(simp(z3.Implies(I.as_bool_expr(a), I.as_bool_expr(b))))
