"""Native evaluation of contracts on the real functions (replay of counter-models and the
directed search used when a failed obligation has no replayable model).

The same clause text that is turned into VCs is evaluated by CPython here, with the
executable definitions of the spec functions.  Results from this module are *bounded*
evidence, never counted as discharged obligations.
"""

from __future__ import annotations

import copy
import random
import traceback

from .api import REG, Contract
from .sym import Ty

SPECIAL = [0, 1, 0x2E, 0x5C, 0x22, 0x40, 0x24, 0x28, 0x29, 0x3B, 0x20, 0x30, 0x39, 0x41, 0x5A, 0x5B, 0x60, 0x61, 0x7A, 0x7B, 0x7F, 0x80, 0xC0, 0xFF]


def gen_value(ty: Ty, rng: random.Random, size=2):
    k = ty.kind
    if k == "int":
        lo = ty.lo if ty.lo is not None else -3
        hi = ty.hi if ty.hi is not None else 70000
        cands = [lo, hi, lo + 1, hi - 1, 0, 1, 2, 63, 64, 255, 256, 0x3FFF, 0x4000, 65535, 65536, 2**31 - 1, 2**31, 2**32 - 1, 2**32]
        cands = [c for c in cands if lo <= c <= hi]
        if rng.random() < 0.6 and cands:
            return rng.choice(cands)
        return rng.randint(lo, min(hi, lo + 10**6) if rng.random() < 0.5 else hi)
    if k == "bool":
        return rng.random() < 0.5
    if k == "real":
        return rng.choice([0.0, 0.5, 1.0, 2.0, 5.0, 30.0, rng.random() * 100])
    if k in ("bytes", "bytearray", "str"):
        n = rng.choice([0, 1, 1, 2, 3, 3, 5, 8, 62, 63, 64, 255] if size > 1 else [0, 1, 2, 3])
        bs = bytes(rng.choice(SPECIAL) if rng.random() < 0.7 else rng.randrange(256) for _ in range(n))
        if k == "str":
            return "".join(chr(b) for b in bs)
        return bytearray(bs) if k == "bytearray" else bs
    if k == "seq":
        n = rng.choice([0, 1, 1, 2, 2, 3, 4, 6])
        if rng.random() < 0.05:
            n = rng.choice([60, 127, 128, 130])
            items = [gen_value(ty.ety, rng, 1) for _ in range(n)]
        else:
            items = [gen_value(ty.ety, rng, size) for _ in range(n)]
        return tuple(items) if ty.seqkind == "tuple" else list(items)
    if k == "fixed":
        return tuple(gen_value(t, rng, size) for t in ty.items)
    if k == "const":
        return ty.value
    if k == "oneof":
        return rng.choice(ty.values)
    if k == "opt":
        return None if rng.random() < 0.3 else gen_value(ty.inner, rng, size)
    if k == "obj":
        name = ty.cls if isinstance(ty.cls, str) else f"{ty.cls.__module__}.{ty.cls.__qualname__}"
        decl = REG.classes.get(name)
        fields = dict(decl.fields) if decl and not getattr(ty, "raw", False) else {}
        fields.update(ty.fields)
        gen = getattr(decl, "gen", None) if decl else None
        if gen is not None:
            return gen(rng)
        vals = {f: gen_value(t, rng, size) for f, t in fields.items()}
        return make_object(name, vals)
    if k == "map":
        return {gen_value(ty.kty, rng, 1): gen_value(ty.vty, rng, 1) for _ in range(rng.randrange(4))}
    raise NotImplementedError(f"generator for {ty}")


def make_object(clsname, vals):
    decl = REG.classes.get(clsname)
    mk = getattr(decl, "make", None) if decl else None
    if mk is None:
        raise NotImplementedError(f"no native constructor registered for {clsname}")
    return mk(vals)


class NativeResult:
    def __init__(self, verdict, detail="", clause=None):
        self.verdict = verdict  # pass | fail | pre-false | skip
        self.detail = detail
        self.clause = clause


class _Ghosted:
    """Clause-side view of a real object that adds the ghost fields of its class declaration."""

    def __init__(self, obj, ghost):
        object.__setattr__(self, "_obj", obj)
        object.__setattr__(self, "_ghost", ghost)

    def __getattr__(self, name):
        g = object.__getattribute__(self, "_ghost")
        o = object.__getattribute__(self, "_obj")
        if name in g:
            return g[name](o)
        return getattr(o, name)

    def __eq__(self, other):
        return object.__getattribute__(self, "_obj") == (object.__getattribute__(other, "_obj") if isinstance(other, _Ghosted) else other)

    def __hash__(self):
        return hash(object.__getattribute__(self, "_obj"))


def _ghost_view(v):
    try:
        name = f"{type(v).__module__}.{type(v).__qualname__}"
    except Exception:
        return v
    for k in type(v).__mro__:
        decl = REG.classes.get(f"{k.__module__}.{k.__qualname__}")
        if decl is not None and decl.ghost:
            return _Ghosted(v, decl.ghost)
    return v


def _env(fn, values, extra=None):
    env = dict(fn.__globals__)
    for nm, sf in REG.spec_functions.items():
        env[nm] = sf.native
    env.update({k: _ghost_view(v) for k, v in values.items()})
    if extra:
        env.update({k: _ghost_view(v) for k, v in extra.items()})
    return env


def _ev(text, env):
    return eval(compile(text.strip(), "<clause>", "eval"), env)


def native_check(c: Contract, values: dict) -> NativeResult:
    fn = REG.resolve_function(c.target)
    try:
        pre = {k: copy.deepcopy(v) for k, v in values.items()}
    except Exception:
        pre = dict(values)
    env0 = _env(fn, pre)
    try:
        for r in c.requires:
            if not _ev(r, env0):
                return NativeResult("pre-false")
    except Exception as e:
        return NativeResult("pre-false", f"requires raised {e!r}")
    import inspect

    sig = list(inspect.signature(fn).parameters)
    args = [values[p] for p in sig if p in values]
    old = {"old_" + k: v for k, v in pre.items()}
    is_init = c.name.endswith(".__init__")
    try:
        if is_init:
            cls = REG.resolve(c.name.rsplit(".", 1)[0])
            values = dict(values)
            values["self"] = cls(*[values[p] for p in sig if p in values and p != "self"])
            result = None
        else:
            result = fn(*args)
    except Exception as e:
        matched = False
        ok = False
        for exc_name, cond, mode in c.raises:
            k = REG.resolve(exc_name)
            if isinstance(e, k):
                matched = True
                try:
                    if _ev(cond, env0):
                        ok = True
                except Exception as e2:
                    return NativeResult("skip", f"clause evaluation error {e2!r}")
        if not matched:
            return NativeResult("fail", f"escaping {type(e).__module__}.{type(e).__qualname__}: {e!r}", "exceptions.unexpected")
        if not ok:
            return NativeResult("fail", f"raised {type(e).__name__} although its condition does not hold", f"raises[{type(e).__name__}]")
        env1 = _env(fn, values, old)
        try:
            for cl in c.raise_clauses(REG, type(e)):
                if not _ev(cl, env1):
                    return NativeResult("fail", f"after {type(e).__name__}: {cl}", "ensures_raise")
        except Exception as e2:
            return NativeResult("skip", f"clause evaluation error {e2!r}")
        return NativeResult("pass")
    try:
        for exc_name, cond, mode in c.raises:
            if mode == "iff" and _ev(cond, env0):
                return NativeResult("fail", f"returned normally although {exc_name} is required: {cond}", f"no-raise[{exc_name.rsplit('.', 1)[-1]}]")
        env1 = _env(fn, values, dict(old, result=result))
        for i, cl in enumerate(c.ensures):
            if not _ev(cl, env1):
                return NativeResult("fail", f"postcondition false: {cl}", f"ensures[{i}]")
    except Exception as e2:
        return NativeResult("skip", f"clause evaluation error {e2!r}\n{traceback.format_exc(limit=3)}")
    return NativeResult("pass")


def describe(values):
    out = {}
    for k, v in values.items():
        out[k] = _desc(v)
    return out


def _desc(v, depth=0):
    if isinstance(v, (bytes, bytearray)):
        return {"__bytes__": bytes(v).hex()}
    if isinstance(v, (int, str, bool, float)) or v is None:
        return v
    if isinstance(v, (list, tuple)):
        return [_desc(x, depth + 1) for x in v]
    if isinstance(v, dict):
        return {str(k): _desc(x, depth + 1) for k, x in v.items()}
    decl = None
    name = f"{type(v).__module__}.{type(v).__qualname__}"
    decl = REG.classes.get(name)
    if decl is not None and depth < 3:
        return {"__obj__": name, "fields": {f: _desc(getattr(v, f, None), depth + 1) for f in decl.fields}}
    return repr(v)


def undesc(d):
    if isinstance(d, dict):
        if set(d) == {"__bytes__"}:
            return bytes.fromhex(d["__bytes__"])
        if "__obj__" in d:
            return make_object(d["__obj__"], {k: undesc(v) for k, v in d["fields"].items()})
        return {k: undesc(v) for k, v in d.items()}
    if isinstance(d, list):
        return [undesc(x) for x in d]
    return d


def coerce(ty: Ty, v):
    """shape a JSON-decoded value according to the parameter type"""
    if v is None:
        return None
    if ty.kind == "seq":
        items = [coerce(ty.ety, x) for x in v]
        return tuple(items) if ty.seqkind == "tuple" else list(items)
    if ty.kind == "fixed":
        return tuple(coerce(t, x) for t, x in zip(ty.items, v))
    if ty.kind == "opt":
        return coerce(ty.inner, v)
    if ty.kind == "bytearray":
        return bytearray(v)
    return v


class _Hang(BaseException):
    pass


def _with_alarm(fn, c, values, seconds=6):
    """Run one native evaluation under a watchdog: a call that does not return within the limit
    is itself a failure of the termination clause (hang on a concrete input)."""
    import signal

    def on_alarm(signum, frame):
        raise _Hang()

    try:
        old = signal.signal(signal.SIGALRM, on_alarm)
    except ValueError:  # not in the main thread
        return fn(c, values)
    signal.alarm(seconds)
    try:
        return fn(c, values)
    except _Hang:
        return NativeResult("fail", f"the call did not return within {seconds} s (non-termination)", "termination")
    finally:
        signal.alarm(0)
        signal.signal(signal.SIGALRM, old)


def search(c: Contract, seed: int, n: int, first=None):
    """Directed native search: evaluate the contract on generated inputs (and first on the
    given candidate inputs).  Returns (failure or None, stats)."""
    rng = random.Random(seed)
    stats = {"evaluated": 0, "pre_false": 0, "skipped": 0, "passed": 0}
    cands = list(first or [])
    for i in range(n + len(cands)):
        if i < len(cands):
            values = cands[i]
        else:
            try:
                values = {nm: gen_value(ty, rng) for nm, ty in c.params.items() if not (nm == "self" and c.name.endswith(".__init__"))}
            except NotImplementedError as e:
                stats["generator"] = str(e)
                break
        try:
            shown = describe(values)
        except Exception:
            shown = None
        r = _with_alarm(native_check, c, values)
        stats["evaluated"] += 1
        if r.verdict == "fail":
            return {"inputs": shown, "detail": r.detail, "clause": r.clause}, stats
        if r.verdict == "pre-false":
            stats["pre_false"] += 1
        elif r.verdict == "skip":
            stats["skipped"] += 1
            stats.setdefault("skip_example", r.detail)
        else:
            stats["passed"] += 1
    return None, stats


def replay_inputs(c: Contract, inputs_desc):
    values = {}
    for nm, ty in c.params.items():
        if nm == "self" and c.name.endswith(".__init__"):
            continue
        values[nm] = coerce(ty, undesc(inputs_desc[nm]))
    return native_check(c, values)


# ----------------------------------------------------------------------------- model reification
def reify_inputs(path, model):
    """Turn a z3 model into JSON-described concrete inputs for the contract's parameters."""
    import z3

    from .sym import SBool, SBytes, SInt, SObj, SReal, SSeq

    def ev(e):
        return model.eval(e, model_completion=True)

    def seq_bytes(e, cap=4096):
        n = ev(z3.Length(e))
        if not z3.is_int_value(n) or n.as_long() > cap:
            raise ValueError("sequence too long to reify")
        out = []
        for i in range(n.as_long()):
            x = ev(e[i])
            if not z3.is_int_value(x):
                raise ValueError("non-numeral element")
            out.append(x.as_long())
        return out

    def val(v, depth=0):
        if isinstance(v, SInt):
            x = ev(v.e)
            return x.as_long()
        if isinstance(v, SBool):
            return z3.is_true(ev(v.e))
        if isinstance(v, SReal):
            x = ev(v.e)
            return float(x.as_fraction())
        if isinstance(v, SBytes):
            xs = seq_bytes(v.e)
            if v.kind == "str":
                return "".join(chr(c) for c in xs)
            if any(not 0 <= c <= 255 for c in xs):
                raise ValueError("octet out of range in model")
            return {"__bytes__": bytes(xs).hex()}
        if isinstance(v, SSeq):
            n = ev(z3.IntVal(v.n) if isinstance(v.n, int) else v.n).as_long()
            if n > 400:
                raise ValueError("tuple too long to reify")
            from .sym import wrap

            return [val(wrap(v.ety, v.at(i)), depth + 1) for i in range(n)]
        if isinstance(v, SObj):
            name = f"{v.cls.__module__}.{v.cls.__qualname__}"
            return {"__obj__": name, "fields": {k: val(x, depth + 1) for k, x in v.fields.items()}}
        if isinstance(v, (bytes, bytearray)):
            return {"__bytes__": bytes(v).hex()}
        if isinstance(v, (list, tuple)):
            return [val(x, depth + 1) for x in v]
        if isinstance(v, (int, str, bool, float)) or v is None:
            return v
        raise ValueError(f"cannot reify {type(v).__name__}")

    return {k: val(v) for k, v in path.inputs.items()}
