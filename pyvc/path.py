"""Path state, VC discharge and solver back ends for pyvc."""

from __future__ import annotations

import os
import shutil
import subprocess
import tempfile
import time

import z3

from .sym import simp

FEAS_TIMEOUT_MS = int(os.environ.get("PYVC_FEAS_MS", "400"))
ARITY2_TERMS = 36
DEEP_COVER_PATHS = 60
POOL2_TERMS = 48
COVER_TIMEOUT_MS = int(os.environ.get("PYVC_COVER_MS", "10000"))
VC_TIMEOUT_MS = int(os.environ.get("PYVC_VC_MS", "6000"))
EXT_TIMEOUT_S = float(os.environ.get("PYVC_EXT_S", "30"))
CVC5 = "/usr/bin/cvc5"


class PathEnd(Exception):
    """The current path is cut (loop body re-established the invariant, or the path is infeasible)."""


class Infeasible(PathEnd):
    pass


def _mk_solver(timeout_ms):
    s = z3.Solver()
    s.set("timeout", timeout_ms)
    return s


def external_solve(smt2: str, timeout_s: float):
    """Second opinion for a VC z3 left 'unknown' in-process: the z3 5.1 CLI (two seeds) and
    cvc5 run concurrently on the SMT-LIB text.  Returns (status, backend)."""
    z3cli = shutil.which("z3-new") or shutil.which("z3")
    with tempfile.NamedTemporaryFile("w", suffix=".smt2", delete=False) as f:
        f.write(smt2 if "(check-sat)" in smt2 else smt2 + "\n(check-sat)\n")
        fn = f.name
    procs = []
    try:
        if z3cli:
            for seed in (0, 7):
                procs.append((f"z3-cli(seed={seed})", subprocess.Popen(
                    [z3cli, f"-T:{int(timeout_s)}", f"smt.random_seed={seed}", f"sat.random_seed={seed}", fn],
                    stdout=subprocess.PIPE, stderr=subprocess.DEVNULL, text=True)))
        if os.path.exists(CVC5):
            procs.append(("cvc5", subprocess.Popen(
                [CVC5, "--strings-exp", f"--tlimit={int(timeout_s * 1000)}", "--force-logic=ALL", fn],
                stdout=subprocess.PIPE, stderr=subprocess.DEVNULL, text=True)))
        deadline = time.time() + timeout_s + 5
        pending = list(procs)
        while pending and time.time() < deadline:
            for item in list(pending):
                name, pr = item
                if pr.poll() is not None:
                    pending.remove(item)
                    out = (pr.stdout.read() or "").strip().splitlines()
                    for line in out:
                        if line.strip() in ("sat", "unsat"):
                            return line.strip(), name
            time.sleep(0.05)
        return "unknown", "z3+z3-cli+cvc5"
    finally:
        for _, pr in procs:
            if pr.poll() is None:
                pr.kill()
        try:
            os.unlink(fn)
        except OSError:
            pass


def _index_terms(formulas, limit=4000):
    """Int-sorted index terms of array selects occurring in the formulas (free of bound vars)."""
    out, seen, stack = [], set(), list(formulas)
    n = 0
    while stack and n < limit:
        e = stack.pop()
        i = e.get_id()
        if i in seen:
            continue
        seen.add(i)
        n += 1
        if z3.is_app(e):
            if e.decl().kind() == z3.Z3_OP_SELECT and e.num_args() == 2 and z3.is_int(e.arg(1)):
                out.append(e.arg(1))
            stack.extend(e.children())
    return out


def _subterms(e, limit=60):
    out, stack = [], [e]
    while stack and len(out) < limit:
        x = stack.pop()
        if z3.is_app(x):
            out.append(x)
            stack.extend(x.children())
    return out


class Obligation:
    __slots__ = ("label", "status", "backend", "time_s", "model", "path_id", "detail", "smt2", "kind", "reify", "inputs")

    def __init__(self, label, kind="vc"):
        self.label = label
        self.kind = kind
        self.status = "pending"
        self.backend = None
        self.time_s = 0.0
        self.model = None
        self.path_id = None
        self.detail = None
        self.smt2 = None
        self.reify = None
        self.inputs = None

    def to_json(self):
        return {
            "label": self.label,
            "kind": self.kind,
            "status": self.status,
            "backend": self.backend,
            "time_s": round(self.time_s, 4),
            "path": self.path_id,
            "detail": self.detail,
            "model": self.model,
            "inputs": self.inputs,
        }


class Path:
    """One execution path: a list of branch decisions replayed from the start, the path
    condition, lazily instantiated quantified hypotheses and the obligations met on the way."""

    def __init__(self, decisions, path_id, opts=None):
        self.decisions = list(decisions)
        self.pos = 0
        self.path_id = path_id
        self.pc = []  # z3 Bool facts
        self.qhyps = []  # callables: term -> z3 Bool (universally quantified hypotheses)
        self.pool = []  # z3 Int terms used for instantiation
        self.heap = {}  # (class qualname, field) -> z3 Array Int -> sort  (the symbolic heap)
        self.alloc0 = None  # ids of input objects are in [1, alloc0); allocations are alloc0 + k
        self.nalloc = 0
        self.term_maps = []  # functions deriving further instantiation terms from pool terms
        self.counter = 0
        self.obligations = []
        self.forks = []  # decision lists to explore later
        self.opts = opts or {}
        self.trace = []  # human-readable notes (branch decisions) for reports
        self.solver_time = 0.0
        self.inputs = {}  # name -> symbolic value (for model reification)
        self.unrolled = 0

    # ------------------------------------------------------------------ names / facts
    def fresh_name(self, hint="v"):
        self.counter += 1
        return f"{hint}!{self.counter}"

    def fresh_int(self, hint="i"):
        return z3.Int(self.fresh_name(hint))

    def fresh_bool(self, hint="b"):
        return z3.Bool(self.fresh_name(hint))

    def assume(self, e):
        if isinstance(e, bool):
            if not e:
                raise Infeasible()
            return
        e = simp(e)
        if z3.is_true(e):
            return
        if z3.is_false(e):
            raise Infeasible()
        self.pc.append(e)

    def add_pool(self, t):
        if isinstance(t, int):
            t = z3.IntVal(t)
        for u in self.pool:
            if u.eq(t):
                return
        self.pool.append(t)

    def add_pool2(self, t):
        p2 = self.__dict__.setdefault("pool2", [])
        if len(p2) < POOL2_TERMS and not any(u.eq(t) for u in p2):
            p2.append(t)

    def instantiated(self, extra_terms=(), goal=None):
        """Instances of the quantified hypotheses: round 1 over the pool (skolems, program
        integers, +-1, 0); round 2 over the array index terms that occur in the goal and in
        the round-1 instances (so that chained pointwise facts such as concat -> class
        invariant meet at the shifted index)."""
        terms = list(self.pool)
        seen = {t.get_id() for t in terms}

        def add(t):
            if t.get_id() not in seen:
                seen.add(t.get_id())
                terms.append(t)
                return True
            return False

        for t in extra_terms:
            add(t)
        for t in list(terms):
            add(simp(t + 1))
            add(simp(t - 1))
        add(z3.IntVal(0))
        if goal is not None:
            for t in _index_terms([goal]):
                add(t)
        cache = self.__dict__.setdefault("_inst_cache", {})
        gterms = []
        if goal is not None:
            for t in _index_terms([goal]):
                if not any(x.decl().kind() == z3.Z3_OP_SELECT for x in _subterms(t)):
                    gterms.append(t)

        def run(ts):
            out = []
            for q in list(self.qhyps):
                if getattr(q, "arity", 1) == 2:
                    # pairs (bounded: the instance count is quadratic): index terms of the goal first, then 0, 1,
                    # the pool (latest skolems first) and its +-1 neighbours
                    small, sid = [], set()
                    rpool = list(self.pool)[::-1]
                    cands = list(gterms) + [z3.IntVal(0), z3.IntVal(1)] + rpool
                    for t in rpool[:8]:
                        for fmap in self.term_maps[:4]:
                            try:
                                cands.append(simp(fmap(t)))  # e.g. pin[r] for a ghost sequence of positions
                            except Exception:
                                pass
                    for t in rpool:
                        cands += [simp(t + 1), simp(t - 1)]
                    for t in cands + ts:
                        if t.get_id() not in sid:
                            sid.add(t.get_id())
                            small.append(t)
                    small = small[:ARITY2_TERMS]
                    for t1 in small:
                        for t2 in small:
                            key = (id(q), t1.get_id(), t2.get_id())
                            if key in cache:
                                f = cache[key]
                            else:
                                try:
                                    f = q(t1, t2)
                                except Exception:
                                    f = None
                                cache[key] = f
                            if f is not None:
                                out.append(f)
                    continue
                for t in ts:
                    key = (id(q), t.get_id())
                    if key in cache:
                        f = cache[key]
                    else:
                        try:
                            f = q(t)
                        except Exception as e:
                            f = None
                            if os.environ.get("PYVC_DEBUG"):
                                import traceback

                                traceback.print_exc()
                        cache[key] = f
                    if f is not None:
                        out.append(f)
            return out

        # derived terms (e.g. t - len(a) for a concatenation a ++ b)
        for t in list(terms):
            for fmap in self.term_maps:
                try:
                    add(simp(fmap(t)))
                except Exception:
                    pass
        out = run(terms)
        # second generation: skolems born while the first-generation instances were built
        p2 = [t for t in self.__dict__.get("pool2", []) if t.get_id() not in seen]
        if p2:
            self._in_pool2_round = True
            try:
                out += run(p2)
            finally:
                self._in_pool2_round = False
        return out

    # ------------------------------------------------------------------ solving
    def _check(self, extra, timeout_ms, inst=True):
        s = _mk_solver(timeout_ms)
        for f in self.pc:
            s.add(f)
        if inst and self.qhyps:
            for f in self.instantiated():
                s.add(f)
        for f in extra:
            s.add(f)
        t0 = time.time()
        r = s.check()
        self.solver_time += time.time() - t0
        return r, s

    def feasible(self, cond):
        """incremental feasibility query: the path condition is kept in one solver to which facts
        are only ever added; the condition is passed as an assumption"""
        fs = self.__dict__.get("_fs")
        if fs is None:
            fs = _mk_solver(FEAS_TIMEOUT_MS)
            self.__dict__["_fs"] = fs
            self.__dict__["_fs_n"] = 0
        n = self.__dict__["_fs_n"]
        if n < len(self.pc):
            for f in self.pc[n:]:
                fs.add(f)
            self.__dict__["_fs_n"] = len(self.pc)
        t0 = time.time()
        if isinstance(cond, bool):
            cond = z3.BoolVal(cond)
        r = fs.check(cond)
        self.solver_time += time.time() - t0
        return r != z3.unsat

    def infer_int(self, expr):
        """If the path condition forces the Int term to one value, return it (else None)."""
        expr = simp(expr)
        if z3.is_int_value(expr):
            return expr.as_long()
        r, s = self._check([], FEAS_TIMEOUT_MS, inst=False)
        if r != z3.sat:
            return None
        v = s.model().eval(expr, model_completion=True)
        if not z3.is_int_value(v):
            return None
        r2, _ = self._check([expr != v], FEAS_TIMEOUT_MS, inst=False)
        return v.as_long() if r2 == z3.unsat else None

    def branch(self, cond, note=None):
        """Decide a symbolic branch; explores both sides over the whole run."""
        cond = simp(cond)
        if z3.is_true(cond):
            return True
        if z3.is_false(cond):
            return False
        if self.pos < len(self.decisions):
            d = self.decisions[self.pos]
            self.pos += 1
        else:
            t_ok = self.feasible(cond)
            f_ok = self.feasible(z3.Not(cond))
            if t_ok and f_ok:
                self.forks.append(self.decisions + [False])
                d = True
            elif t_ok:
                d = True
            elif f_ok:
                d = False
            else:
                raise Infeasible()
            self.decisions.append(d)
            self.pos += 1
        self.pc.append(cond if d else simp(z3.Not(cond)))
        if note:
            self.trace.append(f"{note}={'T' if d else 'F'}")
        return d

    def choose(self, n, note=None):
        """Non-deterministic choice among n alternatives (all explored)."""
        if n <= 1:
            return 0
        if self.pos < len(self.decisions):
            d = self.decisions[self.pos]
            self.pos += 1
        else:
            for k in range(n - 1, 0, -1):
                self.forks.append(self.decisions + [k])
            d = 0
            self.decisions.append(d)
            self.pos += 1
        if note:
            self.trace.append(f"{note}={d}")
        return d

    def prove(self, goal, label, kind="vc", reify=None, extra_terms=()):
        """Discharge pc => goal.  Records an Obligation; afterwards the goal is assumed."""
        if isinstance(goal, bool):
            goal = z3.BoolVal(goal)
        goal = simp(goal)
        cache = self.opts.get("vc_cache")
        if cache is not None:
            key = (label, goal.hash(), hash(tuple(f.hash() for f in self.pc)), len(self.qhyps))
            if key in cache:
                self.assume(goal)
                return cache[key]
        ob = Obligation(label, kind)
        ob.path_id = self.path_id
        ob.reify = reify
        self.obligations.append(ob)
        if cache is not None:
            cache[key] = ob
        t0 = time.time()
        if z3.is_true(goal):
            ob.status, ob.backend = "unsat", "simplifier"
            return ob
        inst = self.instantiated(extra_terms, goal) if self.qhyps else []
        hyps = list(self.pc) + inst
        s = _mk_solver(VC_TIMEOUT_MS)
        for f in hyps:
            s.add(f)
        s.add(z3.Not(goal))
        r = s.check()
        ob.backend = "z3"
        if r == z3.unknown:
            s2 = z3.Solver()
            for f in hyps:
                s2.add(f)
            s2.add(z3.Not(goal))
            rr, who = external_solve(s2.to_smt2(), EXT_TIMEOUT_S)
            ob.backend = f"z3:unknown>{who}"
            ob.status = rr if rr in ("sat", "unsat") else "unknown"
            if ob.status == "sat":
                ob.detail = f"{who}: sat (no model extracted)"
        elif r == z3.unsat:
            ob.status = "unsat"
        else:
            ob.status = "sat"
            m = s.model()
            ob.model = self._model_summary(m)
            if self.inputs:
                try:
                    from .native import reify_inputs

                    ob.inputs = reify_inputs(self, m)
                except Exception as e:
                    ob.inputs = None
            if reify is not None:
                try:
                    ob.detail = reify(m)
                except Exception as e:  # pragma: no cover
                    ob.detail = f"reify failed: {e!r}"
        ob.time_s = time.time() - t0
        self.solver_time += ob.time_s
        if self.opts.get("keep_smt2") and ob.status != "unsat":
            ob.smt2 = s.to_smt2()
        # continue under the goal (avoid cascades)
        try:
            self.assume(goal)
        except Infeasible:
            raise
        return ob

    def _model_summary(self, m, limit=40):
        out = {}
        try:
            for d in m.decls()[:limit]:
                out[d.name()] = str(m[d])[:200]
        except Exception:
            pass
        return out

    def pre_cover(self):
        """satisfiability of the path condition when the function has returned and before the
        postconditions are evaluated (evaluating many clauses makes the same query much harder)"""
        if self.opts.get("have_cover") or self.__dict__.get("_pre_cover"):
            return
        fs = self.__dict__.get("_fs")
        ok = False
        if fs is not None:
            self.feasible(True)
            try:
                ok = fs.check() == z3.sat
            except Exception:
                pass
        if not ok:
            r, _ = self._check([], COVER_TIMEOUT_MS, inst=False)
            ok = r == z3.sat
        self._pre_cover = ok

    def final_cover(self):
        """Is the completed path's condition satisfiable (non-vacuity)?

        Two parts: the path condition itself must be satisfiable, and the path condition together
        with the instantiated quantified hypotheses (what the VCs actually use) must not be
        refutable by the solver within the VC budget - a contradiction the VCs could exploit is one
        the solver finds within that budget."""
        ok = bool(self.__dict__.get("_pre_cover"))
        fs = self.__dict__.get("_fs") if not ok else None
        if fs is not None:
            self.feasible(True)
            try:
                ok = fs.check() == z3.sat
            except Exception:
                pass
        if not ok:
            if self.opts.get("have_cover"):
                return False
            r, _ = self._check([], COVER_TIMEOUT_MS, inst=False)
            ok = r == z3.sat
        if not ok:
            return False
        if self.qhyps:
            # thorough tier: the instantiated non-vacuity check on every one of the first DEEP_COVER_PATHS paths
            deep = os.environ.get("PYVC_DEEP_COVERS") == "1" and self.path_id <= DEEP_COVER_PATHS
            if self.opts.get("have_cover") and not deep:
                return False  # quick tier: one instantiated cover per contract; thorough tier: every path
            if deep and not any(o.status == "unsat" for o in self.obligations):
                return True  # nothing was proved on this path, so nothing can have been proved vacuously
            r, _ = self._check([], VC_TIMEOUT_MS, inst=True)
            if r == z3.unsat:
                self.opts["vacuous_inst"] = self.opts.get("vacuous_inst", 0) + 1
                return False
        return True
