"""Mechanical (syntactic) obligations over the real source: lock discipline.

Each access of a shared attribute is one obligation "lexically inside ``with self.<lock>:``"
(or inside a method whose every call site is); each obligation is discharged by inspection of
the ast of the live class (back end "ast"), regenerated from /repo on every run.  This is the
frame/ownership side of the monitor-invariant argument (DESIGN.md C12-F1, C17-F3); it is not an
SMT proof and is reported with its own back-end name.
"""

from __future__ import annotations

import ast
import inspect
import textwrap
import time

from .interp import FnInfo


class _Scan(ast.NodeVisitor):
    def __init__(self, lock, shared, blocking):
        self.lock, self.shared, self.blocking = lock, shared, blocking
        self.depth = 0  # nesting inside with self.<lock>
        self.accesses = []  # (attr, lineno, locked, ctx)
        self.calls = []  # (method name, lineno, locked)
        self.blocking_calls = []  # (text, lineno, locked)

    def _is_lock(self, e):
        return isinstance(e, ast.Attribute) and isinstance(e.value, ast.Name) and e.value.id == "self" and e.attr == self.lock

    def visit_With(self, n):
        locked = any(self._is_lock(i.context_expr) for i in n.items)
        for i in n.items:
            self.visit(i.context_expr)
        if locked:
            self.depth += 1
        for s in n.body:
            self.visit(s)
        if locked:
            self.depth -= 1

    visit_AsyncWith = visit_With

    def visit_Attribute(self, n):
        if isinstance(n.value, ast.Name) and n.value.id == "self" and n.attr in self.shared:
            self.accesses.append((n.attr, n.lineno, self.depth > 0, type(n.ctx).__name__))
        self.generic_visit(n)

    def visit_Call(self, n):
        f = n.func
        if isinstance(f, ast.Attribute) and isinstance(f.value, ast.Name) and f.value.id == "self":
            self.calls.append((f.attr, n.lineno, self.depth > 0))
        if isinstance(f, ast.Attribute) and f.attr in self.blocking:
            self.blocking_calls.append((ast.unparse(f), n.lineno, self.depth > 0))
        self.generic_visit(n)

    def visit_FunctionDef(self, n):
        # nested functions (closures) run later, not under the lexical lock
        saved = self.depth
        self.depth = 0
        self.generic_visit(n)
        self.depth = saved

    visit_Lambda = visit_FunctionDef


def lock_discipline(reg, name, classes, lock, shared, under_lock_methods=(), exempt_methods=(), stable_reads=(),
                    blocking=("wait", "sleep", "recv", "recvfrom", "send", "sendto", "acquire"), props=(), note=""):
    """classes: qualified names; under_lock_methods: methods that may touch shared state without
    taking the lock because every call site holds it (checked); exempt_methods: {method: reason}
    constructors etc.; stable_reads: {(method, attr): reason} documented unlocked reads."""
    t0 = time.time()
    obs = []
    functions = []
    exempt = dict(exempt_methods)
    stable = dict(stable_reads)
    unlocked = set(under_lock_methods)
    methods = {}
    for cq in classes:
        cls = reg.resolve(cq)
        for mname, m in cls.__dict__.items():
            f = m.__func__ if isinstance(m, (classmethod, staticmethod)) else m
            if not inspect.isfunction(f):
                continue
            try:
                info = FnInfo.of(f)
            except Exception:
                continue
            methods[(cq, mname)] = info
            functions.append(info.describe())

    def ob(label, ok, detail=""):
        obs.append({"label": label, "kind": "lock-discipline", "status": "unsat" if ok else "sat", "backend": "ast",
                    "time_s": 0.0, "path": 0, "detail": detail, "model": None, "inputs": None})

    for (cq, mname), info in sorted(methods.items()):
        sc = _Scan(lock, set(shared), set(blocking))
        for s in info.body:
            sc.visit(s)
        base = f"{cq}.{mname}"
        is_unlocked = mname.endswith("_unlocked") or mname in unlocked
        for attr, line, locked, ctx in sc.accesses:
            label = f"{name}.access[{base}:{attr}@{line - 1 + info.lineno}:{ctx}]"
            if mname in exempt:
                continue
            if is_unlocked:
                ob(label, True, "method runs under the caller's lock (call sites checked)")
            elif (mname, attr) in stable and ctx == "Load":
                ob(label, True, "documented stable read: " + stable[(mname, attr)])
            else:
                ob(label, locked, "" if locked else f"self.{attr} is accessed outside 'with self.{lock}' in {base}")
        for callee, line, locked in sc.calls:
            if callee.endswith("_unlocked") or callee in unlocked:
                ok = locked or is_unlocked or mname in exempt
                ob(f"{name}.call-under-lock[{base}->{callee}@{line - 1 + info.lineno}]", ok,
                   "" if ok else f"{callee} is called without holding self.{lock}")
        for text, line, locked in sc.blocking_calls:
            ob(f"{name}.no-blocking-under-lock[{base}:{text}@{line - 1 + info.lineno}]", not locked,
               "" if not locked else f"blocking call {text} while holding self.{lock}")
    status = "proved" if obs and all(o["status"] == "unsat" for o in obs) else ("failed" if obs else "vacuous")
    return {"contract": "static:" + name, "props": list(props), "status": status, "obligations": obs, "paths": 1, "covers": 1,
            "functions": functions, "assumed_contracts": [], "inlined": [], "unsupported": None, "solver_time_s": 0.0,
            "wall_s": round(time.time() - t0, 3), "note": note}
