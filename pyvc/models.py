"""Models of the Python builtins and data types used by the anchored dnspython functions.

Assumption A-sem / A-lib (DESIGN.md section 5): these models agree with CPython 3.12.  They are
cross-checked against CPython by pyvc.selftest.
"""

from __future__ import annotations

import ast
import enum
import struct
import types

import z3

from . import sym as S
from .sym import (ExcVal, SBool, SBytes, SBytesIO, SInt, SItems, SMap, SObj, SRange, SReal, SSeq, Sym, T, Ty, Unsupported, concrete_of,
                  seq_lit, simp, to_z3, wrap)


def _interp():
    from . import interp

    return interp


# uninterpreted symbols (theory of octet strings) ----------------------------------------------
LOWER = z3.Function("bytes_lower", S.SeqI, S.SeqI)
UPPER = z3.Function("bytes_upper", S.SeqI, S.SeqI)
BLT = z3.Function("bytes_lt", S.SeqI, S.SeqI, S.BoolS)
LOWC = z3.Function("lower_octet", S.IntS, S.IntS)
REPEAT = z3.Function("bytes_repeat", S.SeqI, S.IntS, S.SeqI)


def lowc_def(x):
    return z3.If(z3.And(x >= 65, x <= 90), x + 32, x)


def lower_of(I, e):
    """bytes.lower(): uninterpreted with length fact; pointwise facts are added where indexed."""
    r = LOWER(e)
    I.path.assume(z3.Length(r) == z3.Length(e))
    # idempotence and the empty string
    I.path.assume(LOWER(r) == r)
    I.path.assume((z3.Length(e) == 0) == (z3.Length(r) == 0))
    return r


def blt_facts(I, a, b):
    """strict total order facts for one comparison site (A-lib: bytes comparison is the
    lexicographic order on octet strings)."""
    p = I.path
    p.assume(z3.Not(z3.And(BLT(a, b), BLT(b, a))))
    p.assume(z3.Or(BLT(a, b), BLT(b, a), a == b))
    p.assume(z3.Implies(a == b, z3.And(z3.Not(BLT(a, b)), z3.Not(BLT(b, a)))))
    # empty string is least
    p.assume(z3.Implies(z3.Length(a) == 0, z3.Or(z3.Length(b) == 0, BLT(a, b))))
    p.assume(z3.Implies(z3.Length(b) == 0, z3.Not(BLT(a, b))))


# ----------------------------------------------------------------------------- dict ghosts


def attach_key_order(I, m, hint="d"):
    """Give a symbolic dict its ghost iteration order: keys (distinct, exactly the present keys)
    and kpos (the position of each present key).  A1: for j < n, keys[j] is present and
    kpos[keys[j]] == j.  A2: a present key x sits at keys[kpos[x]]."""
    p = I.path
    karr = z3.Const(p.fresh_name(hint + "_keys"), z3.ArraySort(S.IntS, S.sort_of(m.kty)))
    n = p.fresh_int(hint + "_nkeys")
    p.add_pool(n)
    p.assume(n >= 0)
    kpos = z3.Const(p.fresh_name(hint + "_kpos"), z3.ArraySort(S.sort_of(m.kty), S.IntS))
    m.keys = SSeq(karr, n, m.kty, "list")
    m.kpos = kpos
    m.size = n
    has = m.has
    p.qhyps.append(lambda t: z3.And(
        z3.Implies(z3.And(t >= 0, t < n), z3.And(z3.Select(has, z3.Select(karr, t)), z3.Select(kpos, z3.Select(karr, t)) == t)),
        z3.Implies(z3.Select(has, t), z3.And(z3.Select(kpos, t) >= 0, z3.Select(kpos, t) < n, z3.Select(karr, z3.Select(kpos, t)) == t))))
    # the positions of present keys are instantiation terms too
    p.term_maps.append(lambda t, kpos=kpos: z3.Select(kpos, t))
    p.term_maps.append(lambda t, karr=karr: z3.Select(karr, t))


def drop_key_order(m):
    m.keys = None
    m.kpos = None


def key_of(I, k):
    """SMT key of a dict key value: ints are themselves; an object gets one abstract integer
    identity per allocation (equality between keys of different objects is left open)."""
    if isinstance(k, SObj):
        kid = getattr(k, "_keyid", None)
        if kid is None:
            kid = I.path.fresh_int("key")
            I.path.add_pool(kid)
            k._keyid = kid
        return kid
    if isinstance(k, tuple) and k:
        # a tuple key: an injective pairing of its components (uninterpreted constructor with projections)
        comps = [key_of(I, x) if isinstance(x, (SObj, tuple)) else to_z3(x) for x in k]
        if all(z3.is_int(c) for c in comps):
            n = len(comps)
            mk = z3.Function(f"tuple{n}", *([S.IntS] * n + [S.IntS]))
            t = mk(*comps)
            for i, c in enumerate(comps):
                I.path.assume(z3.Function(f"tuple{n}_{i}", S.IntS, S.IntS)(t) == c)
            return t
    return to_z3(k)


# ----------------------------------------------------------------------------- sequences


def is_bytes_like(v):
    return isinstance(v, (bytes, bytearray, str)) or isinstance(v, SBytes)


def kind_of(v):
    if isinstance(v, SBytes):
        return v.kind
    if isinstance(v, bytes):
        return "bytes"
    if isinstance(v, bytearray):
        return "bytearray"
    if isinstance(v, str):
        return "str"
    return None


def as_seq(I, v):
    if isinstance(v, SBytes):
        return v.e
    if isinstance(v, (bytes, bytearray, str)):
        return seq_lit(v)
    raise Unsupported(f"expected bytes-like, got {type(v).__name__}")


def concrete_items(I, v, allow_fail=False):
    if isinstance(v, (tuple, list)):
        return list(v)
    if isinstance(v, (bytes, bytearray)):
        return list(v)
    if isinstance(v, str):
        return list(v)
    if isinstance(v, (range, dict, set, frozenset)):
        return list(v)
    if isinstance(v, SRange):
        a, b = v.start, v.stop
        if isinstance(a, int) and isinstance(b, int):
            return list(range(a, b, v.step))
    if isinstance(v, SSeq) and isinstance(v.n, int):
        return [wrap(v.ety, v.at(i)) for i in range(v.n)]
    if isinstance(v, SSeq):
        c = concrete_of(v.n)
        if c is not None:
            return [wrap(v.ety, v.at(i)) for i in range(c)]
    if isinstance(v, SBytes):
        c = concrete_of(z3.Length(v.e))
        if c is not None:
            out = []
            for i in range(c):
                x = simp(v.e[i])
                out.append(_byte_val(I, v, x))
            return out
    if isinstance(v, types.GeneratorType) or hasattr(v, "__next__"):
        return list(v)
    if allow_fail:
        return None
    raise Unsupported(f"need a sequence of known length, got {v!r}")


def _byte_val(I, v, x):
    c = concrete_of(x)
    if c is not None:
        return c if v.kind != "str" else chr(c)
    if v.kind == "str":
        return SBytes(z3.Unit(x), "str")
    I.path.assume(z3.And(x >= 0, x <= 255))
    return SInt(x)


def seq_len(I, v):
    if isinstance(v, SBytes):
        c = concrete_of(z3.Length(v.e))
        return c if c is not None else SInt(simp(z3.Length(v.e)))
    if isinstance(v, SSeq):
        return v.n if isinstance(v.n, int) else (concrete_of(v.n) if concrete_of(v.n) is not None else SInt(v.n))
    if isinstance(v, SRange):
        a, b = to_z3(v.start), to_z3(v.stop)
        if v.step == 1:
            d = b - a
        elif v.step == -1:
            d = a - b
        else:
            raise Unsupported("range with |step| != 1 and symbolic bounds")
        return SInt(simp(z3.If(d > 0, d, 0)))
    if isinstance(v, SItems):
        return SInt(v.keys.n) if not isinstance(v.keys.n, int) else v.keys.n
    if isinstance(v, SMap):
        if v.size is None:
            raise Unsupported("len() of a dict without a size model")
        return SInt(v.size)
    if isinstance(v, SBytesIO):
        raise Unsupported("len() of a BytesIO")
    if isinstance(v, SObj):
        f = I.class_lookup(v.cls, "__len__")
        if f is not None:
            return I.call(_interp().BoundMethod(v, _interp().unwrap_function(f), "__len__"), [], {})
    try:
        return len(v)
    except TypeError:
        raise Unsupported(f"len() of {type(v).__name__}")


def seq_at(I, v, i):
    """element at an index known to be in range (i: SInt or int)"""
    iz = to_z3(i)
    if isinstance(v, SBytes):
        return _byte_val(I, v, simp(v.e[iz]))
    if isinstance(v, SSeq):
        e = v.at(iz)
        if v.ety.kind == "ref" and not getattr(v.ety, "nullable", False):
            # elements of a list of (non-None) heap references are allocated objects
            I.path.assume(z3.And(e >= 1, e < heap_limit(I)))
        return wrap(v.ety, e)
    if isinstance(v, SRange):
        return SInt(simp(to_z3(v.start) + iz * v.step))
    if isinstance(v, SItems):
        k = v.keys.at(iz)
        return (wrap(v.kty, k), map_value(I, v, k))
    if isinstance(v, SMap):
        if v.keys is None:
            raise Unsupported("iteration over a dict whose key order is not tracked")
        return wrap(v.kty, v.keys.at(iz))
    if isinstance(v, (bytes, bytearray, str, tuple, list)):
        c = concrete_of(iz)
        if c is not None and not (0 <= c < len(v)):
            if I.spec:
                # out of range: an unconstrained value (only reachable under a false guard)
                if isinstance(v, (bytes, bytearray)):
                    return SInt(I.path.fresh_int("oob"))
                if isinstance(v, (list, tuple)) and v and not is_bytes_like(v[0]):
                    # an element of a list of objects that is not there: the enclosing operand is undefined
                    # (clauses guard such reads; ex_BoolOp turns it into an unconstrained truth value)
                    I.raise_py(AttributeError, "undefined element in a clause")
                return SBytes(z3.Const(I.path.fresh_name("oob"), S.SeqI), "str" if isinstance(v, str) else "bytes")
            I.raise_py(IndexError, "index out of range")
    if isinstance(v, (bytes, bytearray)):
        c = concrete_of(iz)
        if c is not None:
            return v[c]
        x = simp(seq_lit(v)[iz])
        return SInt(x)
    if isinstance(v, str):
        c = concrete_of(iz)
        if c is not None:
            return v[c]
        return SBytes(z3.Unit(seq_lit(v)[iz]), "str")
    if isinstance(v, (tuple, list)):
        c = concrete_of(iz)
        if c is not None:
            return v[c]
        # If-chain over liftable elements
        try:
            zs = [to_z3(x) for x in v]
        except Unsupported:
            raise Unsupported("symbolic index into a tuple of non-scalar values")
        if not zs:
            if I.spec:
                # out of range whatever the index: an unconstrained value (only reachable under a false guard)
                return SBytes(z3.Const(I.path.fresh_name("oob"), S.SeqI), "bytes")
            raise Unsupported("symbolic index into empty tuple")
        e = zs[-1]
        for k in range(len(zs) - 2, -1, -1):
            e = z3.If(iz == k, zs[k], e)
        if z3.is_int(e):
            return SInt(simp(e))
        if z3.is_bool(e):
            return SBool(simp(e))
        return SBytes(simp(e), kind_of(v[0]) or "bytes")
    raise Unsupported(f"indexing {type(v).__name__}")


def _norm_index(I, idx, n, what="index"):
    """Python index normalisation with the IndexError exit (code mode)."""
    nz = to_z3(n)
    if isinstance(idx, bool):
        idx = int(idx)
    if isinstance(idx, int) and isinstance(n, int):
        j = idx + n if idx < 0 else idx
        if not (0 <= j < n):
            if I.spec:
                return j
            I.raise_py(IndexError, f"{what} out of range")
        return j
    iz = to_z3(idx)
    j = simp(z3.If(iz < 0, iz + nz, iz))
    if not I.spec:
        ok = z3.And(j >= 0, j < nz)
        if not I.path.branch(ok, note="index-in-range"):
            I.raise_py(IndexError, f"{what} out of range")
    return SInt(j)


def _slice_bounds(I, sl, n):
    if sl.step is not None and sl.step != 1:
        raise Unsupported("slice step")
    nz = to_z3(n)

    def clamp(x, default):
        if x is None:
            return default
        xz = to_z3(x)
        a = z3.If(xz < 0, xz + nz, xz)
        return simp(z3.If(a < 0, 0, z3.If(a > nz, nz, a)))

    lo = clamp(sl.start, z3.IntVal(0))
    hi = clamp(sl.stop, nz)
    ln = simp(z3.If(hi > lo, hi - lo, 0))
    return lo, ln


def get_item(I, v, idx):
    itp = _interp()
    if type(v).__name__ == "_ArrView":
        return SInt(z3.Select(v.arr, to_z3(idx)))
    if isinstance(v, (SObj, S.SRef)):
        f = I.class_lookup(v.cls, "__getitem__")
        if f is None:
            I.raise_py(TypeError, "not subscriptable")
        return I.call(itp.BoundMethod(v, itp.unwrap_function(f), "__getitem__"), [idx], {})
    if isinstance(idx, slice):
        if not has_sym_slice(idx) and not isinstance(v, Sym):
            return v[idx]
        n = seq_len(I, v)
        lo, ln = _slice_bounds(I, idx, n)
        if is_bytes_like(v):
            k = kind_of(v)
            return SBytes(simp(z3.SubSeq(as_seq(I, v), lo, ln)), "bytes" if k == "bytearray" and False else k)
        if isinstance(v, SSeq):
            if not (z3.is_int_value(lo) and lo.as_long() == 0):
                I.path.term_maps.append(lambda t, lo=lo: t + lo)
                I.path.term_maps.append(lambda t, lo=lo: t - lo)
            return SSeq(v.arr, ln, v.ety, v.kind, simp(to_z3(v.off) + lo))
        if isinstance(v, (tuple, list)):
            cl, cn = concrete_of(lo), concrete_of(ln)
            if cl is not None and cn is not None:
                return v[cl:cl + cn]
            raise Unsupported("symbolic slice of a concrete tuple/list")
        raise Unsupported(f"slice of {type(v).__name__}")
    if isinstance(v, dict):
        if itp.has_sym(idx):
            return dict_get_sym(I, v, idx)
        try:
            return v[idx]
        except KeyError:
            I.raise_py(KeyError, idx)
    if isinstance(v, SMap):
        kz = key_of(I, idx)
        if not I.spec:
            if not I.path.branch(z3.Select(v.has, kz), note="key-present"):
                I.raise_py(KeyError, idx)
        if v.vty.kind == "const":
            return v.vty.value
        return map_value(I, v, kz)
    if isinstance(v, (SBytes, SSeq, bytes, bytearray, str, tuple, list, SRange)):
        if not isinstance(idx, (int, SInt)):
            I.raise_py(TypeError, "indices must be integers")
        n = seq_len(I, v)
        j = _norm_index(I, idx, n)
        return seq_at(I, v, j)
    if not itp.has_sym(idx):
        try:
            return v[idx]
        except Exception as e:
            raise _interp().PyExc(ExcVal(type(e), e.args))
    raise Unsupported(f"subscript of {type(v).__name__}")


def dict_get_sym(I, d, key):
    """lookup of a symbolic key in a concrete dict with liftable keys"""
    for k, val in d.items():
        eq = compare(I, ast.Eq(), key, k)
        if I.branch(eq, note="dict-key"):
            return val
    I.raise_py(KeyError, key)


def has_sym_slice(sl):
    return any(isinstance(x, Sym) for x in (sl.start, sl.stop, sl.step))


def set_item(I, v, idx, x):
    itp = _interp()
    if isinstance(v, list) and isinstance(idx, int):
        try:
            v[idx] = x
        except IndexError:
            I.raise_py(IndexError, "list assignment index out of range")
        return
    if isinstance(v, dict) and not itp.has_sym(idx):
        v[idx] = x
        return
    if isinstance(v, SMap):
        kz = key_of(I, idx)
        if v.size is not None:
            v.size = simp(z3.If(z3.Select(v.has, kz), v.size, v.size + 1))
        v.has = z3.Store(v.has, kz, z3.BoolVal(True))
        if v.vty.kind == "opaque":
            v.val = z3.Store(v.val, kz, I.path.fresh_int("stored"))
        elif not (x is None and v.vty.kind == "const"):
            v.val = z3.Store(v.val, kz, to_z3(x))
        drop_key_order(v)
        return
    if isinstance(v, SSeq) and v.kind == "list":
        j = _norm_index(I, idx, seq_len(I, v), "list assignment index")
        v.arr = z3.Store(v.arr, simp(to_z3(v.off) + to_z3(j)), to_z3(x))
        return
    if isinstance(v, SBytes) and v.kind == "bytearray":
        n = seq_len(I, v)
        j = to_z3(_norm_index(I, idx, n, "bytearray index"))
        xz = to_z3(x)
        if not I.path.branch(z3.And(xz >= 0, xz <= 255), note="byte-range"):
            I.raise_py(ValueError, "byte must be in range(0, 256)")
        nz = to_z3(n)
        v.e = simp(z3.Concat(z3.SubSeq(v.e, 0, j), z3.Unit(xz), z3.SubSeq(v.e, j + 1, nz - j - 1)))
        return
    if isinstance(v, bytearray):
        raise Unsupported("store into a concrete bytearray (use symbolic bytearray)")
    if isinstance(v, SObj):
        f = I.class_lookup(v.cls, "__setitem__")
        if f is None:
            I.raise_py(TypeError, "object does not support item assignment")
        return I.call(itp.BoundMethod(v, itp.unwrap_function(f), "__setitem__"), [idx, x], {})
    if isinstance(v, (tuple, bytes, str)) or (isinstance(v, (SSeq, SBytes))):
        I.raise_py(TypeError, "object does not support item assignment")
    raise Unsupported(f"item store into {type(v).__name__}")


def del_item(I, v, idx):
    itp = _interp()
    if isinstance(v, dict) and not itp.has_sym(idx):
        try:
            del v[idx]
        except KeyError:
            I.raise_py(KeyError, idx)
        return
    if isinstance(v, SMap):
        kz = key_of(I, idx)
        if not I.path.branch(z3.Select(v.has, kz), note="key-present"):
            I.raise_py(KeyError, idx)
        if v.size is not None:
            v.size = simp(v.size - 1)
        v.has = z3.Store(v.has, kz, z3.BoolVal(False))
        drop_key_order(v)
        return
    if isinstance(v, list) and isinstance(idx, int):
        try:
            del v[idx]
        except IndexError:
            I.raise_py(IndexError, "list index out of range")
        return
    if isinstance(v, SObj):
        f = I.class_lookup(v.cls, "__delitem__")
        if f is None:
            I.raise_py(TypeError, "object does not support item deletion")
        return I.call(itp.BoundMethod(v, itp.unwrap_function(f), "__delitem__"), [idx], {})
    raise Unsupported(f"del item of {type(v).__name__}")


def list_extend(I, lst: SSeq, other):
    items = concrete_items(I, other, allow_fail=True)
    if items is not None:
        for x in items:
            list_append(I, lst, x)
        return
    if isinstance(other, SSeq):
        r = seq_concat(I, lst, other)
        lst.arr, lst.n, lst.off = r.arr, r.n, r.off
        return
    raise Unsupported("list.extend argument")


def list_append(I, lst: SSeq, x):
    if lst.ety.kind == "opaque":
        x = S.SInt(I.path.fresh_int("logged"))
    lst.arr = z3.Store(lst.arr, simp(to_z3(lst.off) + to_z3(lst.n)), to_z3(x))
    if lst.mem is not None:
        xz = to_z3(x)
        lst.lpos = z3.Store(lst.lpos, xz, simp(to_z3(lst.off) + to_z3(lst.n)))
        lst.mem = z3.Store(lst.mem, xz, z3.BoolVal(True))
    lst.n = simp(to_z3(lst.n) + 1)


def ite(I, c, a, b):
    if isinstance(a, (int, SInt)) and isinstance(b, (int, SInt)) and not isinstance(a, bool) and not isinstance(b, bool):
        return SInt(simp(z3.If(c, to_z3(a), to_z3(b))))
    if isinstance(a, (bool, SBool)) and isinstance(b, (bool, SBool)):
        return SBool(simp(z3.If(c, to_z3(a), to_z3(b))))
    if is_bytes_like(a) and is_bytes_like(b):
        return SBytes(simp(z3.If(c, as_seq(I, a), as_seq(I, b))), kind_of(a))
    if isinstance(a, (float, SReal)) or isinstance(b, (float, SReal)):
        return SReal(simp(z3.If(c, _real(a), _real(b))))
    if isinstance(a, tuple) and isinstance(b, tuple) and len(a) == len(b):
        return tuple(ite(I, c, x, y) for x, y in zip(a, b))
    if a is b:
        return a
    raise Unsupported("conditional expression over non-scalar values in a specification")


def _real(v):
    if isinstance(v, SReal):
        return v.e
    if isinstance(v, SInt):
        return z3.ToReal(v.e)
    if isinstance(v, (int, float)):
        return z3.RealVal(repr(v))
    raise Unsupported("real conversion")


# ----------------------------------------------------------------------------- operators


def _mask_runs(mask):
    runs = []
    i = 0
    while mask >> i:
        if (mask >> i) & 1:
            j = i
            while (mask >> j) & 1:
                j += 1
            runs.append((i, j))
            i = j
        else:
            i += 1
    return runs


def _and_const(x, mask):
    """x & mask for a non-negative constant mask, exact for all integers x."""
    if mask == 0:
        return z3.IntVal(0)
    terms = []
    for lo, hi in _mask_runs(mask):
        t = (x / (1 << lo)) % (1 << (hi - lo)) if lo else x % (1 << hi)
        terms.append(t * (1 << lo) if lo else t)
    e = terms[0]
    for t in terms[1:]:
        e = e + t
    return simp(e)


BV = 72


def _bvop(I, op, a, b):
    az, bz = to_z3(a), to_z3(b)
    # exact on 0 <= x < 2**BV; obligations make the range explicit
    for z in (az, bz):
        I.path.prove(z3.And(z >= 0, z < 2**BV), "bitop.operand-range", kind="model-side-condition")
    x, y = z3.Int2BV(az, BV), z3.Int2BV(bz, BV)
    r = {"and": x & y, "or": x | y, "xor": x ^ y}[op]
    return SInt(simp(z3.BV2Int(r, False)))


def binop(I, op, a, b):
    itp = _interp()
    if not itp.has_sym(a) and not itp.has_sym(b):
        try:
            return _native_binop(op, a, b)
        except Unsupported:
            raise
        except Exception as e:
            raise itp.PyExc(ExcVal(type(e), e.args))
    num = lambda v: isinstance(v, (int, SInt)) and not isinstance(v, (SBool,))
    isreal = lambda v: isinstance(v, (float, SReal))
    if isinstance(a, SBool):
        a = SInt(z3.If(a.e, 1, 0))
    if isinstance(b, SBool):
        b = SInt(z3.If(b.e, 1, 0))
    if (isreal(a) or isreal(b)) and (num(a) or isreal(a)) and (num(b) or isreal(b)):
        x, y = _real(a), _real(b)
        if isinstance(op, ast.Add):
            return SReal(simp(x + y))
        if isinstance(op, ast.Sub):
            return SReal(simp(x - y))
        if isinstance(op, ast.Mult):
            return SReal(simp(x * y))
        if isinstance(op, ast.Div):
            if not I.spec and not I.path.branch(y != 0, note="div-nonzero"):
                I.raise_py(ZeroDivisionError)
            return SReal(simp(x / y))
        raise Unsupported("real operator")
    if num(a) and num(b):
        x, y = to_z3(a), to_z3(b)
        if isinstance(op, ast.Add):
            bits = None
            if getattr(a, "bits", None) is not None and getattr(b, "bits", None) is not None and (a.bits & b.bits) == 0:
                bits = a.bits | b.bits
            return SInt(simp(x + y), bits)
        if isinstance(op, ast.Sub):
            return SInt(simp(x - y))
        if isinstance(op, ast.Mult):
            return SInt(simp(x * y))
        if isinstance(op, (ast.FloorDiv, ast.Mod)):
            cy = concrete_of(y)
            if cy is None:
                if not I.spec and not I.path.branch(y != 0, note="div-nonzero"):
                    I.raise_py(ZeroDivisionError)
                # Python floor semantics from Euclidean div/mod
                q = z3.If(y > 0, x / y, -((-x) / (-y)) if False else (x / y))
                if isinstance(op, ast.FloorDiv):
                    fq = z3.If(y > 0, x / y, z3.If(x % y == 0, x / y, x / y - 1))
                    return SInt(simp(fq))
                fm = z3.If(y > 0, x % y, z3.If(x % y == 0, 0, x % y + y))
                return SInt(simp(fm))
            if cy == 0:
                I.raise_py(ZeroDivisionError)
            if cy > 0:
                return SInt(simp(x / cy if isinstance(op, ast.FloorDiv) else x % cy))
            if isinstance(op, ast.FloorDiv):
                return SInt(simp(z3.If(x % cy == 0, x / cy, x / cy - 1)))
            return SInt(simp(z3.If(x % cy == 0, 0, x % cy + cy)))
        if isinstance(op, ast.Div):
            if not I.spec and not I.path.branch(y != 0, note="div-nonzero"):
                I.raise_py(ZeroDivisionError)
            return SReal(simp(z3.ToReal(x) / z3.ToReal(y)))
        if isinstance(op, ast.Pow):
            cy = concrete_of(y)
            cx = concrete_of(x)
            if cy is not None and 0 <= cy <= 8:
                r = z3.IntVal(1)
                for _ in range(cy):
                    r = r * x
                return SInt(simp(r))
            raise Unsupported("** with symbolic exponent")
        if isinstance(op, ast.LShift):
            cy = concrete_of(y)
            if cy is None or cy < 0:
                raise Unsupported("<< by symbolic amount")
            bits = (a.bits << cy) if getattr(a, "bits", None) is not None else None
            return SInt(simp(x * (1 << cy)), bits)
        if isinstance(op, ast.RShift):
            cy = concrete_of(y)
            if cy is None or cy < 0:
                raise Unsupported(">> by symbolic amount")
            bits = (a.bits >> cy) if getattr(a, "bits", None) is not None else None
            return SInt(simp(x / (1 << cy)), bits)
        if isinstance(op, ast.BitAnd):
            ca, cb = concrete_of(x), concrete_of(y)
            if cb is not None and cb >= 0:
                return SInt(_and_const(x, cb), cb if getattr(a, "bits", None) is None else (a.bits & cb))
            if ca is not None and ca >= 0:
                return SInt(_and_const(y, ca), ca if getattr(b, "bits", None) is None else (b.bits & ca))
            return _bvop(I, "and", a, b)
        if isinstance(op, ast.BitOr):
            ab, bb = getattr(a, "bits", None), getattr(b, "bits", None)
            if isinstance(a, int) and a >= 0:
                ab = a
            if isinstance(b, int) and b >= 0:
                bb = b
            if ab is not None and bb is not None and (ab & bb) == 0:
                return SInt(simp(x + y), ab | bb)
            return _bvop(I, "or", a, b)
        if isinstance(op, ast.BitXor):
            return _bvop(I, "xor", a, b)
        raise Unsupported(f"integer operator {type(op).__name__}")
    if is_bytes_like(a) and is_bytes_like(b) and isinstance(op, ast.Add):
        ka, kb = kind_of(a), kind_of(b)
        if (ka == "str") != (kb == "str"):
            I.raise_py(TypeError, "can't concat str and bytes")
        return SBytes(simp(z3.Concat(as_seq(I, a), as_seq(I, b))), ka)
    if is_bytes_like(a) and num(b) and isinstance(op, ast.Mult):
        return _repeat(I, a, b)
    if num(a) and is_bytes_like(b) and isinstance(op, ast.Mult):
        return _repeat(I, b, a)
    if isinstance(op, ast.Add) and isinstance(a, (tuple, list)) and isinstance(b, (tuple, list)) and type(a) is type(b):
        return type(a)(list(a) + list(b))
    if isinstance(op, ast.Add) and isinstance(a, (SSeq, tuple, list)) and isinstance(b, (SSeq, tuple, list)):
        return seq_concat(I, a, b)
    if isinstance(a, SObj):
        nm = {"Add": "__add__", "Sub": "__sub__", "Mult": "__mul__", "BitAnd": "__and__", "BitOr": "__or__", "BitXor": "__xor__"}.get(type(op).__name__)
        f = I.class_lookup(a.cls, nm) if nm else None
        if f is not None:
            return I.call(itp.BoundMethod(a, itp.unwrap_function(f), nm), [b], {})
    if isinstance(b, SObj):
        nm = {"Add": "__radd__", "Sub": "__rsub__", "Mult": "__rmul__"}.get(type(op).__name__)
        f = I.class_lookup(b.cls, nm) if nm else None
        if f is not None:
            return I.call(itp.BoundMethod(b, itp.unwrap_function(f), nm), [a], {})
    raise Unsupported(f"operator {type(op).__name__} on {type(a).__name__}, {type(b).__name__}")


def seq_concat(I, a, b):
    """concatenation of tuples/lists where at least one has symbolic length; the result is a
    fresh sequence constrained pointwise at the instantiation pool (lazy)."""
    if isinstance(a, SSeq) and isinstance(b, (tuple, list)):
        kind = a.kind
        out = SSeq(a.arr, a.n, a.ety, kind, a.off)
        out = SSeq(out.arr, out.n, out.ety, kind, out.off)
        res = SSeq(a.arr, a.n, a.ety, "list", a.off)
        for x in b:
            list_append(I, res, x)
        res.kind = kind
        return res
    if isinstance(a, SSeq):
        a = SSeq(a.arr, a.n, a.ety, a.kind, a.off)  # snapshot: the caller may mutate the box afterwards
    if isinstance(b, SSeq):
        b = SSeq(b.arr, b.n, b.ety, b.kind, b.off)
    ety = a.ety if isinstance(a, SSeq) else b.ety
    kind = a.kind if isinstance(a, SSeq) else b.kind
    p = I.path
    srt = S.sort_of(ety)
    arr = z3.Const(p.fresh_name("cat_arr"), z3.ArraySort(S.IntS, srt))
    na, nb = to_z3(seq_len(I, a)), to_z3(seq_len(I, b))
    res = SSeq(arr, simp(na + nb), ety, kind, 0)

    def elem(v, i):
        return to_z3(seq_at(I, v, SInt(i)))

    def q(t):
        return z3.And(
            z3.Implies(z3.And(t >= 0, t < na), z3.Select(arr, t) == elem(a, t)),
            z3.Implies(z3.And(t >= na, t < na + nb), z3.Select(arr, t) == elem(b, t - na)),
        )

    p.qhyps.append(q)
    p.term_maps.append(lambda t, na=na: t - na)
    p.term_maps.append(lambda t, na=na: t + na)
    return res


def _repeat(I, s, n):
    nz = to_z3(n)
    cn = concrete_of(nz)
    if cn is not None and not isinstance(s, SBytes):
        return s * cn
    e = as_seq(I, s)
    r = REPEAT(e, nz)
    ln = z3.Length(e)
    I.path.assume(z3.Length(r) == z3.If(nz > 0, nz * ln, 0))
    cl = concrete_of(ln)
    if cl == 1:
        b0 = simp(e[0])
        I.path.qhyps.append(lambda t, r=r, b0=b0: z3.Implies(z3.And(t >= 0, t < z3.Length(r)), r[t] == b0))
    return SBytes(r, kind_of(s))


def _native_binop(op, a, b):
    import operator

    table = {
        ast.Add: operator.add, ast.Sub: operator.sub, ast.Mult: operator.mul, ast.Div: operator.truediv,
        ast.FloorDiv: operator.floordiv, ast.Mod: operator.mod, ast.Pow: operator.pow, ast.LShift: operator.lshift,
        ast.RShift: operator.rshift, ast.BitAnd: operator.and_, ast.BitOr: operator.or_, ast.BitXor: operator.xor,
    }
    f = table.get(type(op))
    if f is None:
        raise Unsupported(f"operator {type(op).__name__}")
    return f(a, b)


def compare(I, op, a, b):
    itp = _interp()
    if isinstance(op, ast.Is):
        return _identical(a, b)
    if isinstance(op, ast.IsNot):
        r = _identical(a, b)
        return (not r) if isinstance(r, bool) else SBool(simp(z3.Not(r.e)))
    if isinstance(op, (ast.In, ast.NotIn)):
        r = contains(I, b, a)
        if isinstance(op, ast.In):
            return r
        t = I.truth(r)
        return (not t) if isinstance(t, bool) else SBool(simp(z3.Not(t)))
    if isinstance(op, ast.Eq):
        return equals(I, a, b)
    if isinstance(op, ast.NotEq):
        if isinstance(a, SObj):
            f = I.class_lookup(a.cls, "__ne__")
            if f is not None and not itp._is_object_slot(f):
                return I.call(itp.BoundMethod(a, itp.unwrap_function(f), "__ne__"), [b], {})
        t = I.truth(equals(I, a, b))
        return (not t) if isinstance(t, bool) else SBool(simp(z3.Not(t)))
    # ordering
    if not itp.has_sym(a) and not itp.has_sym(b):
        import operator

        f = {ast.Lt: operator.lt, ast.LtE: operator.le, ast.Gt: operator.gt, ast.GtE: operator.ge}[type(op)]
        try:
            return f(a, b)
        except Exception as e:
            raise itp.PyExc(ExcVal(type(e), e.args))
    numeric = lambda v: isinstance(v, (int, float, SInt, SReal, SBool))
    if numeric(a) and numeric(b):
        if isinstance(a, (float, SReal)) or isinstance(b, (float, SReal)):
            x, y = _real(a), _real(b)
        else:
            x, y = _intz(a), _intz(b)
        r = {ast.Lt: x < y, ast.LtE: x <= y, ast.Gt: x > y, ast.GtE: x >= y}[type(op)]
        return SBool(simp(r))
    if is_bytes_like(a) and is_bytes_like(b):
        x, y = as_seq(I, a), as_seq(I, b)
        blt_facts(I, x, y)
        r = {ast.Lt: BLT(x, y), ast.LtE: z3.Not(BLT(y, x)), ast.Gt: BLT(y, x), ast.GtE: z3.Not(BLT(x, y))}[type(op)]
        return SBool(simp(r))
    if isinstance(a, SObj):
        nm = {ast.Lt: "__lt__", ast.LtE: "__le__", ast.Gt: "__gt__", ast.GtE: "__ge__"}[type(op)]
        f = I.class_lookup(a.cls, nm)
        if f is not None and not isinstance(f, type(object.__lt__)):
            return I.call(itp.BoundMethod(a, itp.unwrap_function(f), nm), [b], {})
    if a is None or b is None:
        I.raise_py(TypeError, "ordering comparison with None")
    raise Unsupported(f"ordering comparison of {type(a).__name__} and {type(b).__name__}")


def _intz(v):
    if isinstance(v, SBool):
        return z3.If(v.e, 1, 0)
    return to_z3(v)


def _identical(a, b):
    if isinstance(a, S.SRef) or isinstance(b, S.SRef):
        if a is None or b is None:
            r = a if isinstance(a, S.SRef) else b
            return SBool(simp(r.id == 0))
        if isinstance(a, S.SRef) and isinstance(b, S.SRef):
            return SBool(simp(a.id == b.id))
        r, o = (a, b) if isinstance(a, S.SRef) else (b, a)
        if isinstance(o, (int, SInt)) and not isinstance(o, bool):
            # an integer standing for an object (element / key abstraction: the identity of a heap object is its
            # integer): the same object iff the integer is its identity.  Never a silent False.
            return SBool(simp(r.id == to_z3(o)))
        if isinstance(o, Sym):
            raise Unsupported(f"comparison of a heap reference with {type(o).__name__}")
        return False
    if isinstance(a, Sym) or isinstance(b, Sym):
        if isinstance(a, SObj) and isinstance(b, SObj):
            return a is b
        if a is None or b is None:
            return False
        if isinstance(a, SBool) and isinstance(b, bool):
            return SBool(simp(a.e == b))
        if isinstance(b, SBool) and isinstance(a, bool):
            return SBool(simp(b.e == a))
        if a is b:
            return True
        return a is b
    return a is b


def equals(I, a, b):
    itp = _interp()
    if isinstance(a, S.SRef) or isinstance(b, S.SRef):
        x = a if isinstance(a, S.SRef) else b
        f = I.class_lookup(x.cls, "__eq__")
        if f is not None and not itp._is_object_slot(f):
            return I.call(itp.BoundMethod(x, itp.unwrap_function(f), "__eq__"), [b if x is a else a], {})
        return _identical(a, b)
    if a is None or b is None:
        if isinstance(a, SObj) or isinstance(b, SObj):
            return False
        return a is b
    if isinstance(a, SObj) or isinstance(b, SObj):
        x, y = (a, b) if isinstance(a, SObj) else (b, a)
        f = I.class_lookup(x.cls, "__eq__")
        if f is not None and not itp._is_object_slot(f):
            return I.call(itp.BoundMethod(x, itp.unwrap_function(f), "__eq__"), [y], {})
        return a is b
    if not itp.has_sym(a) and not itp.has_sym(b):
        return a == b
    numeric = lambda v: isinstance(v, (int, SInt, SBool)) and not isinstance(v, Sym) or isinstance(v, (SInt, SBool))
    if isinstance(a, (SBool, bool)) and isinstance(b, (SBool, bool)):
        return SBool(simp(to_z3(a) == to_z3(b)))
    if isinstance(a, (float, SReal)) or isinstance(b, (float, SReal)):
        if isinstance(a, (int, float, SInt, SReal)) and isinstance(b, (int, float, SInt, SReal)):
            return SBool(simp(_real(a) == _real(b)))
        return False
    if isinstance(a, (int, SInt, SBool)) and isinstance(b, (int, SInt, SBool)):
        return SBool(simp(_intz(a) == _intz(b)))
    if is_bytes_like(a) and is_bytes_like(b):
        ka, kb = kind_of(a), kind_of(b)
        if (ka == "str") != (kb == "str"):
            return False
        return SBool(simp(as_seq(I, a) == as_seq(I, b)))
    if isinstance(a, (tuple, list)) and isinstance(b, (tuple, list)):
        if type(a) is not type(b):
            return False
        if len(a) != len(b):
            return False
        parts = []
        for x, y in zip(a, b):
            t = I.truth(equals(I, x, y))
            if isinstance(t, bool):
                if not t:
                    return False
            else:
                parts.append(t)
        return SBool(simp(z3.And(*parts))) if parts else True
    if isinstance(a, SSeq) or isinstance(b, SSeq):
        return seq_equal(I, a, b)
    if isinstance(a, ExcVal) or isinstance(b, ExcVal):
        return a is b
    # different kinds of values
    if isinstance(a, Sym) != isinstance(b, Sym) or type(a) is not type(b):
        return False
    raise Unsupported(f"== on {type(a).__name__} and {type(b).__name__}")


SEQEQ_COUNTER = [0]


def seq_equal(I, a, b):
    """Equality of tuples/lists with symbolic length: a fresh Bool tied to the pointwise
    definition in both directions (skolem witness for disequality, lazy instantiation for
    equality)."""
    if isinstance(a, SSeq) and isinstance(b, SSeq) and a.kind != b.kind:
        return False
    if isinstance(a, (tuple, list)) and isinstance(b, SSeq):
        a, b = b, a
    if isinstance(b, (tuple, list)) and ((b.__class__ is tuple) != (a.kind == "tuple")):
        return False
    p = I.path
    na, nb = to_z3(seq_len(I, a)), to_z3(seq_len(I, b))
    eqv = p.fresh_bool("seqeq")
    w = p.fresh_int("seqeq_w")
    p.add_pool(w)

    def el(v, i):
        return to_z3(seq_at(I, v, SInt(i)))

    # not equal  =>  lengths differ or witness position differs
    p.assume(z3.Implies(z3.Not(eqv), z3.Or(na != nb, z3.And(w >= 0, w < na, el(a, w) != el(b, w)))))
    p.assume(z3.Implies(eqv, na == nb))
    p.qhyps.append(lambda t: z3.Implies(z3.And(eqv, t >= 0, t < na), el(a, t) == el(b, t)))
    return SBool(eqv)


def contains(I, container, x):
    itp = _interp()
    if not itp.has_sym(container) and not itp.has_sym(x):
        try:
            return x in container
        except Exception as e:
            raise itp.PyExc(ExcVal(type(e), e.args))
    if isinstance(container, (bytes, bytearray)) and isinstance(x, SInt):
        vals = sorted(set(container))
        return SBool(simp(z3.Or(*[x.e == v for v in vals]))) if vals else False
    if isinstance(container, str) and isinstance(x, SBytes) and x.kind == "str":
        # single character membership only
        I.path.prove(z3.Length(x.e) == 1, "str-in.single-char", kind="model-side-condition")
        vals = sorted(set(ord(c) for c in container))
        return SBool(simp(z3.Or(*[x.e[0] == v for v in vals]))) if vals else False
    if isinstance(container, (tuple, list, set, frozenset)):
        parts = []
        for c in container:
            t = I.truth(equals(I, x, c))
            if isinstance(t, bool):
                if t:
                    return True
            else:
                parts.append(t)
        return SBool(simp(z3.Or(*parts))) if parts else False
    if isinstance(container, dict):
        return contains(I, list(container.keys()), x)
    if isinstance(container, SMap):
        return SBool(simp(z3.Select(container.has, key_of(I, x))))
    if isinstance(container, SSeq) and container.mem is not None:
        return SBool(simp(z3.Select(container.mem, to_z3(x))))
    if isinstance(container, SBytes) and isinstance(x, (int, SInt)):
        return SBool(simp(z3.Contains(container.e, z3.Unit(to_z3(x)))))
    if is_bytes_like(container) and is_bytes_like(x):
        return SBool(simp(z3.Contains(as_seq(I, container), as_seq(I, x))))
    if isinstance(container, SObj):
        f = I.class_lookup(container.cls, "__contains__")
        if f is not None:
            return I.call(itp.BoundMethod(container, itp.unwrap_function(f), "__contains__"), [x], {})
    raise Unsupported(f"'in' on {type(container).__name__}")


from .models2 import (BUILTIN_MODELS, as_lazy_forall, call, comprehension, del_attr, fstring, get_attr,  # noqa: E402,F401
                      set_attr, spec_call, with_manager, snapshot_locals, snapshot_value, real_init, be_bytes, be_int)


def map_value(I, m, kz):
    """the value stored under key kz; a stored heap reference is a valid (non-None) object"""
    e = z3.Select(m.val, kz)
    if m.vty.kind == "ref":
        lim = getattr(m, "lim", None)
        rng = z3.And(e >= 1, e < (lim if lim is not None else heap_limit(I)))
        I.path.assume(z3.Implies(z3.Select(m.has, kz), rng) if hasattr(m, "has") else rng)
        r = wrap(m.vty, e)
        return S.SRef(r.cls, r.id, getattr(m, "heap", None))
    return wrap(m.vty, e)


# ----------------------------------------------------------------------------- symbolic heap


def _heap_alloc0(I):
    p = I.path
    if p.alloc0 is None:
        p.alloc0 = p.fresh_int("alloc0")
        p.assume(p.alloc0 >= 1)
    return p.alloc0


def heap_array(I, clsname, field, fty, heap=None):
    key = (clsname, field)
    init = I.path.__dict__.setdefault("heap_init", {})
    if key not in init:
        init[key] = z3.Const(I.path.fresh_name(f"heap_{clsname.rsplit('.', 1)[-1]}_{field}"), z3.ArraySort(S.IntS, S.sort_of(fty)))
    if heap is not None:
        # a snapshot taken before the field was first touched sees the initial array
        return heap.get(key, init[key])
    if key not in I.path.heap:
        I.path.heap[key] = init[key]
    return I.path.heap[key]


def heap_limit(I):
    a0 = _heap_alloc0(I)
    return simp(a0 + I.path.nalloc)


def heap_fresh_ref(I, cls, clsname, hint="r"):
    """an input reference: some existing object 1 <= id < alloc0"""
    p = I.path
    a0 = _heap_alloc0(I)
    rid = p.fresh_int(hint)
    p.add_pool(rid)
    p.assume(z3.And(rid >= 1, rid < a0))
    return S.SRef(cls, rid)


def heap_new(I, cls):
    a0 = _heap_alloc0(I)
    rid = simp(a0 + I.path.nalloc)
    I.path.nalloc += 1
    return S.SRef(cls, rid)


def heap_get(I, ref, name):
    itp = _interp()
    clsname, decl = I.reg.heap_decl(ref.cls)
    if decl is None or name not in decl:
        return None
    fty = decl[name]
    arr = heap_array(I, clsname, name, fty, ref.heap)
    e = z3.Select(arr, ref.id)
    if fty.kind == "ref":
        tcls = I.reg.resolve(fty.cls)
        if fty.nullable:
            if I.spec:
                return S.SRef(tcls, e, ref.heap)
            if I.path.branch(e == 0, note=f"{name}-is-None"):
                return None
        else:
            I.path.assume(z3.And(e >= 1, e < heap_limit(I)))
        return S.SRef(tcls, e, ref.heap)
    if fty.kind == "int" and (fty.lo is not None or fty.hi is not None):
        # declared range of the field: a type invariant of every object (writes are checked in heap_set)
        I.path.assume(z3.And(*([e >= fty.lo] if fty.lo is not None else []), *([e <= fty.hi] if fty.hi is not None else [])))
    return wrap(fty, e)


def heap_set(I, ref, name, v):
    clsname, decl = I.reg.heap_decl(ref.cls)
    if decl is None or name not in decl:
        raise Unsupported(f"attribute {name} of heap class {ref.cls.__name__} is not declared")
    if ref.heap is not None:
        raise Unsupported("store through a snapshot reference")
    fty = decl[name]
    arr = heap_array(I, clsname, name, fty)
    val = z3.IntVal(0) if v is None else to_z3(v)
    if fty.kind == "int" and (fty.lo is not None or fty.hi is not None):
        I.path.prove(z3.And(*([val >= fty.lo] if fty.lo is not None else []), *([val <= fty.hi] if fty.hi is not None else [])),
                     f"heap-field-range[{name}]", kind="model-side-condition")
    I.path.heap[(clsname, name)] = z3.Store(arr, ref.id, val)


def heap_snapshot(I):
    return dict(I.path.heap)
