"""pyvc interpreter: path-enumerating symbolic execution of the real function source.

The text that is executed is obtained from the live function objects of /repo
(inspect.getsource on the object CPython itself would run), parsed with ``ast``.
Dropped: decorators (classmethod/staticmethod/property/contextmanager are interpreted),
annotations, docstrings, comments, typing.cast.  Everything else is either modelled or makes
the function *unsupported* (never a pass, never a violation).
"""

from __future__ import annotations

import ast
import builtins
import contextlib
import enum
import hashlib
import inspect
import struct
import sys
import textwrap
import types

import z3

from . import sym as S
from .path import Infeasible, Path, PathEnd
from .sym import (ExcVal, SBool, SBytes, SBytesIO, SInt, SItems, SMap, SObj, SRange, SReal, SRef, SSeq, Sym, T, Ty, Unsupported, concrete_of,
                  simp, to_z3, wrap)

# ----------------------------------------------------------------------------- control flow


class PyExc(Exception):
    """A Python exception raised by the interpreted code."""

    def __init__(self, val: ExcVal, where=None):
        self.val = val
        self.where = where

    @property
    def cls(self):
        return self.val.cls


class _Return(Exception):
    def __init__(self, value):
        self.value = value


class _Break(Exception):
    pass


class _Continue(Exception):
    pass


class BoundMethod:
    def __init__(self, recv, func, name=None):
        self.recv = recv
        self.func = func
        self.name = name or getattr(func, "__name__", "?")


class SuperProxy:
    """zero-argument super(): attribute lookup continues after the defining class in the MRO"""

    def __init__(self, obj, rest):
        self.obj = obj
        self.rest = rest


class SymMethod:
    """A method of a symbolic (or builtin-typed) receiver, resolved by name."""

    def __init__(self, recv, name):
        self.recv = recv
        self.name = name


class Closure:
    def __init__(self, node, frame, name="<lambda>"):
        self.node = node
        self.frame = frame
        self.name = name


class Frame:
    def __init__(self, fn, locals_, globals_, info=None, parent=None):
        self.fn = fn
        self.locals = locals_
        self.globals = globals_
        self.info = info  # FnInfo
        self.parent = parent  # enclosing frame for closures
        self.cur_exc = None
        self.yield_cb = None  # callback run at a bare ``yield`` (generator context managers)

    def lookup(self, name):
        f = self
        while f is not None:
            if name in f.locals:
                return f.locals[name]
            f = f.parent
        if name in self.globals:
            return self.globals[name]
        if hasattr(builtins, name):
            return getattr(builtins, name)
        raise Unsupported(f"unbound name {name}")


# ----------------------------------------------------------------------------- source extraction


class FnInfo:
    """The extracted text of one real function."""

    _cache = {}

    def __init__(self, fn):
        self.fn = fn
        try:
            src = inspect.getsource(fn)
        except (OSError, TypeError) as e:
            raise Unsupported(f"no source for {getattr(fn, '__qualname__', fn)!r}: {e}")
        self.file = inspect.getsourcefile(fn)
        lines, self.lineno = inspect.getsourcelines(fn)
        self.end_lineno = self.lineno + len(lines) - 1
        self.sha = hashlib.sha256(src.encode()).hexdigest()
        tree = ast.parse(textwrap.dedent(src))
        node = tree.body[0]
        if not isinstance(node, (ast.FunctionDef, ast.AsyncFunctionDef)):
            raise Unsupported(f"{fn!r}: source is not a function definition")
        self.node = node
        body = list(node.body)
        # drop the docstring
        if body and isinstance(body[0], ast.Expr) and isinstance(getattr(body[0], "value", None), ast.Constant) and isinstance(body[0].value.value, str):
            body = body[1:]
        self.body = body
        # static loop ordinals, in source order
        self.loops = {}
        n = 0
        for sub in ast.walk(node):
            pass
        for sub in self._in_order(node):
            if isinstance(sub, (ast.For, ast.While, ast.AsyncFor)):
                self.loops[id(sub)] = n
                n += 1
        self.is_generator = any(isinstance(x, (ast.Yield, ast.YieldFrom)) for x in ast.walk(node))
        self.qualname = f"{fn.__module__}.{fn.__qualname__}"

    @staticmethod
    def _in_order(node):
        for child in ast.iter_child_nodes(node):
            yield child
            yield from FnInfo._in_order(child)

    @classmethod
    def of(cls, fn):
        k = id(fn)
        if k not in cls._cache:
            cls._cache[k] = FnInfo(fn)
        return cls._cache[k]

    def describe(self):
        return {"function": self.qualname, "file": self.file, "lines": [self.lineno, self.end_lineno], "sha256": self.sha}


def unwrap_function(obj):
    """The Python function CPython would run for obj (strips classmethod/staticmethod/
    functools.wraps layers such as contextlib.contextmanager)."""
    if isinstance(obj, (classmethod, staticmethod)):
        obj = obj.__func__
    if isinstance(obj, property):
        obj = obj.fget
    while hasattr(obj, "__wrapped__"):
        obj = obj.__wrapped__
    if isinstance(obj, types.MethodType):
        obj = obj.__func__
    return obj


def has_sym(v, depth=0) -> bool:
    if isinstance(v, (Sym, ExcVal, BoundMethod, SymMethod, Closure)):
        return True
    if depth > 4:
        return False
    if isinstance(v, (tuple, list)):
        return any(has_sym(x, depth + 1) for x in v)
    if isinstance(v, dict):
        return any(has_sym(x, depth + 1) for x in v.values()) or any(has_sym(x, depth + 1) for x in v.keys())
    return False


MUTATING_METHODS = {"append", "extend", "pop", "insert", "clear", "remove", "add", "discard", "update", "popleft", "appendleft", "write", "sort", "reverse", "setdefault", "popitem"}


def assigned_names(stmts):
    """Names (re)bound or mutated in place anywhere in stmts (syntactic over-approximation
    used to havoc loop state).  Returns (names, attr_targets) where attr_targets is a set of
    (base-name, attribute) pairs stored to."""
    names, attrs = set(), set()

    class V(ast.NodeVisitor):
        def visit_Name(self, n):
            if isinstance(n.ctx, (ast.Store, ast.Del)):
                names.add(n.id)

        def visit_Attribute(self, n):
            if isinstance(n.ctx, (ast.Store, ast.Del)) and isinstance(n.value, ast.Name):
                attrs.add((n.value.id, n.attr))
            self.generic_visit(n)

        def visit_Subscript(self, n):
            if isinstance(n.ctx, (ast.Store, ast.Del)) and isinstance(n.value, ast.Name):
                names.add(n.value.id)
            self.generic_visit(n)

        def visit_AugAssign(self, n):
            if isinstance(n.target, ast.Name):
                names.add(n.target.id)
            self.generic_visit(n)

        def visit_Call(self, n):
            if isinstance(n.func, ast.Attribute) and n.func.attr in MUTATING_METHODS and isinstance(n.func.value, ast.Name):
                names.add(n.func.value.id)
            self.generic_visit(n)

        def visit_FunctionDef(self, n):
            names.add(n.name)

        def visit_Lambda(self, n):
            pass

    v = V()
    for s in stmts:
        v.visit(s)
    return names, attrs


# ----------------------------------------------------------------------------- interpreter


class Interp:
    MAX_INLINE_DEPTH = 12
    MAX_UNROLL = 64

    def __init__(self, path: Path, registry, contract=None):
        self.path = path
        self.reg = registry  # ContractRegistry
        self.contract = contract  # the contract being verified (top level)
        self.spec = 0  # 0 = code mode; +1 goal polarity; -1 hypothesis polarity
        self.depth = 0
        self.cur_frame = None
        self.frame_stack = []
        self.ghost = {}  # ghost values visible to clauses (external clock readings, ...)
        self.ghost_clock = []
        self._time0 = None
        self.functions_seen = {}  # qualname -> FnInfo (for evidence)
        self.assumed_calls = set()  # contracts used at call sites
        self.inlined = set()
        from . import models

        self.models = models

    # ------------------------------------------------------------------ helpers
    def raise_py(self, cls, *args):
        raise PyExc(ExcVal(cls, args))

    def fresh(self, ty: Ty, hint="v"):
        return fresh_value(self, ty, hint)

    def truth(self, v):
        """Python bool, or z3 Bool."""
        if isinstance(v, bool):
            return v
        if v is None:
            return False
        if isinstance(v, SBool):
            c = concrete_of(v.e)
            return c if c is not None else v.e
        if isinstance(v, SInt):
            return simp(v.e != 0)
        if isinstance(v, SReal):
            return simp(v.e != 0)
        if isinstance(v, SBytes):
            return simp(z3.Length(v.e) > 0)
        if isinstance(v, SSeq):
            return simp(v.n > 0) if not isinstance(v.n, int) else v.n > 0
        if isinstance(v, SMap):
            if v.size is None:
                raise Unsupported("truth value of a dict without a size model")
            return simp(v.size > 0)
        if isinstance(v, SRef):
            return simp(v.id != 0)
        if isinstance(v, SObj):
            for nm in ("__bool__", "__len__"):
                f = self.class_lookup(v.cls, nm)
                if f is not None and not _is_object_slot(f):
                    r = self.call(BoundMethod(v, unwrap_function(f), nm), [], {})
                    return self.truth(r)
            return True
        if isinstance(v, (ExcVal, BoundMethod, SymMethod, Closure)):
            return True
        if isinstance(v, z3.BoolRef):
            return v
        return bool(v)

    def branch(self, v, note=None):
        t = self.truth(v)
        if isinstance(t, bool):
            return t
        if self.spec:
            raise Unsupported("control-flow branch on a symbolic value inside a specification expression")
        return self.path.branch(t, note)

    def as_bool_expr(self, v):
        t = self.truth(v)
        if isinstance(t, bool):
            return z3.BoolVal(t)
        return t

    def class_lookup(self, cls, name):
        for k in cls.__mro__:
            if name in k.__dict__:
                return k.__dict__[name]
        return None

    # ------------------------------------------------------------------ running functions
    def run_function(self, fn, args, kwargs=None, closure_frame=None, ghost=None):
        """Interpret the body of the real function fn on the given argument values."""
        kwargs = kwargs or {}
        info = FnInfo.of(fn)
        self.functions_seen[info.qualname] = info
        if self.depth > self.MAX_INLINE_DEPTH:
            raise Unsupported(f"inline depth exceeded at {info.qualname}")
        locals_ = self.bind_args(fn, info.node, args, kwargs)
        frame = Frame(fn, locals_, fn.__globals__, info, parent=closure_frame)
        if ghost:
            for k, v in ghost.items():
                frame.locals.setdefault(k, v)
        # closure cells
        if fn.__closure__:
            for nm, cell in zip(fn.__code__.co_freevars, fn.__closure__):
                try:
                    frame.locals.setdefault(nm, cell.cell_contents)
                except ValueError:
                    pass
        self.depth += 1
        saved_frame = self.cur_frame
        if self.depth == 1:
            self.cur_frame = frame
        self.frame_stack.append(frame)
        try:
            self.exec_block(info.body, frame)
            return None
        except _Return as r:
            return r.value
        finally:
            self.frame_stack.pop()
            self.depth -= 1
            self.cur_frame = saved_frame

    def bind_args(self, fn, node, args, kwargs):
        a = node.args
        names = [x.arg for x in a.posonlyargs + a.args]
        locals_ = {}
        args = list(args)
        if len(args) > len(names) and not a.vararg:
            raise PyExc(ExcVal(TypeError, ("too many positional arguments",)))
        for nm, v in zip(names, args):
            locals_[nm] = v
        if a.vararg:
            locals_[a.vararg.arg] = tuple(args[len(names):])
        defaults = fn.__defaults__ or () if fn is not None else ()
        first_default = len(names) - len(defaults)
        kw = dict(kwargs)
        for i, nm in enumerate(names):
            if nm in locals_:
                if nm in kw:
                    raise PyExc(ExcVal(TypeError, (f"multiple values for {nm}",)))
                continue
            if nm in kw:
                locals_[nm] = kw.pop(nm)
            elif i >= first_default:
                locals_[nm] = defaults[i - first_default]
            else:
                raise PyExc(ExcVal(TypeError, (f"missing argument {nm}",)))
        kwdefaults = (fn.__kwdefaults__ or {}) if fn is not None else {}
        for x in a.kwonlyargs:
            if x.arg in kw:
                locals_[x.arg] = kw.pop(x.arg)
            elif x.arg in kwdefaults:
                locals_[x.arg] = kwdefaults[x.arg]
            else:
                raise PyExc(ExcVal(TypeError, (f"missing keyword-only argument {x.arg}",)))
        if a.kwarg:
            locals_[a.kwarg.arg] = kw
        elif kw:
            raise PyExc(ExcVal(TypeError, (f"unexpected keyword arguments {sorted(kw)}",)))
        return locals_

    def run_closure(self, clo: Closure, args, kwargs):
        node = clo.node
        if isinstance(node, ast.Lambda):
            locals_ = self._bind_simple(node.args, args, kwargs, clo.frame)
            frame = Frame(None, locals_, clo.frame.globals, clo.frame.info, parent=clo.frame)
            return self.eval(node.body, frame)
        locals_ = self._bind_simple(node.args, args, kwargs, clo.frame)
        frame = Frame(None, locals_, clo.frame.globals, clo.frame.info, parent=clo.frame)
        body = node.body
        try:
            self.exec_block(body, frame)
            return None
        except _Return as r:
            return r.value

    def _bind_simple(self, a, args, kwargs, frame):
        names = [x.arg for x in a.posonlyargs + a.args]
        locals_ = {}
        for nm, v in zip(names, args):
            locals_[nm] = v
        ndef = len(a.defaults)
        for i, nm in enumerate(names):
            if nm in locals_:
                continue
            if nm in kwargs:
                locals_[nm] = kwargs[nm]
            elif i >= len(names) - ndef:
                locals_[nm] = self.eval(a.defaults[i - (len(names) - ndef)], frame)
            else:
                raise PyExc(ExcVal(TypeError, (f"missing argument {nm}",)))
        if a.vararg:
            locals_[a.vararg.arg] = tuple(args[len(names):])
        return locals_

    # ------------------------------------------------------------------ statements
    def exec_block(self, stmts, frame):
        for s in stmts:
            self.exec_stmt(s, frame)

    def exec_stmt(self, s, frame):
        m = getattr(self, "st_" + type(s).__name__, None)
        if m is None:
            raise Unsupported(f"statement {type(s).__name__} at line {getattr(s, 'lineno', '?')}")
        return m(s, frame)

    def st_Pass(self, s, frame):
        pass

    def st_Global(self, s, frame):
        raise Unsupported("global statement")

    def st_Nonlocal(self, s, frame):
        raise Unsupported("nonlocal statement")

    def st_Expr(self, s, frame):
        if isinstance(s.value, ast.Yield):
            if frame.yield_cb is None:
                raise Unsupported("yield outside an inlined context manager")
            cb = frame.yield_cb
            val = self.eval(s.value.value, frame) if s.value.value is not None else None
            cb(val)
            return
        self.eval(s.value, frame)

    def st_Return(self, s, frame):
        raise _Return(self.eval(s.value, frame) if s.value is not None else None)

    def st_Break(self, s, frame):
        raise _Break()

    def st_Continue(self, s, frame):
        raise _Continue()

    def st_FunctionDef(self, s, frame):
        frame.locals[s.name] = Closure(s, frame, s.name)

    def st_Assign(self, s, frame):
        v = self.eval(s.value, frame)
        for t in s.targets:
            self.assign(t, v, frame)

    def st_AnnAssign(self, s, frame):
        if s.value is not None:
            self.assign(s.target, self.eval(s.value, frame), frame)

    def st_AugAssign(self, s, frame):
        t = s.target
        if isinstance(t, ast.Name):
            cur = frame.lookup(t.id)
        elif isinstance(t, ast.Attribute):
            obj = self.eval(t.value, frame)
            cur = self.get_attr(obj, t.attr)
        elif isinstance(t, ast.Subscript):
            obj = self.eval(t.value, frame)
            idx = self.eval_index(t.slice, frame)
            cur = self.get_item(obj, idx)
        else:
            raise Unsupported("augmented assignment target")
        rhs = self.eval(s.value, frame)
        # in-place mutation of mutable boxes
        if isinstance(s.op, ast.Add) and isinstance(cur, SBytes) and cur.kind == "bytearray":
            cur.e = z3.Concat(cur.e, self.models.as_seq(self, rhs))
            return
        if isinstance(s.op, ast.Add) and isinstance(cur, list):
            cur.extend(self.models.concrete_items(self, rhs))
            return
        if isinstance(s.op, ast.Add) and isinstance(cur, SSeq) and cur.kind == "list":
            self.models.list_extend(self, cur, rhs)
            return
        v = self.binop(s.op, cur, rhs)
        if isinstance(t, ast.Name):
            self.store_name(t.id, v, frame)
        elif isinstance(t, ast.Attribute):
            self.set_attr(obj, t.attr, v)
        else:
            self.set_item(obj, idx, v)

    def store_name(self, name, v, frame):
        frame.locals[name] = v

    def assign(self, target, v, frame):
        if isinstance(target, ast.Name):
            self.store_name(target.id, v, frame)
        elif isinstance(target, (ast.Tuple, ast.List)):
            items = self.models.concrete_items(self, v)
            starred = [i for i, e in enumerate(target.elts) if isinstance(e, ast.Starred)]
            if starred:
                raise Unsupported("starred assignment")
            if len(items) != len(target.elts):
                self.raise_py(ValueError, "unpack arity")
            for e, x in zip(target.elts, items):
                self.assign(e, x, frame)
        elif isinstance(target, ast.Attribute):
            obj = self.eval(target.value, frame)
            self.set_attr(obj, target.attr, v)
        elif isinstance(target, ast.Subscript):
            obj = self.eval(target.value, frame)
            idx = self.eval_index(target.slice, frame)
            self.set_item(obj, idx, v)
        else:
            raise Unsupported(f"assignment target {type(target).__name__}")

    def st_Delete(self, s, frame):
        for t in s.targets:
            if isinstance(t, ast.Subscript):
                obj = self.eval(t.value, frame)
                idx = self.eval_index(t.slice, frame)
                self.models.del_item(self, obj, idx)
            elif isinstance(t, ast.Name):
                frame.locals.pop(t.id, None)
            elif isinstance(t, ast.Attribute):
                obj = self.eval(t.value, frame)
                self.del_attr(obj, t.attr)
            else:
                raise Unsupported("del target")

    def st_If(self, s, frame):
        if self.branch(self.eval(s.test, frame), note=f"if@{s.lineno}"):
            self.exec_block(s.body, frame)
        else:
            self.exec_block(s.orelse, frame)

    def st_Assert(self, s, frame):
        c = self.eval(s.test, frame)
        if not self.branch(c, note=f"assert@{s.lineno}"):
            self.raise_py(AssertionError)

    def st_Raise(self, s, frame):
        if s.exc is None:
            if frame.cur_exc is None:
                self.raise_py(RuntimeError, "no active exception")
            raise PyExc(frame.cur_exc)
        v = self.eval(s.exc, frame)
        if isinstance(v, type) and issubclass(v, BaseException):
            v = self.instantiate_exception(v, [], {})
        if isinstance(v, BaseException):
            v = ExcVal(type(v), v.args)
        if not isinstance(v, ExcVal):
            raise Unsupported(f"raise of {v!r}")
        raise PyExc(v, where=s.lineno)

    def instantiate_exception(self, cls, args, kwargs):
        ev = ExcVal(cls, args)
        ev.fields.update(kwargs)
        return ev

    def st_Try(self, s, frame):
        try:
            try:
                self.exec_block(s.body, frame)
            except PyExc as e:
                handled = False
                for h in s.handlers:
                    if h.type is None:
                        match = True
                    else:
                        ht = self.eval(h.type, frame)
                        hts = ht if isinstance(ht, tuple) else (ht,)
                        match = any(isinstance(k, type) and issubclass(e.cls, k) for k in hts)
                    if match:
                        handled = True
                        saved = frame.cur_exc
                        frame.cur_exc = e.val
                        if h.name:
                            frame.locals[h.name] = e.val
                        try:
                            self.exec_block(h.body, frame)
                        finally:
                            frame.cur_exc = saved
                        break
                if not handled:
                    raise
            else:
                self.exec_block(s.orelse, frame)
        except PathEnd:
            raise
        except (PyExc, _Return, _Break, _Continue):
            if s.finalbody:
                self.exec_block(s.finalbody, frame)
            raise
        else:
            if s.finalbody:
                self.exec_block(s.finalbody, frame)

    def st_With(self, s, frame):
        self._with(s.items, s.body, frame)

    st_AsyncWith = st_With

    def _with(self, items, body, frame):
        if not items:
            return self.exec_block(body, frame)
        item, rest = items[0], items[1:]
        ce = item.context_expr
        # generator context managers are inlined: pre-yield; body; post-yield
        if isinstance(ce, ast.Call):
            fv = self.eval(ce.func, frame)
            target_fn = None
            recv = None
            if isinstance(fv, BoundMethod):
                target_fn, recv = unwrap_function(fv.func), fv.recv
            elif callable(fv) and hasattr(fv, "__wrapped__"):
                target_fn = unwrap_function(fv)
            if target_fn is not None and isinstance(target_fn, types.FunctionType):
                info = FnInfo.of(target_fn)
                if info.is_generator:
                    args = [self.eval(a, frame) for a in ce.args]
                    kwargs = {k.arg: self.eval(k.value, frame) for k in ce.keywords}
                    if recv is not None:
                        args = [recv] + args
                    return self._with_generator(target_fn, info, args, kwargs, item, rest, body, frame)
        mgr = self.eval(ce, frame)
        handler = self.models.with_manager(self, mgr)
        if handler is None:
            raise Unsupported(f"with-statement manager {mgr!r}")
        enter_val = handler.enter()
        if item.optional_vars is not None:
            self.assign(item.optional_vars, enter_val, frame)
        try:
            self._with(rest, body, frame)
        except PyExc as e:
            if not handler.exit(e):
                raise
        except (_Return, _Break, _Continue):
            handler.exit(None)
            raise
        else:
            handler.exit(None)

    def _with_generator(self, fn, info, args, kwargs, item, rest, body, frame):
        self.functions_seen[info.qualname] = info
        self.inlined.add(info.qualname)
        locals_ = self.bind_args(fn, info.node, args, kwargs)
        gframe = Frame(fn, locals_, fn.__globals__, info)
        ran = [False]

        def cb(val):
            if ran[0]:
                raise Unsupported("generator context manager yields twice")
            ran[0] = True
            if item.optional_vars is not None:
                self.assign(item.optional_vars, val, frame)
            self._with(rest, body, frame)

        gframe.yield_cb = cb
        try:
            self.exec_block(info.body, gframe)
        except _Return:
            pass
        if not ran[0]:
            raise Unsupported("generator context manager did not yield")

    # ---- loops
    def loop_contract(self, node, frame):
        if frame.info is None:
            return None
        ordinal = frame.info.loops.get(id(node))
        if ordinal is None:
            return None
        c = None
        if self.contract is not None and self.depth == 1 and getattr(self.contract, "target", None) == frame.info.qualname:
            c = self.contract
        if c is None:
            c = self.reg.get(frame.info.qualname)
        if c is None:
            return None
        return c.loops.get(ordinal)

    def st_While(self, s, frame):
        lc = self.loop_contract(s, frame)
        if lc is None:
            n = 0
            while True:
                if not self.branch(self.eval(s.test, frame), note=f"while@{s.lineno}"):
                    self.exec_block(s.orelse, frame)
                    return
                n += 1
                self.path.unrolled += 1
                if n > self.MAX_UNROLL:
                    raise Unsupported(f"while loop at line {s.lineno} without invariant did not terminate within {self.MAX_UNROLL} unrollings")
                try:
                    self.exec_block(s.body, frame)
                except _Break:
                    return
                except _Continue:
                    continue
        tag = f"{frame.info.qualname}.loop{frame.info.loops[id(s)]}"
        if self.depth > 1:
            # a loop of an inlined callee whose condition is false on entry does not run: no cut, no invariant needed
            t0 = self.truth(self.eval(s.test, frame))
            dead = (t0 is False) or (not isinstance(t0, bool) and not self.path.feasible(t0))
            if dead:
                if not isinstance(t0, bool):
                    self.path.assume(z3.Not(t0))
                self.exec_block(s.orelse, frame)
                return
        self.prove_clauses(lc.invariant, frame, f"{tag}.inv.init")
        self.havoc_loop_state(s, lc, frame)
        self.assume_clauses(lc.invariant, frame)
        self._set_head(frame)
        if self.branch(self.eval(s.test, frame), note=f"while@{s.lineno}"):
            v0 = [self.eval_clause(v, frame, 0) for v in lc.decreases]
            brk = False
            try:
                self.exec_block(s.body, frame)
            except _Continue:
                pass
            except _Break:
                brk = True
            if brk:
                return
            self.prove_clauses(lc.invariant, frame, f"{tag}.inv.preserve")
            if lc.decreases:
                v1 = [self.eval_clause(v, frame, 0) for v in lc.decreases]
                self.path.prove(lex_decrease(v0, v1), f"{tag}.decreases", kind="termination")
            raise PathEnd()
        self.exec_block(s.orelse, frame)

    def st_For(self, s, frame):
        it = self.eval(s.iter, frame)
        if isinstance(it, SObj):
            # an object with a Python-level __iter__ (e.g. dns.set.Set: ``return iter(self.items)``): iterate what it returns
            f = self.class_lookup(it.cls, "__iter__")
            if f is not None and isinstance(unwrap_function(f), types.FunctionType):
                it = self.call(BoundMethod(it, unwrap_function(f), "__iter__"), [], {})
        lc = self.loop_contract(s, frame)
        if lc is None:
            items = self.models.concrete_items(self, it, allow_fail=True)
            if items is None:
                raise Unsupported(f"for loop at line {s.lineno} over a symbolic sequence needs a loop invariant")
            for x in items:
                self.assign(s.target, x, frame)
                self.path.unrolled += 1
                try:
                    self.exec_block(s.body, frame)
                except _Break:
                    return
                except _Continue:
                    continue
            self.exec_block(s.orelse, frame)
            return
        tag = f"{frame.info.qualname}.loop{frame.info.loops[id(s)]}"
        n = self.models.seq_len(self, it)
        idx = lc.index
        frame.locals[idx] = 0
        self.prove_clauses(lc.invariant, frame, f"{tag}.inv.init")
        self.havoc_loop_state(s, lc, frame)
        i = self.path.fresh_int(idx)
        self.path.add_pool(i)
        frame.locals[idx] = SInt(i)
        self.path.assume(z3.And(i >= 0, i <= to_z3(n)))
        self.assume_clauses(lc.invariant, frame)
        self._set_head(frame)
        if self.path.branch(i < to_z3(n), note=f"for@{s.lineno}"):
            self.assign(s.target, self.models.seq_at(self, it, SInt(i)), frame)
            brk = False
            try:
                self.exec_block(s.body, frame)
            except _Continue:
                pass
            except _Break:
                brk = True
            if brk:
                return
            frame.locals[idx] = SInt(simp(i + 1))
            self.prove_clauses(lc.invariant, frame, f"{tag}.inv.preserve")
            raise PathEnd()
        self.path.assume(i == to_z3(n))
        self.exec_block(s.orelse, frame)

    st_AsyncFor = st_For

    def havoc_loop_state(self, s, lc, frame):
        names, attrs = assigned_names(s.body + (s.orelse or []))
        if isinstance(s, ast.For):
            tn, _ = assigned_names([ast.Assign(targets=[s.target], value=ast.Constant(0))])
            names |= tn
        self._havocked = sorted(n for n in names if n in frame.locals or n in lc.types)
        for nm in sorted(names):
            if nm in lc.types:
                frame.locals[nm] = self.fresh(lc.types[nm], nm)
                continue
            if nm not in frame.locals:
                continue  # first bound inside the loop
            rebound = nm in _rebound_names(s.body + (s.orelse or [])) or (isinstance(s, ast.For) and nm in _rebound_names([ast.Assign(targets=[s.target], value=ast.Constant(0))]))
            if frame.locals[nm] is None and not rebound:
                continue  # None cannot be mutated in place, and the name is never re-bound
            cur = frame.locals[nm]
            if isinstance(cur, SObj) and not rebound and any(k == nm or k.startswith(nm + ".") for k in lc.modifies):
                continue  # an object mutated through its methods: the loop contract's modifies clause names what changes
            new = self.havoc_like(cur, nm)
            if not rebound and _is_mutable_box(cur) and type(new) is type(cur):
                # the object is only mutated in place: havoc the box itself so that every alias
                # (the contract's own parameter binding included) sees the loop state
                for slot in type(cur).__slots__:
                    setattr(cur, slot, getattr(new, slot))
            else:
                frame.locals[nm] = new
        for base, attr in sorted(attrs):
            obj = frame.locals.get(base)
            if isinstance(obj, SRef):
                clsname, decl = self.reg.heap_decl(obj.cls)
                if decl and attr in decl:
                    self.path.heap[(clsname, attr)] = z3.Const(self.path.fresh_name(f"heap_{attr}"), z3.ArraySort(S.IntS, S.sort_of(decl[attr])))
                continue
            if isinstance(obj, SObj) and attr in obj.fields:
                key = f"{base}.{attr}"
                if key in lc.types:
                    obj.fields[attr] = self.fresh(lc.types[key], key)
                else:
                    obj.fields[attr] = self.havoc_like(obj.fields[attr], key)
        if self.ghost_clock or self._time0 is not None:
            # at the head of an arbitrary iteration time has moved on: earlier iterations may have read the clock or waited
            # (the external clock is part of the state a loop cut forgets; it never goes back)
            from .models2 import m_time

            m_time(self, [], {})
        for clsname, attr in getattr(lc, "modifies_heap", []):
            decl = self.reg.heap_classes[clsname]
            self.models.heap_array(self, clsname, attr, decl[attr])
            self.path.heap[(clsname, attr)] = z3.Const(self.path.fresh_name(f"heap_{attr}"), z3.ArraySort(S.IntS, S.sort_of(decl[attr])))
        for expr, ty in lc.modifies.items():
            # explicit frame: "obj.field" -> type
            base, _, attr = expr.rpartition(".")
            obj = self.eval_clause(base, frame, 0)
            if not isinstance(obj, SObj):
                raise Unsupported(f"modifies target {expr} is not an object field")
            obj.fields[attr] = self.fresh(ty, expr) if ty is not None else self.havoc_like(obj.fields[attr], expr)

    def _set_head(self, frame):
        """ghost copies head_<name> of the loop state at the head of the current iteration"""
        from .models2 import snapshot_value

        memo = {}
        for nm in getattr(self, "_havocked", []):
            if nm in frame.locals:
                frame.locals["head_" + nm] = snapshot_value(frame.locals[nm], memo)

    def havoc_like(self, v, hint):
        if isinstance(v, bool) or isinstance(v, SBool):
            return self.fresh(T.bool, hint)
        if isinstance(v, (int, SInt)) and not isinstance(v, enum.Enum):
            return self.fresh(T.int, hint)
        if isinstance(v, enum.IntEnum):
            return self.fresh(T.int, hint)
        if isinstance(v, (float, SReal)):
            return self.fresh(T.real, hint)
        if isinstance(v, bytes):
            return self.fresh(T.bytes, hint)
        if isinstance(v, str):
            return self.fresh(T.str, hint)
        if isinstance(v, bytearray):
            return self.fresh(T.bytearray, hint)
        if isinstance(v, SBytes):
            return self.fresh(Ty(v.kind), hint)
        if isinstance(v, SSeq):
            return self.fresh(Ty("seq", ety=v.ety, seqkind=v.kind, indexed=v.mem is not None), hint)
        if isinstance(v, SMap):
            return self.fresh(Ty("map", kty=v.kty, vty=v.vty, ordered=False), hint)
        if isinstance(v, SBytesIO):
            return self.fresh(T.bytesio, hint)
        if isinstance(v, SRef):
            return self.fresh(T.ref(f"{v.cls.__module__}.{v.cls.__qualname__}"), hint)
        raise Unsupported(f"cannot havoc loop variable {hint} of value {type(v).__name__}; give its type in the loop contract")

    # ------------------------------------------------------------------ clauses (specification expressions)
    def clause_ast(self, text):
        cache = self.reg.clause_cache
        if text not in cache:
            cache[text] = _desugar_quantifiers(ast.parse(textwrap.dedent(text).strip(), mode="eval").body)
        return cache[text]

    def eval_clause(self, text, frame, pol):
        """Evaluate a specification expression over the frame.  pol: +1 goal, -1 hypothesis,
        0 term (no quantifiers)."""
        saved = self.spec
        self.spec = pol if pol else 2
        try:
            return self.eval(self.clause_ast(text), frame)
        finally:
            self.spec = saved

    def clause_formula(self, text, frame, pol):
        v = self.eval_clause(text, frame, pol)
        return self.as_bool_expr(v)

    def prove_clauses(self, clauses, frame, label, reify=None):
        for k, c in enumerate(clauses):
            for j, conj in enumerate(split_conjuncts(self.clause_ast(c))):
                saved = self.spec
                self.spec = 1
                try:
                    g = self.as_bool_expr(self.eval(conj, frame))
                finally:
                    self.spec = saved
                extra = []
                for v in frame.locals.values():
                    if isinstance(v, SInt):
                        extra.append(v.e)
                    elif isinstance(v, tuple):
                        extra.extend(x.e for x in v if isinstance(x, SInt))
                extra = extra[:16]
                self.path.prove(g, f"{label}[{k}.{j}]", reify=reify, extra_terms=extra)
                # re-assume in hypothesis form so that quantified parts become instantiable
                self.assume_ast(conj, frame)

    def assume_clauses(self, clauses, frame):
        for c in clauses:
            for conj in split_conjuncts(self.clause_ast(c)):
                self.assume_ast(conj, frame)

    def assume_ast(self, conj, frame):
        saved = self.spec
        self.spec = -1
        try:
            q = self.models.as_lazy_forall(self, conj, frame)
            if q is not None:
                self.path.qhyps.append(q)
                return
            self.path.assume(self.as_bool_expr(self.eval(conj, frame)))
        finally:
            self.spec = saved

    # ------------------------------------------------------------------ expressions
    def eval(self, e, frame):
        m = getattr(self, "ex_" + type(e).__name__, None)
        if m is None:
            raise Unsupported(f"expression {type(e).__name__} at line {getattr(e, 'lineno', '?')}")
        return m(e, frame)

    def ex_Constant(self, e, frame):
        return e.value

    def clock0(self):
        """time_0: the external clock when the function was entered (no reading yet); time_last starts there"""
        if self._time0 is None:
            self._time0 = z3.Real(self.path.fresh_name("time_0"))
            self.ghost["time_0"] = SReal(self._time0)
            self.ghost.setdefault("time_last", SReal(self._time0))
            if self.ghost_clock:
                self.path.assume(self.ghost_clock[0] >= self._time0)
        return self._time0

    def ex_Name(self, e, frame):
        if self.spec and e.id in ("time_last", "time_0") and e.id not in self.ghost:
            self.clock0()
        if self.spec and e.id in self.ghost:
            # ghost values (clock readings) are visible to every clause, loop invariants included
            f = frame
            while f is not None:
                if e.id in f.locals:
                    return f.locals[e.id]
                f = f.parent
            return self.ghost[e.id]
        return frame.lookup(e.id)

    def ex_Await(self, e, frame):
        return self.eval(e.value, frame)

    def ex_NamedExpr(self, e, frame):
        v = self.eval(e.value, frame)
        self.assign(e.target, v, frame)
        return v

    def ex_Tuple(self, e, frame):
        out = []
        for x in e.elts:
            if isinstance(x, ast.Starred):
                out.extend(self.models.concrete_items(self, self.eval(x.value, frame)))
            else:
                out.append(self.eval(x, frame))
        return tuple(out)

    def ex_List(self, e, frame):
        return list(self.ex_Tuple(e, frame))

    def ex_Set(self, e, frame):
        vals = [self.eval(x, frame) for x in e.elts]
        if has_sym(vals):
            raise Unsupported("set display with symbolic elements")
        return set(vals)

    def ex_Dict(self, e, frame):
        d = {}
        for k, v in zip(e.keys, e.values):
            if k is None:
                raise Unsupported("dict unpacking")
            kk = self.eval(k, frame)
            if has_sym(kk):
                raise Unsupported("dict display with symbolic key")
            d[kk] = self.eval(v, frame)
        return d

    def ex_Lambda(self, e, frame):
        return Closure(e, frame)

    def ex_IfExp(self, e, frame):
        if self.spec:
            c = self.truth(self.eval(e.test, frame))
            if isinstance(c, bool):
                return self.eval(e.body if c else e.orelse, frame)
            a = self.eval(e.body, frame)
            b = self.eval(e.orelse, frame)
            return self.models.ite(self, c, a, b)
        if self.branch(self.eval(e.test, frame), note=f"ifexp@{e.lineno}"):
            return self.eval(e.body, frame)
        return self.eval(e.orelse, frame)

    def ex_BoolOp(self, e, frame):
        is_and = isinstance(e.op, ast.And)
        if self.spec:
            parts = []
            for x in e.values:
                try:
                    v = self.eval(x, frame)
                except PyExc as ex:
                    if ex.cls not in (AttributeError, TypeError):
                        raise
                    # an attribute of None / arithmetic on None inside a clause: the operand is undefined here (it is meant to be guarded
                    # by a sibling operand); an unconstrained truth value keeps the clause sound in both polarities
                    v = SBool(self.path.fresh_bool("undefined_operand"))
                t = self.truth(v)
                if isinstance(t, bool):
                    if is_and and not t:
                        return False
                    if (not is_and) and t:
                        return True
                    continue
                parts.append(t)
            if not parts:
                return is_and
            return SBool(simp(z3.And(*parts) if is_and else z3.Or(*parts)))
        # code mode: Python short-circuit semantics, value-returning
        v = None
        for k, x in enumerate(e.values):
            v = self.eval(x, frame)
            if k == len(e.values) - 1:
                return v
            t = self.branch(v, note=f"boolop@{e.lineno}")
            if is_and and not t:
                return v
            if (not is_and) and t:
                return v
        return v

    def ex_UnaryOp(self, e, frame):
        if isinstance(e.op, ast.Not):
            if self.spec in (1, -1):
                self.spec = -self.spec
                try:
                    v = self.eval(e.operand, frame)
                finally:
                    self.spec = -self.spec
            else:
                v = self.eval(e.operand, frame)
            t = self.truth(v)
            if isinstance(t, bool):
                return not t
            return SBool(simp(z3.Not(t)))
        v = self.eval(e.operand, frame)
        if isinstance(e.op, ast.USub):
            if isinstance(v, SInt):
                return SInt(simp(-v.e))
            if isinstance(v, SReal):
                return SReal(simp(-v.e))
            return -v
        if isinstance(e.op, ast.UAdd):
            return v
        if isinstance(e.op, ast.Invert):
            if isinstance(v, SInt):
                return SInt(simp(-v.e - 1))
            return ~v
        raise Unsupported("unary operator")

    def ex_BinOp(self, e, frame):
        a = self.eval(e.left, frame)
        b = self.eval(e.right, frame)
        return self.binop(e.op, a, b)

    def binop(self, op, a, b):
        return self.models.binop(self, op, a, b)

    def ex_Compare(self, e, frame):
        left = self.eval(e.left, frame)
        parts = []
        for op, rhs_e in zip(e.ops, e.comparators):
            right = self.eval(rhs_e, frame)
            r = self.models.compare(self, op, left, right)
            t = self.truth(r)
            if isinstance(t, bool):
                if not t:
                    return False
            else:
                if self.spec or len(e.ops) == 1:
                    parts.append(t)
                else:
                    # chained comparison in code mode: short-circuit
                    if not self.path.branch(t, note=f"cmp@{e.lineno}"):
                        return False
            left = right
        if not parts:
            return True
        return SBool(simp(z3.And(*parts)) if len(parts) > 1 else parts[0])

    def ex_Attribute(self, e, frame):
        v = self.eval(e.value, frame)
        return self.get_attr(v, e.attr)

    def get_attr(self, v, name):
        return self.models.get_attr(self, v, name)

    def set_attr(self, obj, name, v):
        return self.models.set_attr(self, obj, name, v)

    def del_attr(self, obj, name):
        return self.models.del_attr(self, obj, name)

    def eval_index(self, sl, frame):
        if isinstance(sl, ast.Slice):
            lo = self.eval(sl.lower, frame) if sl.lower is not None else None
            hi = self.eval(sl.upper, frame) if sl.upper is not None else None
            st = self.eval(sl.step, frame) if sl.step is not None else None
            return slice(lo, hi, st)
        return self.eval(sl, frame)

    def ex_Subscript(self, e, frame):
        v = self.eval(e.value, frame)
        idx = self.eval_index(e.slice, frame)
        return self.get_item(v, idx)

    def get_item(self, v, idx):
        return self.models.get_item(self, v, idx)

    def set_item(self, v, idx, x):
        return self.models.set_item(self, v, idx, x)

    def ex_JoinedStr(self, e, frame):
        return self.models.fstring(self, e, frame)

    def ex_ListComp(self, e, frame):
        return self.models.comprehension(self, e, frame, "list")

    def ex_GeneratorExp(self, e, frame):
        return self.models.comprehension(self, e, frame, "gen")

    def ex_SetComp(self, e, frame):
        return self.models.comprehension(self, e, frame, "set")

    def ex_DictComp(self, e, frame):
        return self.models.comprehension(self, e, frame, "dict")

    def ex_Starred(self, e, frame):
        raise Unsupported("starred expression")

    def ex_Call(self, e, frame):
        # specification-level forms first
        if self.spec:
            r = self.models.spec_call(self, e, frame)
            if r is not NotImplemented:
                return r
        fv = self.eval(e.func, frame)
        args = []
        for a in e.args:
            if isinstance(a, ast.Starred):
                args.extend(self.models.concrete_items(self, self.eval(a.value, frame)))
            else:
                args.append(self.eval(a, frame))
        kwargs = {}
        for k in e.keywords:
            if k.arg is None:
                d = self.eval(k.value, frame)
                if not isinstance(d, dict):
                    raise Unsupported("** of non-dict")
                kwargs.update(d)
            else:
                kwargs[k.arg] = self.eval(k.value, frame)
        return self.call(fv, args, kwargs, lineno=getattr(e, "lineno", None))

    # ------------------------------------------------------------------ calls
    def call(self, fv, args, kwargs, lineno=None):
        return self.models.call(self, fv, args, kwargs, lineno)


def _is_mutable_box(v):
    return isinstance(v, (SBytesIO, SMap)) or (isinstance(v, SSeq) and v.kind == "list") or (isinstance(v, SBytes) and v.kind == "bytearray")


def _rebound_names(stmts):
    """names that are assigned (not merely mutated through a subscript/method) in stmts"""
    out = set()
    for st in stmts:
        for n in ast.walk(st):
            if isinstance(n, ast.Name) and isinstance(n.ctx, (ast.Store, ast.Del)):
                out.add(n.id)
    return out


def _desugar_quantifiers(node):
    """all(P for a in R1 for b in R2)  ->  all(all(P for b in R2) for a in R1)  (same for any)"""

    class Tr(ast.NodeTransformer):
        def visit_Call(self, n):
            self.generic_visit(n)
            if isinstance(n.func, ast.Name) and n.func.id in ("all", "any") and len(n.args) == 1 and isinstance(n.args[0], ast.GeneratorExp) and len(n.args[0].generators) > 1:
                gen = n.args[0]
                inner = ast.Call(func=ast.Name(id=n.func.id, ctx=ast.Load()), args=[ast.GeneratorExp(elt=gen.elt, generators=gen.generators[1:])], keywords=[])
                inner = self.visit_Call(inner) if len(gen.generators) > 2 else inner
                outer = ast.Call(func=ast.Name(id=n.func.id, ctx=ast.Load()), args=[ast.GeneratorExp(elt=inner, generators=gen.generators[:1])], keywords=[])
                return ast.copy_location(outer, n)
            return n

    return ast.fix_missing_locations(Tr().visit(node))


def _is_object_slot(f):
    return f in (object.__dict__.get("__eq__"), object.__dict__.get("__hash__"), object.__dict__.get("__init__"), object.__dict__.get("__ne__"))


def split_conjuncts(node):
    if isinstance(node, ast.BoolOp) and isinstance(node.op, ast.And):
        out = []
        for v in node.values:
            out.extend(split_conjuncts(v))
        return out
    return [node]


def lex_decrease(v0, v1):
    """(v1 < v0 lexicographically) and all components of the variant bounded below by 0."""
    z0 = [to_z3(x) for x in v0]
    z1 = [to_z3(x) for x in v1]
    alts = []
    for k in range(len(z0)):
        eqs = [z1[j] == z0[j] for j in range(k)]
        alts.append(z3.And(*(eqs + [z1[k] < z0[k], z0[k] >= 0])))
    return z3.Or(*alts) if alts else z3.BoolVal(False)


# ----------------------------------------------------------------------------- fresh values


def fresh_value(I: Interp, ty: Ty, hint="v"):
    p = I.path
    k = ty.kind
    if k == "int":
        x = p.fresh_int(hint)
        p.add_pool(x)
        if ty.lo is not None:
            p.assume(x >= ty.lo)
        if ty.hi is not None:
            p.assume(x <= ty.hi)
        return SInt(x)
    if k == "bool":
        return SBool(p.fresh_bool(hint))
    if k == "real":
        return SReal(z3.Real(p.fresh_name(hint)))
    if k in ("bytes", "str", "bytearray"):
        return SBytes(z3.Const(p.fresh_name(hint), S.SeqI), k)
    if k == "seq":
        srt = S.sort_of(ty.ety)
        arr = z3.Const(p.fresh_name(hint + "_arr"), z3.ArraySort(S.IntS, srt))
        n = p.fresh_int(hint + "_len")
        p.add_pool(n)
        p.assume(n >= 0)
        res = SSeq(arr, n, ty.ety, ty.seqkind)
        if getattr(ty, "index_terms", False):
            # the elements are themselves used as instantiation terms (e.g. a ghost sequence of object ids)
            p.term_maps.append(lambda t, arr=arr: z3.Select(arr, t))
        if getattr(ty, "indexed", False):
            mem = z3.Const(p.fresh_name(hint + "_mem"), z3.ArraySort(S.IntS, S.BoolS))
            lpos = z3.Const(p.fresh_name(hint + "_lpos"), z3.ArraySort(S.IntS, S.IntS))
            res.mem, res.lpos = mem, lpos
            p.term_maps.append(lambda t, lpos=lpos: z3.Select(lpos, t))
            p.qhyps.append(lambda t, arr=arr, n=n, mem=mem, lpos=lpos: z3.And(
                z3.Implies(z3.And(t >= 0, t < n), z3.Select(mem, z3.Select(arr, t))),
                z3.Implies(z3.Select(mem, t), z3.And(z3.Select(lpos, t) >= 0, z3.Select(lpos, t) < n, z3.Select(arr, z3.Select(lpos, t)) == t))))
        return res
    if k == "fixed":
        return tuple(fresh_value(I, t, f"{hint}_{i}") for i, t in enumerate(ty.items))
    if k == "const":
        return ty.value
    if k == "oneof":
        d = p.choose(len(ty.values), note=f"oneof:{hint}")
        return ty.values[d]
    if k == "opt":
        d = p.choose(2, note=f"opt:{hint}")
        if d == 0:
            return fresh_value(I, ty.inner, hint)
        return None
    if k == "obj":
        cls = I.reg.resolve(ty.cls) if isinstance(ty.cls, str) else ty.cls
        fields = dict(ty.fields)
        inv = ty.inv
        decl = I.reg.classes.get(ty.cls if isinstance(ty.cls, str) else f"{cls.__module__}.{cls.__qualname__}")
        if decl is not None and not getattr(ty, "raw", False):
            f2 = dict(decl.fields)
            f2.update(fields)
            fields = f2
            if inv is None:
                inv = decl.inv
        obj = SObj(cls, {}, label=hint)
        for fn_, fty in fields.items():
            obj.fields[fn_] = fresh_value(I, fty, f"{hint}.{fn_}")
        if inv:
            fr = Frame(None, {"self": obj}, I.reg.spec_globals())
            for c in ([inv] if isinstance(inv, str) else inv):
                I.assume_clauses([c], fr)
        return obj
    if k == "map":
        ks = S.sort_of(ty.kty)
        has = z3.Const(p.fresh_name(hint + "_has"), z3.ArraySort(ks, S.BoolS))
        val = z3.Const(p.fresh_name(hint + "_val"), z3.ArraySort(ks, S.sort_of(ty.vty)))
        m = SMap(has, val, ty.kty, ty.vty)
        if getattr(ty, "ordered", False):
            from .models import attach_key_order

            attach_key_order(I, m, hint)
        elif getattr(ty, "sized", False):
            n = p.fresh_int(hint + "_size")
            p.add_pool(n)
            p.assume(n >= 0)
            m.size = n
            # a dict with a present key is not empty (the only cardinality fact used without an order)
            p.qhyps.append(lambda t, has=has, n=n: z3.Implies(z3.Select(has, t), n >= 1))
        return m
    if k == "ref":
        from .models import heap_fresh_ref

        cls = I.reg.resolve(ty.cls)
        if ty.nullable:
            d = p.choose(2, note=f"ref-none:{hint}")
            if d == 1:
                return None
        return heap_fresh_ref(I, cls, ty.cls, hint)
    if k == "bytesio":
        buf = z3.Const(p.fresh_name(hint + "_buf"), S.SeqI)
        pos = p.fresh_int(hint + "_pos")
        p.assume(z3.And(pos >= 0, pos <= z3.Length(buf)))
        return SBytesIO(buf, pos)
    raise Unsupported(f"fresh value of type {ty}")
