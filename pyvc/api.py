"""Contract language, registry and the per-contract verification driver of pyvc."""

from __future__ import annotations

import ast
import importlib
import inspect
import os
import sys
import time
import traceback
import types

import z3

from . import sym as S
from .interp import FnInfo, Frame, Interp, PyExc, unwrap_function
from .path import Infeasible, Path, PathEnd
from .sym import SBool, SBytes, SInt, SObj, SSeq, T, Ty, Unsupported, simp, to_z3


class LoopContract:
    def __init__(self, invariant=(), decreases=(), index="_i", types=None, modifies=None, modifies_heap=None):
        self.modifies_heap = list(modifies_heap or [])  # (heap class, field) pairs written by the loop through calls
        self.invariant = [invariant] if isinstance(invariant, str) else list(invariant)
        self.decreases = [decreases] if isinstance(decreases, str) else list(decreases)
        self.index = index
        self.types = types or {}
        self.modifies = modifies or {}


def loop(invariant=(), decreases=(), index="_i", types=None, modifies=None, modifies_heap=None):
    return LoopContract(invariant, decreases, index, types, modifies, modifies_heap)


class Contract:
    def __init__(self, name, params=None, requires=(), ensures=(), raises=(), returns=None, loops=None, modifies=None,
                 ensures_raise=(), props=(), verify_only=False, site_requires=None, status="proved", cases=None, note="", reify=None,
                 max_paths=400, target=None, elements_are_keys=False, ghost_entry=None, heavy=False, when=None, modifies_heap=None, clock_reads=0, result_alias=None, ghost_at_calls=None, inline_calls=None, no_native=False):
        self.name = name
        self.params = params or {}
        self.requires = [requires] if isinstance(requires, str) else list(requires)
        self.ensures = [ensures] if isinstance(ensures, str) else list(ensures)
        self.raises = []  # (exception qualname, condition, mode)
        for r in raises:
            if len(r) == 2:
                self.raises.append((r[0], r[1], "iff"))
            else:
                self.raises.append(tuple(r))
        self.returns = returns
        self.loops = loops or {}
        self.modifies = modifies or {}
        self.ensures_raise = ensures_raise if isinstance(ensures_raise, dict) else list(ensures_raise)
        self.props = list(props)
        self.site_requires = site_requires or {}
        self.verify_only = verify_only  # verified, but call sites inline the body instead
        self.status = status  # 'proved' (to be verified) | 'assumed' (trusted, listed as such)
        self.cases = cases  # optional list of dicts: extra requires per case (alias cases etc.)
        self.note = note
        self.reify = reify
        self.max_paths = max_paths
        self.elements_are_keys = elements_are_keys
        self.no_native = no_native  # the native (run-time) evaluation of the clauses does not apply (inputs are abstractions)
        self.inline_calls = set(inline_calls or [])  # callees whose body is executed instead of using their contract
        self.ghost_at_calls = dict(ghost_at_calls or {})  # callee contract name -> {callee ghost parameter: this contract's ghost}
        self.result_alias = list(result_alias or [])  # (condition over the pre-state, parameter): the function returns that argument itself
        self.clock_reads = clock_reads  # how many readings of time.time() the function may take (call sites advance the clock)
        self.modifies_heap = modifies_heap or []  # (heap class, field) pairs the function may write
        self.when = when  # optional predicate(bound args dict) selecting this contract at a call site
        self.heavy = heavy  # verified in the thorough tier only (minutes of solver time)
        self.ghost_entry = ghost_entry or {}  # ghost name -> expression evaluated over the pre-state
        self.target = target or name  # the function the contract is about (several contracts may share one)
        self.module_file = None


def _raise_clauses(self, reg, exc_cls):
    """postconditions that hold when exc_cls escapes: a list applies to every exception, a dict
    maps exception qualnames (matched by subclass) to clause lists ('*' = any)."""
    er = self.ensures_raise
    if isinstance(er, dict):
        out = list(er.get("*", []))
        for name, clauses in er.items():
            if name == "*":
                continue
            k = reg.resolve(name)
            if isinstance(k, type) and issubclass(exc_cls, k):
                out += list(clauses)
        return out
    return list(er)


Contract.raise_clauses = _raise_clauses


class Lemma:
    """Level-2 lemma: proved from contract postconditions only (never looks at code)."""

    def __init__(self, name, params, uses=(), hyps=(), goals=(), props=(), note="", pre_hyps=()):
        self.name = name
        self.pre_hyps = list(pre_hyps)  # assumed before the contract uses (pre-state facts for heap-modifying contracts)
        self.params = params
        self.uses = list(uses)  # (contract name, {param: expr}, result var name)
        self.hyps = list(hyps)
        self.goals = list(goals)
        self.props = list(props)
        self.note = note


class StepLemma:
    """Step lemma over the *body of a loop of the real function*: from a symbolic loop state that
    satisfies `requires`, executing the body once for each of the given element values (in order)
    raises nothing and ends in a state satisfying `ensures`.  This is the induction step that,
    with A-fold, lifts per-element facts to whole sequences (DESIGN.md 1.4)."""

    def __init__(self, name, target, loop, state, elements, requires=(), ensures=(), params=None, props=(), note=""):
        self.name, self.target, self.loop = name, target, loop
        self.state, self.elements = state, list(elements)
        self.params = params or {}
        self.requires, self.ensures = list(requires), list(ensures)
        self.props, self.note = list(props), note


class ClassDecl:
    def __init__(self, name, fields, inv=None, make=None, gen=None, ghost=None):
        self.ghost = ghost or {}  # ghost field -> native function(obj) computing it (replay / search only)
        self.name = name
        self.fields = fields
        self.inv = inv
        self.make = make  # native constructor from a dict of field values (replay / search)
        self.gen = gen  # optional native generator rng -> instance


class SpecFn:
    def __init__(self, name, smt, native, doc=""):
        self.name = name
        self.smt = smt
        self.native = native
        self.doc = doc


class Registry:
    def __init__(self):
        self.contracts = {}
        self.lemmas = {}
        self.steps = {}
        self.heap_classes = {}  # qualname -> {field: Ty}
        self.roundtrips = {}
        self.statics = {}  # name -> (callable(reg) -> result dict, props)
        self.classes = {}
        self.spec_functions = {}
        self.inline = set()
        self.native_ok = set()
        self.clause_cache = {}
        self.comprehension_models = {}
        self._spec_globals = None

    # ---- declaration API used by contract modules
    def contract(self, name, **kw):
        c = Contract(name, **kw)
        self.contracts[name] = c
        return c

    def lemma(self, name, **kw):
        l = Lemma(name, **kw)
        self.lemmas[name] = l
        return l

    def declare_heap_class(self, name, /, **fields):
        """Objects of this class live in the symbolic heap (one array per field)."""
        self.heap_classes[name] = dict(fields)

    def heap_decl(self, cls):
        for k in getattr(cls, "__mro__", ()):
            d = self.heap_classes.get(f"{k.__module__}.{k.__qualname__}")
            if d is not None:
                return f"{k.__module__}.{k.__qualname__}", d
        return None, None

    def roundtrip(self, name, **kw):
        self.roundtrips[name] = RoundTrip(name, **kw)
        return self.roundtrips[name]

    def step_lemma(self, name, **kw):
        self.steps[name] = StepLemma(name, **kw)
        return self.steps[name]

    def external(self, callable_obj, model, description):
        """Assumed contract of an external (non-dnspython) callable, given as a model function
        (I, args, kwargs) -> value; listed in the trusted base of every property that uses it."""
        from .models2 import BUILTIN_MODELS

        BUILTIN_MODELS[callable_obj] = model
        self.externals = getattr(self, "externals", {})
        self.externals[getattr(callable_obj, "__qualname__", repr(callable_obj))] = description

    def static(self, name, fn, props=()):
        self.statics[name] = (fn, list(props))

    def declare_class(self, name, /, inv=None, make=None, gen=None, ghost=None, **fields):
        self.classes[name] = ClassDecl(name, fields, inv, make, gen, ghost)

    def spec(self, name, smt, native, doc=""):
        self.spec_functions[name] = SpecFn(name, smt, native, doc)

    # ---- lookup
    def get(self, qualname):
        return self.contracts.get(qualname)

    def get_for_call(self, I, qualname, fn, args, kwargs):
        """The contract to use at a call site of fn: several contracts may describe one function
        (target=...), each with a `when` predicate over the concretely known argument shapes."""
        cands = [c for c in self.contracts.values() if c.target == qualname and not c.verify_only]
        if not cands:
            return None
        if len(cands) == 1 and cands[0].when is None:
            return cands[0]
        try:
            bound = I.bind_args(fn, FnInfo.of(fn).node, args, kwargs)
        except Exception:
            return None
        for c in cands:
            if c.when is None or c.when(bound):
                return c
        return None

    def resolve(self, qualname):
        """module.attr.attr -> live object from /repo"""
        parts = qualname.split(".")
        for i in range(len(parts), 0, -1):
            modname = ".".join(parts[:i])
            try:
                obj = importlib.import_module(modname)
            except ImportError:
                continue
            for p in parts[i:]:
                if isinstance(obj, type) and p in ("__init__", "__setstate__"):
                    from .models2 import real_init

                    obj = real_init(obj, p)
                else:
                    obj = inspect.getattr_static(obj, p) if isinstance(obj, type) else getattr(obj, p)
            return obj
        raise Unsupported(f"cannot resolve {qualname}")

    def resolve_function(self, qualname):
        obj = self.resolve(qualname)
        fn = unwrap_function(obj)
        if getattr(fn, "__qualname__", "") == "_immutable_init.<locals>.nf":
            fn = fn.__closure__[0].cell_contents
        if not isinstance(fn, types.FunctionType):
            raise Unsupported(f"{qualname} does not resolve to a Python function")
        return fn

    def spec_globals(self):
        if self._spec_globals is None:
            import dns.name  # noqa

            self._spec_globals = {"dns": sys.modules["dns"]}
        return self._spec_globals

    # ---- using a contract at a call site (modular step)
    def apply_contract(self, I: Interp, c: Contract, fn, args, kwargs):
        info = FnInfo.of(fn) if isinstance(fn, types.FunctionType) else None
        if info is None:
            raise Unsupported(f"contract {c.name} on a non-Python function")
        locals_ = I.bind_args(fn, info.node, args, kwargs)
        vk = info.node.args.kwarg.arg if info.node.args.kwarg is not None else None
        for nm in c.params:
            if nm not in locals_ and vk and isinstance(locals_.get(vk), dict) and nm in locals_[vk]:
                locals_[nm] = locals_[vk][nm]  # a contract parameter passed through **kwargs
        for nm in c.params:
            if nm not in locals_:
                # ghost parameter of the callee: supplied by the caller's ghost of the same name
                ren = getattr(getattr(I, "contract", None), "ghost_at_calls", {}).get(c.name, {})
                gv = getattr(I, "ghost_values", {}).get(ren.get(nm, nm))
                if gv is None:
                    raise Unsupported(f"ghost parameter {nm} of {c.name} is not available at this call site")
                locals_[nm] = gv
        fr = Frame(fn, locals_, fn.__globals__, None)
        tag = f"call:{c.name}"
        I.prove_clauses(c.requires, fr, f"{tag}.requires")
        memo = {"__heap__": dict(I.path.heap), "__limit__": _heap_limit(I)}
        from .models2 import snapshot_value

        pre_locals = {k: snapshot_value(v, memo) for k, v in locals_.items()}
        pre = Frame(fn, pre_locals, fn.__globals__, None)
        for k, v in pre_locals.items():
            fr.locals["old_" + k] = v
        p = I.path
        for exc_name, cond, mode in c.raises:
            cz = I.clause_formula(cond, pre, -1)
            cz = simp(cz)
            if z3.is_false(cz):
                continue
            flag = p.fresh_bool("raises_" + exc_name.rsplit(".", 1)[-1])
            if p.branch(z3.And(flag, cz), note=f"{tag}.raises.{exc_name.rsplit('.', 1)[-1]}"):
                self._havoc_modifies(I, c, fr)
                I.assume_clauses(c.raise_clauses(self, self.resolve(exc_name)), fr)
                I.raise_py(self.resolve(exc_name))
            if mode == "iff":
                I.assume_ast(ast.UnaryOp(op=ast.Not(), operand=I.clause_ast(cond)), pre)
        if not p.feasible(z3.BoolVal(True)):
            raise Infeasible()  # the path was dead before the call: nothing to blame on the callee's postcondition
        self._havoc_modifies(I, c, fr)
        if c.clock_reads:
            # the callee's readings of the external clock: fresh, monotone, after the caller's last one;
            # its clauses name them time_1..time_n / time_last
            from .models2 import m_time

            for k in range(1, c.clock_reads + 1):
                fr.locals[f"time_{k}"] = m_time(I, [], {})
            fr.locals["time_last"] = fr.locals[f"time_{c.clock_reads}"]
        npos = p.pos
        result, aliased = None, False
        for cond, pname in c.result_alias:
            if p.branch(I.clause_formula(cond, pre, -1), note=f"{tag}.returns-{pname}"):
                result, aliased = locals_[pname], True
                break
        if not aliased:
            result = I.fresh(c.returns, "ret_" + c.name.rsplit(".", 1)[-1]) if c.returns is not None else None
        forked = p.pos != npos  # the result's shape was a choice (None or object, one of ...): other forks cover the rest
        fr.locals["result"] = result
        try:
            I.assume_clauses(c.ensures, fr)
            ok = p.feasible(z3.BoolVal(True))
        except Infeasible:
            ok = False
        if not ok and forked:
            raise Infeasible()
        if not ok:
            # never continue silently on an inconsistent state: that would make every later
            # obligation of the caller vacuous
            raise Unsupported(f"postcondition of {c.name} is inconsistent with the state at the call site "
                              "(missing 'modifies', or contradictory clauses)")
        return result

    def _havoc_modifies(self, I, c, fr):
        from .interp import _is_mutable_box
        from .models import heap_array

        for clsname_, field_ in getattr(c, "modifies_heap", []):
            decl_ = self.heap_classes[clsname_]
            heap_array(I, clsname_, field_, decl_[field_])
            I.path.heap[(clsname_, field_)] = z3.Const(I.path.fresh_name(f"heap_{field_}"), z3.ArraySort(S.IntS, S.sort_of(decl_[field_])))

        for expr, ty in c.modifies.items():
            if "." not in expr:
                # a mutable argument (BytesIO, dict, list, bytearray) changed in place by the callee
                box = fr.locals.get(expr)
                if box is None:
                    continue
                if not _is_mutable_box(box):
                    raise Unsupported(f"modifies target {expr} is not a mutable box")
                new = I.havoc_like(box, expr) if ty is None else I.fresh(ty, expr)
                for slot in type(box).__slots__:
                    setattr(box, slot, getattr(new, slot))
                continue
            base, _, attr = expr.rpartition(".")
            obj = I.eval_clause(base, fr, 0)
            if obj is None:
                continue  # an optional argument that is absent
            if not isinstance(obj, SObj):
                raise Unsupported(f"modifies target {expr} is not an object field")
            if ty is None:
                obj.fields[attr] = I.havoc_like(obj.fields[attr], expr)
            else:
                obj.fields[attr] = I.fresh(ty, expr)


def _heap_limit(I):
    from .models import heap_limit

    return heap_limit(I) if I.path.alloc0 is not None else None


REG = Registry()
S.RESOLVE_CLS = REG.resolve

# ----------------------------------------------------------------------------- verification of one contract


def _ordered_args(fn, info, values):
    a = info.node.args
    names = [x.arg for x in a.posonlyargs + a.args]
    args = []
    kwargs = {}
    stop = False
    for nm in names:
        if nm in values and not stop:
            args.append(values[nm])
        else:
            stop = True
            if nm in values:
                kwargs[nm] = values[nm]
    for x in a.kwonlyargs:
        if x.arg in values:
            kwargs[x.arg] = values[x.arg]
    return args, kwargs


def verify_contract(reg: Registry, c: Contract, opts=None):
    opts = dict(opts or {})
    opts["vc_cache"] = {}
    t0 = time.time()
    res = {
        "contract": c.name, "props": c.props, "status": None, "obligations": [], "paths": 0, "covers": 0,
        "functions": [], "assumed_contracts": [], "inlined": [], "unsupported": None, "solver_time_s": 0.0,
        "note": c.note,
    }
    try:
        fn = reg.resolve_function(c.target)
        info = FnInfo.of(fn)
    except Exception as e:
        res["status"] = "unresolved"
        res["unsupported"] = f"{type(e).__name__}: {e}"
        return res
    res["functions"].append(info.describe())
    if c.status == "assumed":
        res["status"] = "assumed"
        return res
    cases = c.cases or [None]
    work = [(ci, []) for ci in range(len(cases))][::-1]
    seen_fns = {}
    pid = 0
    while work:
        ci, dec = work.pop()
        pid += 1
        if pid > c.max_paths:
            res["unsupported"] = f"path limit {c.max_paths} exceeded"
            break
        path = Path(dec, pid, opts)
        I = Interp(path, reg, c)
        try:
            _run_one(reg, I, c, fn, info, cases[ci])
            if path.final_cover():
                res["covers"] += 1
                opts["have_cover"] = True
        except Infeasible:
            pass
        except PathEnd:
            if path.final_cover():
                res["covers"] += 1
        except Unsupported as u:
            res["unsupported"] = str(u)
            res["obligations"].extend(o.to_json() for o in path.obligations)
            break
        except RecursionError:
            res["unsupported"] = "recursion limit in the engine"
            break
        work.extend((ci, f) for f in path.forks)
        res["paths"] += 1
        res["solver_time_s"] += path.solver_time
        res["obligations"].extend(o.to_json() for o in path.obligations)
        seen_fns.update(I.functions_seen)
        res["assumed_contracts"] = sorted(set(res["assumed_contracts"]) | I.assumed_calls)
        res["inlined"] = sorted(set(res["inlined"]) | I.inlined)
    for q, inf in seen_fns.items():
        d = inf.describe()
        if d not in res["functions"]:
            res["functions"].append(d)
    obs = res["obligations"]
    if res["unsupported"]:
        res["status"] = "unsupported"
    elif not obs:
        res["status"] = "vacuous"
    elif any(o["status"] == "sat" for o in obs):
        res["status"] = "failed"
    elif any(o["status"] != "unsat" for o in obs):
        res["status"] = "undecided"
    elif res["covers"] == 0:
        res["status"] = "vacuous"
    else:
        res["status"] = "proved"
    if opts.get("vacuous_inst"):
        # such a path is infeasible only once the quantified hypotheses are instantiated (e.g. a branch that
        # contradicts a quantified precondition); reported, and never counted as a cover
        res["paths_infeasible_after_instantiation"] = opts["vacuous_inst"]
    res["wall_s"] = round(time.time() - t0, 3)
    res["solver_time_s"] = round(res["solver_time_s"], 3)
    return res


def _run_one(reg, I: Interp, c: Contract, fn, info, case):
    from .models2 import snapshot_value

    path = I.path
    values = {}
    for nm, ty in c.params.items():
        values[nm] = I.fresh(ty, nm)
        path.inputs[nm] = values[nm]
    if case:
        for dst, src in case.get("alias", {}).items():
            values[dst] = values[src]
    fr = Frame(fn, dict(values), fn.__globals__, None)
    I.assume_clauses(c.requires, fr)
    if case:
        I.assume_clauses(case.get("requires", []), fr)
    memo = {"__heap__": dict(I.path.heap), "__limit__": _heap_limit(I)}
    pre_locals = {k: snapshot_value(v, memo) for k, v in values.items()}
    pre = Frame(fn, pre_locals, fn.__globals__, None)
    for k, v in pre_locals.items():
        fr.locals["old_" + k] = v
    ghost0 = {"old_" + k: v for k, v in pre_locals.items()}
    for gname, gexpr in c.ghost_entry.items():
        gv = I.eval_clause(gexpr, pre, 0)
        ghost0[gname] = gv
        fr.locals[gname] = gv
    args, kwargs = _ordered_args(fn, info, values)
    sig = {x.arg for x in info.node.args.posonlyargs + info.node.args.args + info.node.args.kwonlyargs}
    I.ghost_values = {nm: v for nm, v in values.items() if nm not in sig}
    for nm, v in values.items():
        if nm not in sig:
            ghost0[nm] = v  # ghost parameter: constrained by `requires`, visible to every clause, not passed to the function
    for v in values.values():
        if isinstance(v, SObj) and c.name.endswith(".__init__") and v is values.get("self"):
            v.in_init = True
    tag = c.name
    try:
        result = I.run_function(fn, args, kwargs, ghost=ghost0)
    except PyExc as e:
        exc = e.cls
        pre.locals.update(I.ghost)
        fr.locals.update(I.ghost)
        conds = []
        for exc_name, cond, mode in c.raises:
            k = reg.resolve(exc_name)
            if isinstance(k, type) and issubclass(exc, k):
                conds.append(I.clause_formula(cond, pre, 1))
        where = f" raised at line {e.where}" if e.where else ""
        if not conds:
            path.prove(z3.BoolVal(False), f"{tag}.exceptions.unexpected[{exc.__module__}.{exc.__qualname__}]", kind="exception-set",
                       reify=lambda m: f"escaping {exc.__name__}{where}; trace {' '.join(path.trace[-12:])}")
        else:
            path.prove(z3.Or(*conds), f"{tag}.raises[{exc.__name__}]", kind="raises")
        I.prove_clauses(c.raise_clauses(reg, exc), fr, f"{tag}.ensures_raise[{exc.__name__}]")
        return
    fr.locals["result"] = result
    pre.locals.update(I.ghost)
    fr.locals.update(I.ghost)
    path.pre_cover()
    for exc_name, cond, mode in c.raises:
        if mode == "iff":
            cz = I.clause_formula(cond, pre, -1)
            path.prove(z3.Not(cz), f"{tag}.no-raise[{exc_name.rsplit('.', 1)[-1]}]", kind="raises")
    I.prove_clauses(c.ensures, fr, f"{tag}.ensures")


def verify_lemma(reg: Registry, l: Lemma, opts=None):
    t0 = time.time()
    res = {"contract": "lemma:" + l.name, "props": l.props, "status": None, "obligations": [], "paths": 0, "covers": 0,
           "functions": [], "assumed_contracts": sorted({u[0] for u in l.uses}), "inlined": [], "unsupported": None,
           "solver_time_s": 0.0, "note": l.note}
    work = [[]]
    pid = 0
    while work:
        dec = work.pop()
        pid += 1
        path = Path(dec, pid, opts or {})
        I = Interp(path, reg, None)
        try:
            env = {nm: I.fresh(ty, nm) for nm, ty in l.params.items()}
            fr = Frame(None, env, reg.spec_globals(), None)
            I.assume_clauses(l.pre_hyps, fr)
            for cname, binding, resname in l.uses:
                c = reg.contracts[cname]
                fn = reg.resolve_function(c.target)
                sub = {}
                for pn, expr in binding.items():
                    sub[pn] = I.eval_clause(expr, fr, 0)
                    sub["old_" + pn] = sub[pn]
                r = I.fresh(c.returns, resname) if c.returns is not None else None
                sub["result"] = r
                if getattr(c, "modifies_heap", None):
                    from .models import heap_array
                    from .models2 import snapshot_value

                    # pre-state view for old_*, then an arbitrary post-state of the fields the contract may write
                    memo = {"__heap__": dict(path.heap)}
                    for pn in binding:
                        sub["old_" + pn] = snapshot_value(sub[pn], memo)
                    env["heap_before_" + resname] = memo["__heap__"]
                sfr = Frame(fn, sub, fn.__globals__, None)
                I.assume_clauses(c.requires, sfr)
                if getattr(c, "modifies_heap", None):
                    for clsname_, field_ in c.modifies_heap:
                        decl_ = reg.heap_classes[clsname_]
                        heap_array(I, clsname_, field_, decl_[field_])
                        path.heap[(clsname_, field_)] = z3.Const(path.fresh_name(f"heap_{field_}"), z3.ArraySort(S.IntS, S.sort_of(decl_[field_])))
                for exc_name, cond, mode in c.raises:
                    if mode == "iff":
                        I.assume_ast(ast.UnaryOp(op=ast.Not(), operand=I.clause_ast(cond)), sfr)
                I.assume_clauses(c.ensures, sfr)
                env[resname] = r
            I.assume_clauses(l.hyps, fr)
            I.prove_clauses(l.goals, fr, f"lemma:{l.name}")
            if path.final_cover():
                res["covers"] += 1
        except Infeasible:
            pass
        except PathEnd:
            pass
        except Unsupported as u:
            res["unsupported"] = str(u)
            break
        work.extend(path.forks)
        res["paths"] += 1
        res["solver_time_s"] += path.solver_time
        res["obligations"].extend(o.to_json() for o in path.obligations)
    obs = res["obligations"]
    if res["unsupported"]:
        res["status"] = "unsupported"
    elif not obs:
        res["status"] = "vacuous"
    elif any(o["status"] == "sat" for o in obs):
        res["status"] = "failed"
    elif any(o["status"] != "unsat" for o in obs):
        res["status"] = "undecided"
    elif res["covers"] == 0:
        res["status"] = "vacuous"
    else:
        res["status"] = "proved"
    res["wall_s"] = round(time.time() - t0, 3)
    res["solver_time_s"] = round(res["solver_time_s"], 3)
    return res


def verify_step(reg: Registry, l: StepLemma, opts=None):
    import ast as _ast

    from .interp import _Break, _Continue, _Return
    from .models2 import snapshot_value

    t0 = time.time()
    res = {"contract": "step:" + l.name, "props": l.props, "status": None, "obligations": [], "paths": 0, "covers": 0, "functions": [],
           "assumed_contracts": [], "inlined": [], "unsupported": None, "solver_time_s": 0.0, "note": l.note}
    try:
        fn = reg.resolve_function(l.target)
        info = FnInfo.of(fn)
        node = next(n for n in FnInfo._in_order(info.node) if isinstance(n, (_ast.For, _ast.While, _ast.AsyncFor)) and info.loops.get(id(n)) == l.loop)
    except Exception as e:
        res["status"] = "unresolved"
        res["unsupported"] = f"{type(e).__name__}: {e}"
        return res
    res["functions"].append(info.describe())
    if not isinstance(node, (_ast.For, _ast.AsyncFor)):
        res["status"], res["unsupported"] = "unsupported", "step lemmas are defined for 'for' loops"
        return res
    work = [[]]
    pid = 0
    o = dict(opts or {})
    o["vc_cache"] = {}
    while work:
        dec = work.pop()
        pid += 1
        if pid > 600:
            res["unsupported"] = "path limit exceeded"
            break
        path = Path(dec, pid, o)
        I = Interp(path, reg, None)
        try:
            locals_ = {}
            for nm, ty in list(l.params.items()) + list(l.state.items()):
                locals_[nm] = I.fresh(ty, nm)
            frame = Frame(fn, locals_, fn.__globals__, info)
            I.assume_clauses(l.requires, frame)
            memo = {}
            for nm in list(locals_):
                frame.locals["old_" + nm] = snapshot_value(locals_[nm], memo)
            I.depth = 1
            I.cur_frame = frame
            for k, el in enumerate(l.elements):
                val = I.eval_clause(el, frame, 0)
                I.assign(node.target, val, frame)
                try:
                    I.exec_block(node.body, frame)
                except _Continue:
                    pass
                except _Break:
                    path.prove(z3.BoolVal(False), f"step:{l.name}.no-break[{k}]", kind="step")
                except _Return:
                    path.prove(z3.BoolVal(False), f"step:{l.name}.no-return[{k}]", kind="step")
                except PyExc as e:
                    path.prove(z3.BoolVal(False), f"step:{l.name}.no-exception[{k}:{e.cls.__name__}]", kind="step")
                    raise PathEnd()
            I.prove_clauses(l.ensures, frame, f"step:{l.name}.ensures")
            if path.final_cover():
                res["covers"] += 1
                o["have_cover"] = True
        except Infeasible:
            pass
        except PathEnd:
            pass
        except Unsupported as u:
            res["unsupported"] = str(u)
            break
        work.extend(path.forks)
        res["paths"] += 1
        res["solver_time_s"] += path.solver_time
        res["obligations"].extend(ob.to_json() for ob in path.obligations)
        res["inlined"] = sorted(set(res["inlined"]) | I.inlined)
    obs = res["obligations"]
    if res["unsupported"]:
        res["status"] = "unsupported"
    elif not obs:
        res["status"] = "vacuous"
    elif any(ob["status"] == "sat" for ob in obs):
        res["status"] = "failed"
    elif any(ob["status"] != "unsat" for ob in obs):
        res["status"] = "undecided"
    elif res["covers"] == 0:
        res["status"] = "vacuous"
    else:
        res["status"] = "proved"
    res["wall_s"] = round(time.time() - t0, 3)
    res["solver_time_s"] = round(res["solver_time_s"], 3)
    return res


class RoundTrip:
    """Relational wire round trip of one rdata class (C02): for arbitrary octets w, if
    cls.from_wire_parser(w) returns x having consumed all of w, then encoding x cannot fail,
    and decoding the encoding consumes it exactly and yields the same field values (hence the
    encoding of a decoded record is a fixed point of decode-then-encode)."""

    def __init__(self, name, cls, rdclass, rdtype, props=("C02",), note="", heavy=False, max_paths=300):
        self.name, self.cls, self.rdclass, self.rdtype = name, cls, rdclass, rdtype
        self.props, self.note, self.heavy, self.max_paths = list(props), note, heavy, max_paths


def verify_roundtrip(reg: Registry, rt: RoundTrip, opts=None):
    import dns.wire

    from .interp import BoundMethod
    from .models import equals
    from .models2 import real_init
    from .sym import SBytesIO

    t0 = time.time()
    res = {"contract": "roundtrip:" + rt.name, "props": rt.props, "status": None, "obligations": [], "paths": 0, "covers": 0, "functions": [],
           "assumed_contracts": [], "inlined": [], "unsupported": None, "solver_time_s": 0.0, "note": rt.note}
    try:
        cls = reg.resolve(rt.cls)
        dec = None
        for k in cls.__mro__:
            if "from_wire_parser" in k.__dict__:
                dec = k.__dict__["from_wire_parser"].__func__
                break
        enc = None
        for k in cls.__mro__:
            if "_to_wire" in k.__dict__:
                enc = k.__dict__["_to_wire"]
                break
        for f in (dec, enc):
            res["functions"].append(FnInfo.of(f).describe())
    except Exception as e:
        res["status"], res["unsupported"] = "unresolved", f"{type(e).__name__}: {e}"
        return res
    o = dict(opts or {})
    o["vc_cache"] = {}
    work = [[]]
    pid = 0
    tag = f"roundtrip:{rt.name}"
    while work:
        dec_list = work.pop()
        pid += 1
        if pid > rt.max_paths:
            res["unsupported"] = f"path limit {rt.max_paths} exceeded"
            break
        path = Path(dec_list, pid, o)
        I = Interp(path, reg, None)
        try:
            w = I.fresh(T.bytes, "w")
            path.inputs["w"] = w

            def mkparser(buf):
                p = SObj(dns.wire.Parser, {}, label="parser")
                p.fields.update(wire=buf, current=0, end=SInt(z3.Length(buf.e)), furthest=0)
                return p

            p1 = mkparser(w)
            try:
                x = I.call(BoundMethod(cls, dec, "from_wire_parser"), [rt.rdclass, rt.rdtype, p1, None], {})
            except PyExc:
                raise PathEnd()  # refused: the other disjunct of the property (the exception class is C04's business)
            if not path.branch(to_z3(p1.fields["current"]) == to_z3(p1.fields["end"]), note="consumed-all"):
                raise PathEnd()  # restrict_to would raise FormError
            f = SBytesIO(z3.Empty(S.SeqI), z3.IntVal(0))
            try:
                I.call(BoundMethod(x, enc, "_to_wire"), [f, None, None, False], {})
            except PyExc as e:
                path.prove(z3.BoolVal(False), f"{tag}.reencode-raises[{e.cls.__name__}]", kind="roundtrip")
                raise PathEnd()
            w2 = SBytes(f.buf, "bytes")
            p2 = mkparser(w2)
            try:
                x2 = I.call(BoundMethod(cls, dec, "from_wire_parser"), [rt.rdclass, rt.rdtype, p2, None], {})
            except PyExc as e:
                path.prove(z3.BoolVal(False), f"{tag}.redecode-raises[{e.cls.__name__}]", kind="roundtrip")
                raise PathEnd()
            path.prove(to_z3(p2.fields["current"]) == to_z3(p2.fields["end"]), f"{tag}.redecode-consumes-exactly", kind="roundtrip")
            for fname in sorted(x.fields):
                if fname == "rdcomment":
                    continue
                if fname not in x2.fields:
                    path.prove(z3.BoolVal(False), f"{tag}.field-missing[{fname}]", kind="roundtrip")
                    continue
                eq = equals(I, x.fields[fname], x2.fields[fname])
                path.prove(I.as_bool_expr(eq), f"{tag}.field-equal[{fname}]", kind="roundtrip")
            path.prove(I.as_bool_expr(equals(I, w2, w2)), f"{tag}.reached", kind="roundtrip")
            # ---- second direction: every well-formed VALUE survives encode-then-decode.  The
            # field kinds are learnt from the decoded record; fresh unconstrained values of those
            # kinds go through the real constructor (which applies the class's own validation).
            import inspect as _inspect

            init = real_init(cls)
            pnames = [p for p in _inspect.signature(init).parameters][3:]
            if pnames and all(p in x.fields for p in pnames):
                kw = {}
                for pn in pnames:
                    kw[pn] = I.havoc_like(x.fields[pn], "v_" + pn) if not isinstance(x.fields[pn], (tuple, SObj)) else None
                if all(v is not None for v in kw.values()):
                    try:
                        y = I.call(cls, [rt.rdclass, rt.rdtype], kw)
                    except PyExc:
                        raise PathEnd()  # the constructor refuses this value: not well-formed
                    f3 = SBytesIO(z3.Empty(S.SeqI), z3.IntVal(0))
                    try:
                        I.call(BoundMethod(y, enc, "_to_wire"), [f3, None, None, False], {})
                    except PyExc as e:
                        path.prove(z3.BoolVal(False), f"{tag}.value.encode-raises[{e.cls.__name__}]", kind="roundtrip")
                        raise PathEnd()
                    p3 = mkparser(SBytes(f3.buf, "bytes"))
                    try:
                        y2 = I.call(BoundMethod(cls, dec, "from_wire_parser"), [rt.rdclass, rt.rdtype, p3, None], {})
                    except PyExc as e:
                        path.prove(z3.BoolVal(False), f"{tag}.value.decode-raises[{e.cls.__name__}]", kind="roundtrip")
                        raise PathEnd()
                    path.prove(to_z3(p3.fields["current"]) == to_z3(p3.fields["end"]), f"{tag}.value.decode-consumes-exactly", kind="roundtrip")
                    for fname in sorted(y.fields):
                        if fname == "rdcomment" or fname not in y2.fields:
                            continue
                        path.prove(I.as_bool_expr(equals(I, y.fields[fname], y2.fields[fname])), f"{tag}.value.field-equal[{fname}]", kind="roundtrip")
                else:
                    res["note"] = (res.get("note") or "") + " | value direction not attempted (structured field)"
            else:
                res["note"] = (res.get("note") or "") + " | value direction not attempted (constructor parameters differ from field names)"
            if path.final_cover():
                res["covers"] += 1
                o["have_cover"] = True
        except Infeasible:
            pass
        except PathEnd:
            pass
        except Unsupported as u:
            res["unsupported"] = str(u)
            res["obligations"].extend(ob.to_json() for ob in path.obligations)
            break
        work.extend(path.forks)
        res["paths"] += 1
        res["solver_time_s"] += path.solver_time
        res["obligations"].extend(ob.to_json() for ob in path.obligations)
        res["inlined"] = sorted(set(res["inlined"]) | I.inlined)
        res["assumed_contracts"] = sorted(set(res["assumed_contracts"]) | I.assumed_calls)
    obs = res["obligations"]
    if res["unsupported"]:
        res["status"] = "unsupported"
    elif not obs:
        res["status"] = "vacuous"
    elif any(ob["status"] == "sat" for ob in obs):
        res["status"] = "failed"
    elif any(ob["status"] != "unsat" for ob in obs):
        res["status"] = "undecided"
    elif res["covers"] == 0:
        res["status"] = "vacuous"
    else:
        res["status"] = "proved"
    res["wall_s"] = round(time.time() - t0, 3)
    res["solver_time_s"] = round(res["solver_time_s"], 3)
    return res
