"""Symbolic values and type descriptors for pyvc.

Encoding choices (DESIGN.md 1.3): int -> Int; bool -> Bool; bytes/bytearray/str -> Seq Int;
tuple/list with symbolic length -> (Array Int X, length); objects -> Python-side records of
fields (one record per allocation; aliasing between symbolic inputs is handled by explicit
alias cases in the contract).
"""

from __future__ import annotations

import z3

IntS = z3.IntSort()
BoolS = z3.BoolSort()
RealS = z3.RealSort()
SeqI = z3.SeqSort(IntS)


class Unsupported(Exception):
    """The construct is outside the verified subset: the function leaves the proved tier.
    Never a pass, never a violation."""


# --------------------------------------------------------------------------- values
class Sym:
    __slots__ = ()


class SInt(Sym):
    __slots__ = ("e", "bits")

    def __init__(self, e, bits=None):
        self.e = e
        self.bits = bits  # optional mask of bits that may be set (value known >= 0)

    def __repr__(self):
        return f"SInt({self.e})"


class SReal(Sym):
    __slots__ = ("e",)

    def __init__(self, e):
        self.e = e

    def __repr__(self):
        return f"SReal({self.e})"


class SBool(Sym):
    __slots__ = ("e",)

    def __init__(self, e):
        self.e = e

    def __repr__(self):
        return f"SBool({self.e})"


class SBytes(Sym):
    """bytes / bytearray / str with symbolic content.  bytearray is a mutable box."""

    __slots__ = ("e", "kind")

    def __init__(self, e, kind="bytes"):
        self.e = e
        self.kind = kind

    def __repr__(self):
        return f"S{self.kind}({self.e})"


class SSeq(Sym):
    """tuple / list with symbolic length: (Array Int -> sort(ety), n).  list is a mutable box."""

    __slots__ = ("arr", "n", "ety", "kind", "off", "mem", "lpos")

    def __init__(self, arr, n, ety, kind="tuple", off=0, mem=None, lpos=None):
        self.arr = arr
        self.n = n
        self.ety = ety
        self.kind = kind
        self.off = off  # element i is arr[off + i]
        self.mem = mem  # ghost (lists of ints only): Array Int Bool, membership
        self.lpos = lpos  # ghost: Array Int Int, a position of a member

    def at(self, i):
        """z3 element term at (in-range) index i"""
        i = i if not isinstance(i, int) else z3.IntVal(i)
        o = self.off if not isinstance(self.off, int) else z3.IntVal(self.off)
        return z3.Select(self.arr, simp(o + i))

    def __repr__(self):
        return f"SSeq[{self.kind}]({self.arr}, {self.n})"


class SMap(Sym):
    """dict with symbolic content: has: Array K Bool, val: Array K V (mutable box).
    Insertion order is not modelled by this class."""

    __slots__ = ("has", "val", "kty", "vty", "size", "keys", "kpos", "heap", "lim")

    def __init__(self, has, val, kty, vty, size=None, keys=None, kpos=None, heap=None, lim=None):
        self.lim = lim  # for a snapshot: the allocation limit when it was taken (its references are older objects)
        self.heap = heap  # None: live dict; a frozen heap: the dict as part of a pre-state snapshot (its references read that heap)
        self.has = has
        self.val = val
        self.kty = kty
        self.vty = vty
        self.size = size
        self.keys = keys  # ghost: SSeq of the keys in iteration order (or None when not tracked)
        self.kpos = kpos  # ghost: Array K Int, position of a present key in keys


class SBytesIO(Sym):
    """io.BytesIO: ghost content (Seq Int) + position.  Modelled for 0 <= pos <= len(buf)."""

    __slots__ = ("buf", "pos")

    def __init__(self, buf, pos):
        self.buf = buf
        self.pos = pos


class SItems(Sym):
    """dict.items() view taken from a map that carries its ghost key sequence"""

    __slots__ = ("keys", "val", "vty", "kty")

    def __init__(self, keys, val, kty, vty):
        self.keys, self.val, self.kty, self.vty = keys, val, kty, vty


class SObj(Sym):
    _next = [0]

    def __init__(self, cls, fields=None, label=None):
        self.cls = cls
        self.fields = fields if fields is not None else {}
        SObj._next[0] += 1
        self.oid = SObj._next[0]
        self.label = label
        self.frozen = False

    def __repr__(self):
        return f"<SObj {getattr(self.cls, '__name__', self.cls)}#{self.oid} {self.label or ''}>"


class SRef(Sym):
    """Reference to an object of a *heap class*: objects are integers (>= 1; 0 is None) and each
    field of the class is one array Int -> value in the path's heap, so aliasing between
    references is symbolic.  `heap` is None for the current heap or a frozen snapshot."""

    __slots__ = ("cls", "id", "heap")

    def __init__(self, cls, id, heap=None):
        self.cls, self.id, self.heap = cls, id, heap

    def __repr__(self):
        return f"<SRef {getattr(self.cls, '__name__', self.cls)} {self.id}>"


class ExcVal:
    """An exception instance."""

    def __init__(self, cls, args=()):
        self.cls = cls
        self.args = tuple(args)
        self.fields = {}

    def __repr__(self):
        return f"<exc {self.cls.__name__}>"


class SRange:
    """range(start, stop, step) with possibly symbolic start/stop and concrete non-zero step."""

    def __init__(self, start, stop, step):
        self.start, self.stop, self.step = start, stop, step


# --------------------------------------------------------------------------- types
class Ty:
    def __init__(self, kind, **kw):
        self.kind = kind
        self.__dict__.update(kw)

    def __repr__(self):
        extra = {k: v for k, v in self.__dict__.items() if k != "kind"}
        return f"Ty({self.kind}{', ' + repr(extra) if extra else ''})"


class T:
    """Type constructors used by contracts for symbolic inputs, results and havoc."""

    int = Ty("int", lo=None, hi=None)
    nat = Ty("int", lo=0, hi=None)
    bool = Ty("bool")
    bytes = Ty("bytes")
    str = Ty("str")
    bytearray = Ty("bytearray")
    real = Ty("real")
    none = Ty("const", value=None)
    opaque = Ty("opaque")  # element of a list whose content is never inspected (a log): one abstract integer per element

    @staticmethod
    def range(lo, hi):
        return Ty("int", lo=lo, hi=hi)

    u8 = Ty("int", lo=0, hi=255)
    u16 = Ty("int", lo=0, hi=65535)
    u32 = Ty("int", lo=0, hi=2**32 - 1)

    @staticmethod
    def tuple_of(ety):
        return Ty("seq", ety=ety, seqkind="tuple")

    @staticmethod
    def list_of(ety):
        return Ty("seq", ety=ety, seqkind="list")

    @staticmethod
    def fixed(*tys):
        """a tuple of fixed arity"""
        return Ty("fixed", items=tys)

    @staticmethod
    def obj(clsname, inv=None, raw=False, **fields):
        return Ty("obj", cls=clsname, fields=fields, inv=inv, raw=raw)

    @staticmethod
    def opt(t):
        return Ty("opt", inner=t)

    @staticmethod
    def const(v):
        return Ty("const", value=v)

    @staticmethod
    def oneof(*values):
        return Ty("oneof", values=values)

    @staticmethod
    def map_of(kty, vty, ordered=False, sized=False):
        """ordered: ghost iteration order (keys/kpos, implies a size); sized: only len() is modelled"""
        return Ty("map", kty=kty, vty=vty, ordered=ordered, sized=sized)

    bytesio = Ty("bytesio")

    @staticmethod
    def ref(clsname, nullable=False):
        """reference to an object of a heap class (see Registry.declare_heap_class)"""
        return Ty("ref", cls=clsname, nullable=nullable)

    @staticmethod
    def id_seq():
        """ghost sequence of object ids whose elements serve as instantiation terms"""
        return Ty("seq", ety=Ty("int", lo=None, hi=None), seqkind="tuple", index_terms=True)

    @staticmethod
    def indexed_list_of_int():
        """list of ints that also carries ghost membership / position arrays (for 'x in list')"""
        return Ty("seq", ety=Ty("int", lo=None, hi=None), seqkind="list", indexed=True)


def sort_of(ty: Ty):
    if ty.kind in ("int",):
        return IntS
    if ty.kind == "bool":
        return BoolS
    if ty.kind == "real":
        return RealS
    if ty.kind in ("bytes", "str", "bytearray"):
        return SeqI
    if ty.kind in ("ref", "opaque"):
        return IntS
    if ty.kind == "const":
        return BoolS  # placeholder sort for maps whose values are all one constant (e.g. None)
    raise Unsupported(f"no SMT sort for element type {ty}")


def seq_lit(bs) -> z3.SeqRef:
    """z3 Seq Int literal for concrete bytes / str."""
    if isinstance(bs, str):
        vals = [ord(c) for c in bs]
    else:
        vals = list(bs)
    if not vals:
        return z3.Empty(SeqI)
    if len(vals) == 1:
        return z3.Unit(z3.IntVal(vals[0]))
    return z3.Concat(*[z3.Unit(z3.IntVal(v)) for v in vals])


def is_sym(v) -> bool:
    return isinstance(v, Sym)


def to_z3(v):
    """Lift a value to a z3 expression (ints, bools, reals, bytes/str)."""
    if isinstance(v, (SInt, SBool, SBytes, SReal)):
        return v.e
    if isinstance(v, SRef):
        return v.id
    if isinstance(v, z3.ExprRef):
        return v
    if isinstance(v, bool):
        return z3.BoolVal(v)
    if isinstance(v, int):
        return z3.IntVal(int(v))
    if isinstance(v, float):
        return z3.RealVal(repr(v))
    if isinstance(v, (bytes, bytearray, str)):
        return seq_lit(v)
    raise Unsupported(f"cannot lift {type(v).__name__} to SMT")


def wrap(ty: Ty, e):
    if ty.kind == "int":
        return SInt(e)
    if ty.kind == "bool":
        return SBool(e)
    if ty.kind == "real":
        return SReal(e)
    if ty.kind in ("bytes", "str", "bytearray"):
        return SBytes(e, ty.kind)
    if ty.kind == "opaque":
        return SInt(e)
    if ty.kind == "ref" and RESOLVE_CLS is not None:
        return SRef(RESOLVE_CLS(ty.cls), e)
    raise Unsupported(f"cannot wrap sort for {ty}")


RESOLVE_CLS = None  # set by the registry: qualified class name -> live class


_SIMP_CACHE = {}


def simp(e):
    """Constant folding only: the simplified term is used when it is a literal; otherwise the
    original term is kept, so that exported VCs contain no z3-internal symbols (seq.nth_i/u)
    and can be read by cvc5.  Memoised on the (hash-consed) term."""
    try:
        k = e.get_id()
    except Exception:
        return e
    hit = _SIMP_CACHE.get(k)
    if hit is not None:
        return hit[1]
    if e.num_args() == 0:
        r = e
    else:
        try:
            r = z3.simplify(e)
        except Exception:
            r = e
        if not (z3.is_int_value(r) or z3.is_true(r) or z3.is_false(r) or z3.is_rational_value(r) or (z3.is_int(e) and r.num_args() == 0)):
            r = e
    if len(_SIMP_CACHE) > 400000:
        _SIMP_CACHE.clear()
    _SIMP_CACHE[k] = (e, r)
    return r


def concrete_of(e):
    """If the z3 expression is a literal, return the Python value, else None."""
    e = simp(e)
    if z3.is_int_value(e):
        return e.as_long()
    if z3.is_true(e):
        return True
    if z3.is_false(e):
        return False
    return None
