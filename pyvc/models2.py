"""Second half of the builtin models: attributes, calls, builtins, specification forms."""

from __future__ import annotations

import ast
import builtins
import enum
import functools
import struct
import types

import z3

from . import sym as S
from .sym import (ExcVal, SBool, SBytes, SBytesIO, SInt, SItems, SMap, SObj, SRange, SReal, SRef, SSeq, Sym, T, Ty, Unsupported, concrete_of,
                  seq_lit, simp, to_z3, wrap)


def _m():
    from . import models

    return models


def _itp():
    from . import interp

    return interp


# ----------------------------------------------------------------------------- attributes


def real_init(cls, name="__init__"):
    """The __init__ (or __setstate__) CPython would end up running for cls, looking through
    the dns._immutable_ctx wrappers (which only set/reset the 'in __init__' context)."""
    for k in cls.__mro__:
        f = k.__dict__.get(name)
        if f is None:
            continue
        while getattr(f, "__qualname__", "") == "_immutable_init.<locals>.nf":
            f = f.__closure__[0].cell_contents
        if getattr(f, "__qualname__", "").startswith("immutable.<locals>.ncls."):
            continue
        return f
    return None


def is_immutable_class(cls):
    return any(k.__name__ == "_Immutable" and k.__module__ == "dns._immutable_ctx" for k in cls.__mro__)


def get_attr(I, v, name):
    itp = _itp()
    if isinstance(v, itp.SuperProxy):
        for k in v.rest:
            if name in k.__dict__:
                d = k.__dict__[name]
                f = d.__func__ if isinstance(d, (classmethod, staticmethod)) else d
                while getattr(f, "__qualname__", "") == "_immutable_init.<locals>.nf":
                    f = f.__closure__[0].cell_contents
                if getattr(f, "__qualname__", "").startswith("immutable.<locals>.ncls."):
                    continue
                if f is object.__init__:
                    return itp.Closure(ast.parse("lambda *a, **k: None", mode="eval").body, itp.Frame(None, {}, {}, None))
                if isinstance(d, classmethod):
                    return itp.BoundMethod(v.obj.cls if isinstance(v.obj, SObj) else v.obj, f, name)
                if isinstance(f, types.FunctionType):
                    return itp.BoundMethod(v.obj, f, name)
                return d
        I.raise_py(AttributeError, name)
    if isinstance(v, SRef):
        M = _m()
        r = M.heap_get(I, v, name)
        clsname, decl = I.reg.heap_decl(v.cls)
        if decl is not None and name in decl:
            return r
        if name == "__class__":
            return v.cls
        d = I.class_lookup(v.cls, name)
        if isinstance(d, types.FunctionType):
            return itp.BoundMethod(v, d, name)
        if isinstance(d, property):
            return I.call(itp.BoundMethod(v, itp.unwrap_function(d.fget), name), [], {})
        if d is None:
            raise Unsupported(f"attribute {name} of heap class {v.cls.__name__} is not declared")
        return d
    if isinstance(v, SObj):
        if name in v.fields:
            return v.fields[name]
        if name == "__class__":
            return v.cls
        d = I.class_lookup(v.cls, name)
        if d is None:
            if not I.spec:
                I.raise_py(AttributeError, name)
            raise Unsupported(f"specification reads unset attribute {name}")
        if isinstance(d, property):
            return I.call(itp.BoundMethod(v, itp.unwrap_function(d.fget), name), [], {})
        if isinstance(d, staticmethod):
            return d.__func__
        if isinstance(d, classmethod):
            return itp.BoundMethod(v.cls, d.__func__, name)
        if isinstance(d, types.FunctionType):
            return itp.BoundMethod(v, d, name)
        if isinstance(d, (types.MethodDescriptorType, types.WrapperDescriptorType, types.BuiltinFunctionType)) and name not in ("__class__",):
            return itp.BoundMethod(v, d, name)  # method of an external (C-implemented) class: needs an external model
        if isinstance(d, types.MemberDescriptorType):  # __slots__ entry never assigned
            if not I.spec:
                I.raise_py(AttributeError, name)
            raise Unsupported(f"specification reads unset slot {name}")
        return d
    if isinstance(v, ExcVal):
        if name == "args":
            return v.args
        if name in v.fields:
            return v.fields[name]
        if name == "__class__":
            return v.cls
        d = getattr(v.cls, name, None)
        if isinstance(d, types.FunctionType):
            return itp.BoundMethod(v, d, name)
        if d is not None:
            return d
        I.raise_py(AttributeError, name)
    if isinstance(v, (SBytes, SSeq, SInt, SBool, SMap, SReal, SBytesIO, SItems)):
        return itp.SymMethod(v, name)
    if isinstance(v, (list, dict, bytearray)) or (isinstance(v, (tuple,)) and itp.has_sym(v)):
        return itp.SymMethod(v, name)
    if isinstance(v, (bytes, str, int)) and not isinstance(v, enum.Enum):
        return itp.SymMethod(v, name)
    try:
        return getattr(v, name)
    except AttributeError:
        I.raise_py(AttributeError, name)


def set_attr(I, obj, name, v):
    if isinstance(obj, SRef):
        return _m().heap_set(I, obj, name, v)
    if isinstance(obj, SObj):
        if getattr(obj, "frozen", False) or (is_immutable_class(obj.cls) and not getattr(obj, "in_init", False)):
            f = I.class_lookup(obj.cls, "__setattr__")
            I.raise_py(TypeError, "object doesn't support attribute assignment")
        f = I.class_lookup(obj.cls, "__setattr__")
        if f is not None and isinstance(f, types.FunctionType) and f.__module__.startswith("dns.") and f.__qualname__ != "_Immutable.__setattr__":
            itp = _itp()
            return I.call(itp.BoundMethod(obj, f, "__setattr__"), [name, v], {})
        slots = _all_slots(obj.cls)
        if slots is not None and name not in slots:
            I.raise_py(AttributeError, name)
        obj.fields[name] = v
        return
    if isinstance(obj, ExcVal):
        obj.fields[name] = v
        return
    raise Unsupported(f"attribute store on {type(obj).__name__}")


def _all_slots(cls):
    """names allowed by __slots__, or None if instances have a __dict__"""
    names = set()
    for k in cls.__mro__:
        if k is object:
            continue
        if "__slots__" not in k.__dict__:
            return None
        sl = k.__dict__["__slots__"]
        if isinstance(sl, str):
            sl = [sl]
        names.update(sl)
    return names


def del_attr(I, obj, name):
    if isinstance(obj, SObj):
        if is_immutable_class(obj.cls) and not getattr(obj, "in_init", False):
            I.raise_py(TypeError, "object doesn't support attribute assignment")
        if name not in obj.fields:
            I.raise_py(AttributeError, name)
        del obj.fields[name]
        return
    raise Unsupported("attribute delete")


# ----------------------------------------------------------------------------- call dispatch

PURE_NATIVE_MODULE_PREFIXES = ("dns.",)


def call(I, fv, args, kwargs, lineno=None):
    itp = _itp()
    M = _m()
    if isinstance(fv, itp.Closure):
        return I.run_closure(fv, args, kwargs)
    if isinstance(fv, itp.SymMethod):
        return sym_method(I, fv.recv, fv.name, args, kwargs)
    if isinstance(fv, itp.BoundMethod):
        if isinstance(fv.func, types.FunctionType):
            return call_function(I, fv.func, [fv.recv] + list(args), kwargs)
        return call(I, fv.func, [fv.recv] + list(args), kwargs)
    if isinstance(fv, functools.partial):
        return call(I, fv.func, list(fv.args) + list(args), {**fv.keywords, **kwargs})
    if isinstance(fv, type):
        return call_class(I, fv, args, kwargs)
    if isinstance(fv, types.FunctionType):
        return call_function(I, fv, args, kwargs)
    if isinstance(fv, types.MethodType):
        return call_function(I, fv.__func__, [fv.__self__] + list(args), kwargs) if isinstance(fv.__func__, types.FunctionType) else native_or_model(I, fv, args, kwargs)
    return native_or_model(I, fv, args, kwargs)


def native_or_model(I, fv, args, kwargs):
    itp = _itp()
    model = BUILTIN_MODELS.get(_callable_key(fv))
    if model is not None:
        return model(I, args, kwargs)
    if not itp.has_sym(args) and not itp.has_sym(kwargs):
        # a builtin bound method of a concrete value, e.g. b"x".lower / [].append
        try:
            return fv(*args, **kwargs)
        except Unsupported:
            raise
        except Exception as e:
            raise itp.PyExc(ExcVal(type(e), e.args))
    if isinstance(fv, types.BuiltinMethodType) and getattr(fv, "__self__", None) is not None and not isinstance(fv.__self__, types.ModuleType):
        return sym_method(I, fv.__self__, fv.__name__, args, kwargs)
    raise Unsupported(f"call of {getattr(fv, '__qualname__', fv)!r} with symbolic arguments has no model")


def _callable_key(fv):
    try:
        hash(fv)
        return fv
    except TypeError:
        return id(fv)


def call_function(I, fn, args, kwargs):
    itp = _itp()
    key = f"{fn.__module__}.{fn.__qualname__}"
    model = BUILTIN_MODELS.get(fn)
    if model is not None:
        return model(I, args, kwargs)
    top = I.contract
    if top is not None and key in top.site_requires and I.depth == 1 and I.cur_frame is not None:
        I.prove_clauses(top.site_requires[key], I.cur_frame, f"{top.name}.at-call[{fn.__qualname__}]")
    c = I.reg.get_for_call(I, key, fn, args, kwargs)
    if c is not None and top is not None and key in getattr(top, "inline_calls", ()):
        c = None
    if c is not None:
        I.assumed_calls.add(c.name)
        return I.reg.apply_contract(I, c, fn, args, kwargs)
    mod = fn.__module__ or ""
    if mod.startswith("dns.") or key in I.reg.inline:
        if not itp.has_sym(args) and not itp.has_sym(kwargs) and key in I.reg.native_ok:
            try:
                return fn(*args, **kwargs)
            except Exception as e:
                raise itp.PyExc(ExcVal(type(e), e.args))
        I.inlined.add(key)
        info = itp.FnInfo.of(fn)
        if info.is_generator:
            raise Unsupported(f"call of generator function {key} outside a with statement")
        return I.run_function(fn, args, kwargs)
    if not itp.has_sym(args) and not itp.has_sym(kwargs):
        try:
            return fn(*args, **kwargs)
        except Exception as e:
            raise itp.PyExc(ExcVal(type(e), e.args))
    raise Unsupported(f"call to {key}: outside dnspython, no model")


def call_class(I, cls, args, kwargs):
    itp = _itp()
    model = BUILTIN_MODELS.get(cls)
    if model is not None:
        return model(I, args, kwargs)
    if issubclass(cls, BaseException):
        init = cls.__dict__.get("__init__")
        ev = ExcVal(cls, args)
        ev.fields.update(kwargs)
        return ev
    if issubclass(cls, enum.Enum):
        if itp.has_sym(args):
            import dns.enum

            if issubclass(cls, enum.IntFlag) and len(args) == 1 and isinstance(args[0], SInt) and not kwargs:
                # IntFlag keeps unknown bits (boundary KEEP): the result is the integer itself for a
                # non-negative value (A-lib: enum is value preserving)
                if not I.path.branch(args[0].e >= 0, note="intflag-nonneg"):
                    I.raise_py(ValueError, "invalid flag value")
                return args[0]
            if issubclass(cls, dns.enum.IntEnum) and len(args) == 1 and isinstance(args[0], SInt) and not kwargs:
                # dns.enum.IntEnum accepts every int its _check_value accepts (known member or
                # _missing_ pseudo-member) and the result is that int (A-lib: enum is value preserving)
                call(I, getattr(cls, "_check_value"), [args[0]], {})
                return args[0]
            raise Unsupported(f"enum constructor {cls.__name__} on a symbolic value (use a contract for make())")
        try:
            return cls(*args, **kwargs)
        except Exception as e:
            raise itp.PyExc(ExcVal(type(e), e.args))
    mod = getattr(cls, "__module__", "")
    if I.reg.heap_decl(cls)[1] is not None:
        M = _m()
        ref = M.heap_new(I, cls)
        init = real_init(cls)
        key = f"{cls.__module__}.{cls.__qualname__}.__init__"
        c = I.reg.get(key)
        if c is not None and not c.verify_only:
            I.assumed_calls.add(key)
            I.reg.apply_contract(I, c, init, [ref] + list(args), kwargs)
            return ref
        if init is not None and init is not object.__init__:
            I.inlined.add(f"{cls.__module__}.{cls.__qualname__}.__init__")
            I.run_function(init, [ref] + list(args), kwargs)
        return ref
    if mod.startswith("dns."):
        key = f"{cls.__module__}.{cls.__qualname__}.__init__"
        obj = SObj(cls, {}, label=cls.__name__)
        c = I.reg.get(key)
        if c is not None and key in getattr(I.contract, "inline_calls", ()):
            c = None
        init = real_init(cls)
        if c is not None and not c.verify_only:
            I.assumed_calls.add(key)
            obj.in_init = True
            try:
                I.reg.apply_contract(I, c, init, [obj] + list(args), kwargs)
            finally:
                obj.in_init = False
            return obj
        if init is None or init is object.__init__:
            return obj
        if not isinstance(init, types.FunctionType):
            raise Unsupported(f"constructor of {cls.__qualname__} is not a Python function")
        I.inlined.add(key)
        obj.in_init = True
        try:
            I.run_function(init, [obj] + list(args), kwargs)
        finally:
            obj.in_init = False
        return obj
    if not itp.has_sym(args) and not itp.has_sym(kwargs):
        try:
            return cls(*args, **kwargs)
        except Exception as e:
            raise itp.PyExc(ExcVal(type(e), e.args))
    raise Unsupported(f"constructor {cls!r} with symbolic arguments has no model")


# ----------------------------------------------------------------------------- methods of symbolic receivers


def sym_method(I, recv, name, args, kwargs):
    itp = _itp()
    M = _m()
    if not itp.has_sym(recv) and not itp.has_sym(args) and not isinstance(recv, (list, dict, bytearray)):
        try:
            return getattr(recv, name)(*args, **kwargs)
        except Exception as e:
            raise itp.PyExc(ExcVal(type(e), e.args))
    # ---- list (concrete shape)
    if isinstance(recv, list):
        if name == "append":
            recv.append(args[0])
            return None
        if name == "extend":
            recv.extend(M.concrete_items(I, args[0]))
            return None
        if name == "pop":
            try:
                return recv.pop(*args)
            except IndexError:
                I.raise_py(IndexError, "pop from empty list")
        if name == "insert" and isinstance(args[0], int):
            recv.insert(args[0], args[1])
            return None
        if name == "clear":
            recv.clear()
            return None
        if name == "copy":
            return list(recv)
        if name == "reverse":
            recv.reverse()
            return None
        if name == "index" and not itp.has_sym(recv) and not itp.has_sym(args):
            try:
                return recv.index(*args)
            except ValueError:
                I.raise_py(ValueError, "not in list")
        raise Unsupported(f"list.{name}")
    if isinstance(recv, dict):
        if name == "get":
            k = args[0]
            default = args[1] if len(args) > 1 else kwargs.get("default")
            if itp.has_sym(k):
                for kk, val in recv.items():
                    if I.branch(M.equals(I, k, kk), note="dict.get"):
                        return val
                return default
            return recv.get(k, default)
        if name in ("items", "keys", "values", "copy"):
            return getattr(recv, name)()
        if name == "pop" and not itp.has_sym(args[:1]):
            try:
                return recv.pop(*args)
            except KeyError:
                I.raise_py(KeyError, args[0])
        if name == "update" and len(args) == 1 and isinstance(args[0], dict):
            recv.update(args[0])
            return None
        if name == "setdefault" and not itp.has_sym(args[:1]):
            return recv.setdefault(*args)
        if name == "clear":
            recv.clear()
            return None
        raise Unsupported(f"dict.{name}")
    if isinstance(recv, SBytesIO):
        return bytesio_method(I, recv, name, args, kwargs)
    if isinstance(recv, SMap) and name in ("items", "keys", "values") and not args:
        if recv.keys is None:
            M.attach_key_order(I, recv, "d")
        if name == "items":
            return SItems(SSeq(recv.keys.arr, recv.keys.n, recv.kty, "list"), recv.val, recv.kty, recv.vty)
        if name == "keys":
            return SSeq(recv.keys.arr, recv.keys.n, recv.kty, "list")
        raise Unsupported("dict.values() on a symbolic map")
    if isinstance(recv, SMap):
        if name == "get":
            kz = M.key_of(I, args[0])
            default = args[1] if len(args) > 1 else None
            if I.spec:
                if default is None:
                    raise Unsupported("dict.get with None default inside a specification")
                return M.ite(I, z3.Select(recv.has, kz), M.map_value(I, recv, kz), default)
            if I.path.branch(z3.Select(recv.has, kz), note="dict.get"):
                return M.map_value(I, recv, kz)
            return default
        if name == "pop":
            kz = M.key_of(I, args[0])
            M.drop_key_order(recv)
            if I.path.branch(z3.Select(recv.has, kz), note="dict.pop"):
                val = recv.vty.value if recv.vty.kind == "const" else M.map_value(I, recv, kz)
                recv.has = z3.Store(recv.has, kz, z3.BoolVal(False))
                if recv.size is not None:
                    recv.size = simp(recv.size - 1)
                return val
            if len(args) > 1:
                return args[1]
            I.raise_py(KeyError, args[0])
        if name == "clear":
            recv.has = z3.K(S.sort_of(recv.kty), z3.BoolVal(False))
            recv.size = z3.IntVal(0)
            M.drop_key_order(recv)
            return None
        raise Unsupported(f"dict.{name} on a symbolic map")
    # ---- symbolic list / tuple
    if isinstance(recv, SSeq):
        if recv.kind == "list":
            if name == "append":
                M.list_append(I, recv, args[0])
                return None
            if name == "extend":
                M.list_extend(I, recv, args[0])
                return None
            if name == "pop" and not args:
                n = to_z3(recv.n)
                if not I.path.branch(n > 0, note="pop-nonempty"):
                    I.raise_py(IndexError, "pop from empty list")
                x = wrap(recv.ety, recv.at(simp(n - 1)))
                recv.n = simp(n - 1)
                return x
            if name == "popleft" and not args:
                name, args = "pop", [0]  # a deque modelled as a list
            if name == "pop" and len(args) == 1 and concrete_of(to_z3(args[0])) == 0 and recv.mem is None:
                n = to_z3(recv.n)
                if not I.path.branch(n > 0, note="pop0-nonempty"):
                    I.raise_py(IndexError, "pop from empty list")
                x = wrap(recv.ety, recv.at(0))
                recv.off = simp(to_z3(recv.off) + 1)
                recv.n = simp(n - 1)
                return x
            if name == "remove" and len(args) == 1 and recv.mem is None:
                # first occurrence: position i (fresh); elements before i differ from x; the rest shifts down
                n, off = to_z3(recv.n), to_z3(recv.off)
                xz = to_z3(args[0])
                arr = recv.arr
                found = I.path.fresh_bool("remove_found")
                if not I.path.branch(found, note="list.remove-found"):
                    I.path.qhyps.append(lambda t, arr=arr, n=n, off=off, xz=xz: z3.Implies(z3.And(t >= 0, t < n), z3.Select(arr, off + t) != xz))
                    I.raise_py(ValueError, "list.remove(x): x not in list")
                i = I.path.fresh_int("remove_at")
                I.path.add_pool(i)
                I.path.assume(z3.And(i >= 0, i < n, z3.Select(arr, off + i) == xz))
                I.path.qhyps.append(lambda t, arr=arr, i=i, off=off, xz=xz: z3.Implies(z3.And(t >= 0, t < i), z3.Select(arr, off + t) != xz))
                new = z3.Const(I.path.fresh_name("removed"), arr.sort())
                I.path.qhyps.append(lambda t, arr=arr, new=new, i=i, n=n, off=off: z3.And(
                    z3.Implies(z3.And(t >= 0, t < i), z3.Select(new, t) == z3.Select(arr, off + t)),
                    z3.Implies(z3.And(t >= i, t < n - 1), z3.Select(new, t) == z3.Select(arr, off + t + 1))))
                recv.arr, recv.off, recv.n = new, 0, simp(n - 1)
                return None
            if name in ("insert", "pop") and args and recv.mem is None and not (name == "pop" and len(args) != 1):
                # insert(i, x) / pop(i) at a symbolic position 0 <= i <= n (resp. < n): a new array defined pointwise
                n, off = to_z3(recv.n), to_z3(recv.off)
                i = to_z3(args[0])
                arr = recv.arr
                hi = n if name == "insert" else n - 1
                if not I.path.branch(z3.And(i >= 0, i <= hi), note=f"list.{name}-index-in-range"):
                    if name == "pop":
                        I.raise_py(IndexError, "pop index out of range")
                    raise Unsupported("list.insert with an index outside 0..len (clamping / negative indices are not modelled)")
                new = z3.Const(I.path.fresh_name("list_" + name), arr.sort())
                if name == "insert":
                    xz = to_z3(args[1]) if recv.ety.kind != "opaque" else I.path.fresh_int("logged")
                    I.path.assume(z3.Select(new, i) == xz)
                    I.path.qhyps.append(lambda t, arr=arr, new=new, i=i, n=n, off=off: z3.And(
                        z3.Implies(z3.And(t >= 0, t < i), z3.Select(new, t) == z3.Select(arr, off + t)),
                        z3.Implies(z3.And(t > i, t <= n), z3.Select(new, t) == z3.Select(arr, off + t - 1))))
                    recv.arr, recv.off, recv.n = new, 0, simp(n + 1)
                    return None
                x = wrap(recv.ety, z3.Select(arr, simp(off + i)))
                I.path.qhyps.append(lambda t, arr=arr, new=new, i=i, n=n, off=off: z3.And(
                    z3.Implies(z3.And(t >= 0, t < i), z3.Select(new, t) == z3.Select(arr, off + t)),
                    z3.Implies(z3.And(t >= i, t < n - 1), z3.Select(new, t) == z3.Select(arr, off + t + 1))))
                recv.arr, recv.off, recv.n = new, 0, simp(n - 1)
                return x
            if name == "copy":
                return SSeq(recv.arr, recv.n, recv.ety, "list", recv.off)
        raise Unsupported(f"{recv.kind}.{name} on a symbolic sequence")
    # ---- bytes-like
    if M.is_bytes_like(recv):
        k = M.kind_of(recv)
        e = M.as_seq(I, recv)
        if name == "lower" and k != "str":
            return SBytes(M.lower_of(I, e), "bytes" if k == "bytes" else k)
        if name == "isdigit":
            n = z3.Length(e)
            cn = I.path.infer_int(n)
            if cn == 1:
                return SBool(simp(z3.And(e[0] >= 48, e[0] <= 57)))
            if cn == 0:
                return False
            raise Unsupported("isdigit on a string of unknown length")
        if name == "isdecimal" and k == "str" and not args:
            # str.isdecimal(): every character is a Unicode decimal digit (category Nd) and the string is not empty.
            # Uninterpreted beyond ASCII: an ASCII character is decimal iff it is 0-9.
            pred = z3.Function("str_isdecimal", S.SeqI, S.BoolS)
            r = pred(e)
            I.path.assume(z3.Implies(z3.Length(e) == 0, z3.Not(r)))
            I.path.assume(z3.Implies(z3.Length(e) == 1, z3.And(
                z3.Implies(z3.And(e[0] >= 48, e[0] <= 57), r),
                z3.Implies(z3.And(e[0] < 128, z3.Or(e[0] < 48, e[0] > 57)), z3.Not(r)))))
            return SBool(r)
        if name == "lower" and k == "str" and not args:
            # str.lower(): uninterpreted (full Unicode case mapping); for one ASCII character it is ASCII lower-casing
            low = z3.Function("str_lower", S.SeqI, S.SeqI)
            r = low(e)
            I.path.assume(z3.Implies(z3.And(z3.Length(e) == 1, e[0] < 128), z3.And(
                z3.Length(r) == 1, r[0] == z3.If(z3.And(e[0] >= 65, e[0] <= 90), e[0] + 32, e[0]))))
            return SBytes(r, "str")
        if name in ("isalnum", "isalpha", "isascii", "isupper", "islower", "isspace") and not args:
            pred = z3.Function("bytes_" + name, S.SeqI, S.BoolS)
            return SBool(pred(e))  # a deterministic predicate of the content (A-lib); nothing else is assumed
        if name == "append" and k == "bytearray":
            xz = to_z3(args[0])
            if not I.path.branch(z3.And(xz >= 0, xz <= 255), note="byte-range"):
                I.raise_py(ValueError, "byte must be in range(0, 256)")
            recv.e = simp(z3.Concat(recv.e, z3.Unit(xz)))
            return None
        if name == "extend" and k == "bytearray":
            recv.e = simp(z3.Concat(recv.e, M.as_seq(I, args[0])))
            return None
        if name == "encode" and k == "str":
            enc = args[0] if args else kwargs.get("encoding", "utf-8")
            if enc in ("ascii",):
                # UnicodeEncodeError exit when a code point is > 127: proved absent or forked
                w = I.path.fresh_int("enc_w")
                bad = z3.And(w >= 0, w < z3.Length(e), e[w] > 127)
                if I.path.branch(bad, note="encode-nonascii"):
                    I.raise_py(UnicodeEncodeError, "ascii")
                I.path.qhyps.append(lambda t, e=e: z3.Implies(z3.And(t >= 0, t < z3.Length(e)), e[t] <= 127))
                return SBytes(e, "bytes")
            raise Unsupported(f"str.encode({enc!r}) of a symbolic string")
        if name == "startswith" and not itp.has_sym(args):
            pre = args[0]
            if isinstance(pre, tuple):
                return SBool(simp(z3.Or(*[z3.PrefixOf(seq_lit(p), e) for p in pre])))
            return SBool(simp(z3.PrefixOf(seq_lit(pre), e)))
        if name == "endswith" and not itp.has_sym(args):
            return SBool(simp(z3.SuffixOf(seq_lit(args[0]), e)))
        if name == "hex" or name == "decode" or name == "split" or name == "join":
            raise Unsupported(f"{k}.{name} on symbolic data")
        raise Unsupported(f"{k}.{name} on symbolic data")
    if isinstance(recv, SInt) and name == "key" and I.contract is not None and getattr(I.contract, "elements_are_keys", False):
        return recv  # abstraction declared by the contract: an element is represented by its key
    if isinstance(recv, (int, SInt)):
        if name == "to_bytes":
            length = args[0] if args else kwargs.get("length", 1)
            order = args[1] if len(args) > 1 else kwargs.get("byteorder", "big")
            return int_to_bytes(I, recv, length, order, kwargs.get("signed", False))
        if name == "bit_length":
            raise Unsupported("int.bit_length on a symbolic int")
    raise Unsupported(f"method {name} of {type(recv).__name__}")


def bytesio_method(I, f, name, args, kwargs):
    """io.BytesIO on the ghost (buf, pos), for 0 <= pos <= len(buf) (anything else: unsupported)."""
    M = _m()
    p = I.path
    n = z3.Length(f.buf)
    if name == "tell":
        return SInt(f.pos)
    if name == "getvalue":
        return SBytes(f.buf, "bytes")
    if name == "seek":
        where = to_z3(args[0])
        whence = args[1] if len(args) > 1 else 0
        if whence != 0:
            raise Unsupported("BytesIO.seek whence != 0")
        if not I.spec:
            if not p.branch(where >= 0, note="seek-nonneg"):
                I.raise_py(ValueError, "negative seek value")
            p.prove(where <= n, "bytesio.seek-within-buffer", kind="model-side-condition")
        f.pos = simp(where)
        return SInt(f.pos)
    if name == "truncate":
        size = to_z3(args[0]) if args and args[0] is not None else f.pos
        p.prove(z3.And(size >= 0, size <= n), "bytesio.truncate-within-buffer", kind="model-side-condition")
        f.buf = simp(z3.SubSeq(f.buf, 0, size))
        return SInt(size)
    if name == "write":
        data = M.as_seq(I, args[0])
        k = z3.Length(data)
        end = f.pos + k
        tail_start = z3.If(end < n, end, n)
        f.buf = simp(z3.Concat(z3.SubSeq(f.buf, 0, f.pos), data, z3.SubSeq(f.buf, tail_start, n - tail_start)))
        f.pos = simp(end)
        return SInt(k)
    if name == "read":
        raise Unsupported("BytesIO.read")
    raise Unsupported(f"BytesIO.{name}")


def int_to_bytes(I, v, length, order, signed=False):
    if not isinstance(length, int) or signed or order not in ("big", "little"):
        raise Unsupported("int.to_bytes with symbolic length / signed")
    x = to_z3(v)
    if not I.path.branch(z3.And(x >= 0, x < 256**length), note="to_bytes-range"):
        I.raise_py(OverflowError, "int too big to convert")
    return SBytes(be_bytes(x, length) if order == "big" else le_bytes(x, length), "bytes")


def _pow2(v):
    return v > 0 and (v & (v - 1)) == 0


def _shift_mask_form(x):
    """If x is syntactically ((y div A) mod M) / (y mod M) / (y div A) with A, M powers of two,
    return (y, A, M) (M None when there is no modulus); else (x, 1, None)."""
    y, A, M = x, 1, None
    if z3.is_app(y) and y.decl().kind() == z3.Z3_OP_MOD and z3.is_int_value(y.arg(1)) and _pow2(y.arg(1).as_long()):
        M = y.arg(1).as_long()
        y = y.arg(0)
    if z3.is_app(y) and y.decl().kind() == z3.Z3_OP_IDIV and z3.is_int_value(y.arg(1)) and _pow2(y.arg(1).as_long()):
        A = y.arg(1).as_long()
        y = y.arg(0)
    return y, A, M


def _byte_of(x, shift):
    """octet number `shift` (counted from the least significant) of x, normalised so that
    (t >> 32) & 0xFFFF and t itself yield syntactically equal octet terms:
    ((y div A) mod M) div 256**s mod 256  ==  (y div (A * 256**s)) mod 256   when 256**(s+1) <= M."""
    y, A, M = _shift_mask_form(x)
    if M is None or 256 ** (shift + 1) <= M:
        d = A * 256**shift
        return simp((y / d) % 256) if d > 1 else simp(y % 256)
    if M is not None and 256**shift >= M:
        return z3.IntVal(0)
    return simp((x / (256**shift)) % 256) if shift else simp(x % 256)


def be_bytes(x, n):
    units = [z3.Unit(_byte_of(x, n - 1 - k)) for k in range(n)]
    if not units:
        return z3.Empty(S.SeqI)
    return units[0] if n == 1 else z3.Concat(*units)


def le_bytes(x, n):
    units = [z3.Unit(simp((x / (256**k)) % 256)) for k in range(n)]
    if not units:
        return z3.Empty(S.SeqI)
    return units[0] if n == 1 else z3.Concat(*units)


def be_int(I, e, n, off=0):
    """big-endian value of n octets of e starting at off; adds the octet-range facts.  When the
    octets are syntactically the n octets of one integer y (as produced by be_bytes), the value is
    y mod 256**n (the radix-256 digit identity, valid for every integer y)."""
    octs = [z3.simplify(e[off + k]) for k in range(n)]
    src = None
    for k, b in enumerate(octs):
        y = None
        want = 256 ** (n - 1 - k)
        if z3.is_app(b) and b.decl().kind() == z3.Z3_OP_MOD and z3.is_int_value(b.arg(1)) and b.arg(1).as_long() == 256:
            inner = b.arg(0)
            if want == 1:
                y = inner
            elif z3.is_app(inner) and inner.decl().kind() == z3.Z3_OP_IDIV and z3.is_int_value(inner.arg(1)) and inner.arg(1).as_long() == want:
                y = inner.arg(0)
        if y is None or (src is not None and not src.eq(y)):
            src = None
            break
        src = y
    if src is not None and n > 0:
        return simp(src % (256**n))
    r = z3.IntVal(0)
    for k in range(n):
        b = e[off + k]
        I.path.assume(z3.And(b >= 0, b <= 255))
        r = r * 256 + b
    return simp(r)


# ----------------------------------------------------------------------------- builtin function models

STRUCT_CODES = {"B": (1, False), "H": (2, False), "I": (4, False), "L": (4, False), "Q": (8, False), "b": (1, True), "h": (2, True), "i": (4, True), "l": (4, True), "q": (8, True)}


def _parse_fmt(fmt):
    if isinstance(fmt, str) and fmt and fmt[0] not in "!>@=<" and all(ch in "Bbsc0123456789" for ch in fmt):
        fmt = "!" + fmt  # native order/alignment is irrelevant for single-octet fields
    if not isinstance(fmt, str) or not fmt or fmt[0] not in "!>":
        raise Unsupported(f"struct format {fmt!r} (only network/big-endian constant formats are modelled)")
    out = []
    num = ""
    for ch in fmt[1:]:
        if ch.isdigit():
            num += ch
            continue
        if ch == "s":
            out.append(("s", int(num or "1")))
        elif ch in STRUCT_CODES:
            for _ in range(int(num or "1")):
                out.append((ch, 1))
        else:
            raise Unsupported(f"struct code {ch!r}")
        num = ""
    return out


def m_struct_pack(I, args, kwargs):
    fmt, vals = args[0], list(args[1:])
    items = _parse_fmt(fmt)
    if len(items) != len(vals):
        I.raise_py(struct.error, "pack expected different number of items")
    parts = []
    M = _m()
    for (code, cnt), v in zip(items, vals):
        if code == "s":
            e = M.as_seq(I, v)
            I.path.prove(z3.Length(e) == cnt, "struct.pack-s-length", kind="model-side-condition")
            parts.append(e)
            continue
        size, signed = STRUCT_CODES[code]
        if not isinstance(v, (int, SInt, SBool)):
            I.raise_py(struct.error, "required argument is not an integer")
        x = M._intz(v)
        lo, hi = (-(256**size) // 2, 256**size // 2 - 1) if signed else (0, 256**size - 1)
        if not I.path.branch(z3.And(x >= lo, x <= hi), note=f"struct.pack-{code}-range"):
            I.raise_py(struct.error, f"'{code}' format requires {lo} <= number <= {hi}")
        if signed:
            x = z3.If(x < 0, x + 256**size, x)
        parts.append(be_bytes(x, size))
        if size > 1:
            # radix-256 digit identity for the value just range-checked: the octets read back
            # big-endian give the value (stated once here so that decoders need no nonlinear step)
            h = z3.IntVal(0)
            for k in range(size):
                h = h * 256 + _byte_of(x, size - 1 - k)
            I.path.assume(h == x)
    if not parts:
        return b""
    e = parts[0] if len(parts) == 1 else z3.Concat(*parts)
    return SBytes(simp(e), "bytes")


def m_struct_unpack(I, args, kwargs):
    fmt, data = args[0], args[1]
    items = _parse_fmt(fmt)
    M = _m()
    e = M.as_seq(I, data)
    total = sum(cnt if code == "s" else STRUCT_CODES[code][0] for code, cnt in items)
    if not I.path.branch(z3.Length(e) == total, note="struct.unpack-size"):
        I.raise_py(struct.error, f"unpack requires a buffer of {total} bytes")
    out = []
    off = 0
    for code, cnt in items:
        if code == "s":
            out.append(SBytes(simp(z3.SubSeq(e, off, cnt)), "bytes"))
            off += cnt
            continue
        size, signed = STRUCT_CODES[code]
        x = be_int(I, e, size, off)
        if signed:
            x = simp(z3.If(x >= 256**size // 2, x - 256**size, x))
        out.append(SInt(x, None if signed else 256**size - 1))
        off += size
    return tuple(out)


def m_struct_calcsize(I, args, kwargs):
    return struct.calcsize(args[0])


def m_len(I, args, kwargs):
    return _m().seq_len(I, args[0])


def m_int(I, args, kwargs):
    M = _m()
    if not args:
        return 0
    v = args[0]
    if isinstance(v, SInt):
        return v
    if isinstance(v, SBool):
        return SInt(simp(z3.If(v.e, 1, 0)))
    if isinstance(v, SReal):
        return SInt(simp(z3.ToInt(v.e)))  # floor; exact for non-negative values
    if M.is_bytes_like(v) and len(args) == 1:
        e = M.as_seq(I, v)
        n = I.path.infer_int(z3.Length(e))
        if M.kind_of(v) == "str":
            isdec = z3.Function("str_isdecimal", S.SeqI, S.BoolS)(e)
            if I.path.feasible(isdec) and not I.path.feasible(z3.Not(isdec)):
                # int() of a string known to be all decimal digits (Unicode Nd included): its value, an uninterpreted
                # non-negative function of the text; one ASCII digit has its obvious value; very long texts are refused
                val = z3.Function("str_decimal_value", S.SeqI, S.IntS)(e)
                I.path.assume(val >= 0)
                I.path.assume(z3.Implies(z3.Length(e) == 1, z3.And(val <= 9, z3.Implies(z3.And(e[0] >= 48, e[0] <= 57), val == e[0] - 48))))
                if n is None and I.path.branch(z3.Length(e) > 4300, note="int()-digit-limit"):
                    I.raise_py(ValueError, "Exceeds the limit for integer string conversion")
                return SInt(val)
        if n is None or n == 0 or n > 6:
            raise Unsupported("int() of text of unknown length")
        digs = [e[k] for k in range(n)]
        alld = z3.And(*[z3.And(d >= 48, d <= 57) for d in digs])
        if not I.path.branch(alld, note="int()-all-digits"):
            # sign / whitespace / underscore forms are not modelled: treat as ValueError exit only
            # when no character could start such a form
            odd = z3.Or(*[z3.Or(d == 43, d == 45, d == 95, d == 32, z3.And(d >= 9, d <= 13), d > 127) for d in digs])
            if I.path.branch(odd, note="int()-sign-or-space"):
                raise Unsupported("int() of text with sign/whitespace/underscore/non-ASCII digit")
            I.raise_py(ValueError, "invalid literal for int()")
        r = z3.IntVal(0)
        for d in digs:
            r = r * 10 + (d - 48)
        return SInt(simp(r))
    raise Unsupported(f"int() of {type(v).__name__}")


def m_bool(I, args, kwargs):
    if not args:
        return False
    t = I.truth(args[0])
    return t if isinstance(t, bool) else SBool(t)


def m_bytes(I, args, kwargs):
    M = _m()
    if not args:
        return b""
    v = args[0]
    if isinstance(v, SBytes):
        if v.kind == "str":
            raise Unsupported("bytes(str)")
        return SBytes(v.e, "bytes")
    if isinstance(v, (list, tuple)):
        parts = []
        for x in v:
            xz = to_z3(x)
            if not I.path.branch(z3.And(xz >= 0, xz <= 255), note="bytes()-range"):
                I.raise_py(ValueError, "bytes must be in range(0, 256)")
            parts.append(z3.Unit(xz))
        if not parts:
            return b""
        return SBytes(simp(parts[0] if len(parts) == 1 else z3.Concat(*parts)), "bytes")
    if isinstance(v, SInt):
        raise Unsupported("bytes(n) with symbolic n")
    raise Unsupported(f"bytes() of {type(v).__name__}")


def m_bytearray(I, args, kwargs):
    M = _m()
    if not args:
        return SBytes(z3.Empty(S.SeqI), "bytearray")
    v = args[0]
    if M.is_bytes_like(v) and M.kind_of(v) != "str":
        return SBytes(M.as_seq(I, v), "bytearray")
    raise Unsupported("bytearray() argument")


def m_tuple(I, args, kwargs):
    M = _m()
    if not args:
        return ()
    v = args[0]
    if isinstance(v, SSeq):
        return SSeq(v.arr, v.n, v.ety, "tuple", v.off)
    return tuple(M.concrete_items(I, v))


def m_list(I, args, kwargs):
    M = _m()
    if not args:
        return []
    v = args[0]
    if isinstance(v, SSeq):
        return SSeq(v.arr, v.n, v.ety, "list", v.off)
    if isinstance(v, SMap):
        if v.keys is None:
            M.attach_key_order(I, v, "d")
        return SSeq(v.keys.arr, v.keys.n, v.kty, "list")
    return list(M.concrete_items(I, v))


def m_minmax(which):
    def f(I, args, kwargs):
        M = _m()
        if kwargs:
            raise Unsupported("min/max with key/default")
        if len(args) == 1 and isinstance(args[0], SSeq) and concrete_of(to_z3(args[0].n)) is None and args[0].ety.kind == "int":
            # extremum of a sequence of symbolic length: a bound of every element that is attained
            seq = args[0]
            n = to_z3(seq.n)
            if not I.path.branch(n > 0, note=f"{which}-nonempty"):
                I.raise_py(ValueError, f"{which}() arg is an empty sequence")
            m = I.path.fresh_int(which)
            k = I.path.fresh_int(which + "_at")
            I.path.add_pool(k)
            I.path.assume(z3.And(k >= 0, k < n, seq.at(k) == m))
            I.path.qhyps.append(lambda t, seq=seq, n=n, m=m: z3.Implies(z3.And(t >= 0, t < n), (m <= seq.at(t)) if which == "min" else (m >= seq.at(t))))
            return SInt(m)
        vals = list(args) if len(args) > 1 else M.concrete_items(I, args[0])
        cur = vals[0]
        for v in vals[1:]:
            if isinstance(cur, (float, SReal)) or isinstance(v, (float, SReal)):
                a, b = M._real(cur), M._real(v)
                cur = SReal(simp(z3.If(b < a, b, a) if which == "min" else z3.If(b > a, b, a)))
            else:
                a, b = to_z3(cur), to_z3(v)
                cur = SInt(simp(z3.If(b < a, b, a) if which == "min" else z3.If(b > a, b, a)))
        return cur

    return f


def m_abs(I, args, kwargs):
    v = args[0]
    if isinstance(v, SInt):
        return SInt(simp(z3.If(v.e < 0, -v.e, v.e)))
    if isinstance(v, SReal):
        return SReal(simp(z3.If(v.e < 0, -v.e, v.e)))
    raise Unsupported("abs()")


def m_ord(I, args, kwargs):
    M = _m()
    v = args[0]
    e = M.as_seq(I, v)
    if not I.path.branch(z3.Length(e) == 1, note="ord-len1"):
        I.raise_py(TypeError, "ord() expected a character")
    x = simp(e[0])
    if M.kind_of(v) != "str":
        I.path.assume(z3.And(x >= 0, x <= 255))
    return SInt(x)


def m_chr(I, args, kwargs):
    x = to_z3(args[0])
    if not I.path.branch(z3.And(x >= 0, x <= 0x10FFFF), note="chr-range"):
        I.raise_py(ValueError, "chr() arg not in range(0x110000)")
    return SBytes(z3.Unit(x), "str")


def m_range(I, args, kwargs):
    if len(args) == 1:
        a, b, st = 0, args[0], 1
    elif len(args) == 2:
        a, b, st = args[0], args[1], 1
    else:
        a, b, st = args
    if not isinstance(st, int) or st == 0:
        raise Unsupported("range with symbolic step")
    return SRange(a, b, st)


def m_reversed(I, args, kwargs):
    M = _m()
    v = args[0]
    items = M.concrete_items(I, v, allow_fail=True)
    if items is None:
        raise Unsupported("reversed() of a symbolic sequence")
    return list(reversed(items))


def m_enumerate(I, args, kwargs):
    M = _m()
    items = M.concrete_items(I, args[0], allow_fail=True)
    if items is None:
        raise Unsupported("enumerate() of a symbolic sequence")
    start = args[1] if len(args) > 1 else kwargs.get("start", 0)
    return [(start + i, x) for i, x in enumerate(items)]


def m_zip(I, args, kwargs):
    M = _m()
    cols = [M.concrete_items(I, a) for a in args]
    return [tuple(r) for r in zip(*cols)]


def m_isinstance(I, args, kwargs):
    v, k = args
    ks = k if isinstance(k, tuple) else (k,)
    return any(_isinst(v, c) for c in ks)


def _isinst(v, c):
    import collections.abc

    if isinstance(v, (SObj, SRef)):
        return isinstance(c, type) and issubclass(v.cls, c)
    if isinstance(v, ExcVal):
        return isinstance(c, type) and issubclass(v.cls, c)
    if isinstance(v, SInt):
        return c in (int, object)
    if isinstance(v, SBool):
        return c in (bool, int, object)
    if isinstance(v, SReal):
        return c in (float, object)
    if isinstance(v, SBytes):
        t = {"bytes": bytes, "str": str, "bytearray": bytearray}[v.kind]
        return isinstance(c, type) and issubclass(t, c)
    if isinstance(v, SSeq):
        t = tuple if v.kind == "tuple" else list
        return isinstance(c, type) and issubclass(t, c)
    if isinstance(v, SMap):
        return isinstance(c, type) and issubclass(dict, c)
    return isinstance(v, c)


def m_type(I, args, kwargs):
    v = args[0]
    if isinstance(v, (SObj, ExcVal)):
        return v.cls
    if isinstance(v, SInt):
        return int
    if isinstance(v, SBool):
        return bool
    if isinstance(v, SBytes):
        return {"bytes": bytes, "str": str, "bytearray": bytearray}[v.kind]
    if isinstance(v, SSeq):
        return tuple if v.kind == "tuple" else list
    return type(v)


def m_int_from_bytes(I, args, kwargs):
    M = _m()
    data = args[0]
    order = args[1] if len(args) > 1 else kwargs.get("byteorder", "big")
    e = M.as_seq(I, data)
    n = I.path.infer_int(z3.Length(e))
    if n is None:
        raise Unsupported("int.from_bytes of data of unknown length")
    if order != "big":
        raise Unsupported("little-endian from_bytes")
    return SInt(be_int(I, e, n), 256**n - 1)


def m_getattr(I, args, kwargs):
    if not isinstance(args[1], str):
        raise Unsupported("getattr with symbolic name")
    itp = _itp()
    try:
        return I.get_attr(args[0], args[1])
    except itp.PyExc as e:
        if e.cls is AttributeError and len(args) > 2:
            return args[2]
        raise


def m_hasattr(I, args, kwargs):
    itp = _itp()
    try:
        I.get_attr(args[0], args[1])
        return True
    except itp.PyExc as e:
        if e.cls is AttributeError:
            return False
        raise


def m_cast(I, args, kwargs):
    return args[1]


def m_super(I, args, kwargs):
    itp = _itp()
    if args or not I.frame_stack:
        raise Unsupported("super() with arguments")
    frame = I.frame_stack[-1]
    fn = frame.fn
    info = frame.info
    if fn is None or info is None or not info.node.args.args:
        raise Unsupported("super() outside a method")
    obj = frame.locals.get(info.node.args.args[0].arg)
    cls = obj.cls if isinstance(obj, SObj) else (obj if isinstance(obj, type) else type(obj))
    mro = list(cls.__mro__)
    # the compiler stores the lexically enclosing class in the __class__ cell
    if fn.__closure__ and "__class__" in fn.__code__.co_freevars:
        defining = fn.__closure__[fn.__code__.co_freevars.index("__class__")].cell_contents
        if defining in mro:
            return itp.SuperProxy(obj, mro[mro.index(defining) + 1:])
    for i, k in enumerate(mro):
        for v in k.__dict__.values():
            f = v.__func__ if isinstance(v, (classmethod, staticmethod)) else v
            while getattr(f, "__qualname__", "") == "_immutable_init.<locals>.nf":
                f = f.__closure__[0].cell_contents
            if getattr(f, "__code__", None) is fn.__code__:
                return itp.SuperProxy(obj, mro[i + 1:])
    raise Unsupported("super(): defining class not found")


def m_str(I, args, kwargs):
    if not args:
        return ""
    v = args[0]
    if isinstance(v, SBytes) and v.kind == "str":
        return v
    raise Unsupported("str() of a symbolic value")


def m_sum(I, args, kwargs):
    M = _m()
    items = M.concrete_items(I, args[0])
    acc = args[1] if len(args) > 1 else 0
    for x in items:
        acc = M.binop(I, ast.Add(), acc, x)
    return acc


def m_all(I, args, kwargs):
    M = _m()
    items = M.concrete_items(I, args[0])
    for x in items:
        if not I.branch(x, note="all()"):
            return False
    return True


def m_any(I, args, kwargs):
    M = _m()
    items = M.concrete_items(I, args[0])
    for x in items:
        if I.branch(x, note="any()"):
            return True
    return False


def m_object_setattr(I, args, kwargs):
    obj, name, v = args
    if isinstance(obj, SObj):
        obj.fields[name] = v
        return None
    raise Unsupported("object.__setattr__")


def m_time(I, args, kwargs):
    """time.time(): an external clock.  Each call returns a fresh real, not smaller than the
    previous reading (A-float); the k-th reading is visible to clauses as ghost time_k."""
    p = I.path
    k = len(I.ghost_clock) + 1
    t = z3.Real(p.fresh_name(f"time_{k}"))
    if I.ghost_clock:
        p.assume(t >= I.ghost_clock[-1])
    elif I._time0 is not None:
        p.assume(t >= I._time0)
    I.ghost_clock.append(t)
    I.ghost[f"time_{k}"] = SReal(t)
    I.ghost["time_last"] = SReal(t)
    return SReal(t)


import time as _time
import typing

def m_str(I, args, kwargs):
    """str(x): concrete values natively; text is itself; an object gives an unspecified string (its __str__ is not modelled)"""
    if not args:
        return ""
    x = args[0]
    if isinstance(x, SBytes) and x.kind == "str" and len(args) == 1:
        return x
    if isinstance(x, (SObj, SRef)) and len(args) == 1:
        return SBytes(z3.Const(I.path.fresh_name("str_of_obj"), S.SeqI), "str")
    if not _itp().has_sym(list(args)):
        return str(*args, **kwargs)
    raise Unsupported("str() of a symbolic value")


def m_iter(I, args, kwargs):
    """iter(x) for a container that is then consumed by a for loop: the container itself (one pass, not re-entrant)"""
    if len(args) == 1 and isinstance(args[0], (SMap, SSeq, SBytes, list, tuple, dict, bytes, str, SItems)):
        return args[0]
    raise Unsupported("iter() of this value")


_HASH_BYTES = z3.Function("hash_of_bytes", S.SeqI, S.IntS)


def m_hash(I, args, kwargs):
    """hash(b) of an octet string: some fixed function of its content (nothing else is assumed about it)"""
    v = args[0]
    itp = _itp()
    if isinstance(v, SObj):
        f = I.class_lookup(v.cls, "__hash__")
        if f is None:
            I.raise_py(TypeError, "unhashable")
        return I.call(itp.BoundMethod(v, itp.unwrap_function(f), "__hash__"), [], {})
    if not itp.has_sym([v]):
        return hash(v)
    M = _m()
    if M.is_bytes_like(v):
        return SInt(_HASH_BYTES(M.as_seq(I, v)))
    raise Unsupported("hash() of this symbolic value")


BUILTIN_MODELS = {
    _time.time: m_time,
    iter: m_iter,
    hash: m_hash,
    str: m_str,
    struct.pack: m_struct_pack,
    struct.unpack: m_struct_unpack,
    struct.calcsize: m_struct_calcsize,
    len: m_len,
    int: m_int,
    bool: m_bool,
    bytes: m_bytes,
    bytearray: m_bytearray,
    tuple: m_tuple,
    list: m_list,
    min: m_minmax("min"),
    max: m_minmax("max"),
    abs: m_abs,
    ord: m_ord,
    chr: m_chr,
    range: m_range,
    reversed: m_reversed,
    enumerate: m_enumerate,
    zip: m_zip,
    isinstance: m_isinstance,
    type: m_type,
    int.from_bytes: m_int_from_bytes,
    hash: m_hash,
    getattr: m_getattr,
    hasattr: m_hasattr,
    typing.cast: m_cast,
    super: m_super,
    str: m_str,
    sum: m_sum,
    all: m_all,
    any: m_any,
    object.__setattr__: m_object_setattr,
}


# ----------------------------------------------------------------------------- f-strings, comprehensions


def fstring(I, e, frame):
    M = _m()
    parts = []
    for v in e.values:
        if isinstance(v, ast.Constant):
            parts.append(v.value)
            continue
        val = I.eval(v.value, frame)
        spec = ""
        if v.format_spec is not None:
            if not all(isinstance(x, ast.Constant) for x in v.format_spec.values):
                raise Unsupported("computed format spec")
            spec = "".join(x.value for x in v.format_spec.values)
        if v.conversion not in (-1, None):
            raise Unsupported("f-string conversion")
        if not _itp().has_sym(val):
            parts.append(format(val, spec))
            continue
        if isinstance(val, SInt) and spec == "03d":
            x = val.e
            I.path.prove(z3.And(x >= 0, x <= 999), "fstring-03d-range", kind="model-side-condition")
            parts.append(SBytes(z3.Concat(z3.Unit(48 + x / 100), z3.Unit(48 + (x / 10) % 10), z3.Unit(48 + x % 10)), "str"))
            continue
        if isinstance(val, SBytes) and val.kind == "str" and spec == "":
            parts.append(val)
            continue
        if spec == "" and isinstance(val, (tuple, list)) and _itp().has_sym(val):
            parts.append(SBytes(z3.Const(I.path.fresh_name("text_of_value"), S.SeqI), "str"))
            continue
        if isinstance(val, (SInt, SReal, SBool)) and spec == "":
            # the decimal text of a symbolic number: an unspecified string (only ever used in messages)
            parts.append(SBytes(z3.Const(I.path.fresh_name("text_of_number"), S.SeqI), "str"))
            continue
        raise Unsupported(f"f-string field {spec!r} of symbolic {type(val).__name__}")
    out = ""
    for p in parts:
        out = M.binop(I, ast.Add(), out, p) if (isinstance(out, SBytes) or isinstance(p, SBytes)) else out + p
    return out


def comprehension(I, e, frame, kind):
    itp = _itp()
    M = _m()
    if kind == "dict":
        raise Unsupported("dict comprehension")
    if len(e.generators) != 1:
        raise Unsupported("nested comprehension")
    g = e.generators[0]
    it = I.eval(g.iter, frame)
    items = M.concrete_items(I, it, allow_fail=True)
    if items is None:
        hook = I.reg.comprehension_models.get((frame.info.qualname if frame.info else None, getattr(e, "lineno", None)))
        # map over a symbolic tuple of bytes: pointwise model when the element expression is a
        # pure function of the element alone (e.g. x.lower())
        if isinstance(it, SSeq) and not g.ifs:
            return map_symbolic(I, e, g, it, frame)
        raise Unsupported("comprehension over a symbolic sequence")
    out = []
    sub = itp.Frame(frame.fn, {}, frame.globals, frame.info, parent=frame)
    for x in items:
        I.assign(g.target, x, sub)
        if all(I.branch(I.eval(c, sub), note="comp-if") for c in g.ifs):
            out.append(I.eval(e.elt, sub))
    if kind == "set":
        raise Unsupported("set comprehension")
    return out


def map_symbolic(I, e, g, it: SSeq, frame):
    """[f(x) for x in seq] over a symbolic sequence: a fresh sequence of the same length with
    the pointwise definition instantiated lazily (the element expression is evaluated
    symbolically on seq[t] for each instantiation term t)."""
    itp = _itp()
    p = I.path
    # evaluate once on a generic element to learn the result type
    k0 = p.fresh_int("map_k")
    sub = itp.Frame(frame.fn, {}, frame.globals, frame.info, parent=frame)
    I.assign(g.target, wrap(it.ety, it.at(k0)), sub)
    saved = I.spec
    I.spec = 2
    try:
        r0 = I.eval(e.elt, sub)
    finally:
        I.spec = saved
    if isinstance(r0, (SBytes, SInt)) and r0.e.eq(it.at(k0)):
        # identity map: the same elements
        return SSeq(it.arr, it.n, it.ety, "list", it.off)
    if isinstance(r0, SBytes):
        ety = Ty(r0.kind)
    elif isinstance(r0, SInt):
        ety = T.int
    else:
        raise Unsupported("comprehension element type")
    arr = z3.Const(p.fresh_name("map_arr"), z3.ArraySort(S.IntS, S.sort_of(ety)))
    res = SSeq(arr, it.n, ety, "list", 0)
    snap_locals = dict(frame.locals)
    heap_then = dict(I.path.heap)

    def q(t):
        fr = itp.Frame(frame.fn, {}, frame.globals, frame.info, parent=itp.Frame(frame.fn, snap_locals, frame.globals, frame.info, parent=frame.parent))
        I.assign(g.target, wrap(it.ety, it.at(t)), fr)
        sv = I.spec
        I.spec = 2
        heap_now = I.path.heap
        I.path.heap = dict(heap_then)
        try:
            r = I.eval(e.elt, fr)
        finally:
            I.path.heap = heap_now
            I.spec = sv
        return z3.Implies(z3.And(t >= 0, t < to_z3(it.n)), z3.Select(arr, t) == to_z3(r))

    p.qhyps.append(q)
    return res


# ----------------------------------------------------------------------------- with managers


class _LockManager:
    def __init__(self, I, lock):
        self.I = I

    def enter(self):
        return None

    def exit(self, exc):
        return False


def with_manager(I, mgr):
    import threading

    if isinstance(mgr, SObj) and getattr(mgr.cls, "__name__", "") in ("lock", "RLock", "Lock"):
        return _LockManager(I, mgr)
    if type(mgr).__name__ in ("lock", "RLock"):
        return _LockManager(I, mgr)
    return None


# ----------------------------------------------------------------------------- specification forms


def _quant_parts(I, call_node):
    """all(...)/any(...) over a generator with one clause: 'for k in range(lo, hi)' or
    'for k in <dict expression>' (quantification over the present keys)."""
    if not (isinstance(call_node, ast.Call) and isinstance(call_node.func, ast.Name) and call_node.func.id in ("all", "any") and len(call_node.args) == 1 and isinstance(call_node.args[0], ast.GeneratorExp)):
        return None
    gen = call_node.args[0]
    if len(gen.generators) != 1:
        return None
    g = gen.generators[0]
    if not isinstance(g.target, ast.Name):
        return None
    if isinstance(g.iter, ast.Call) and isinstance(g.iter.func, ast.Name) and g.iter.func.id == "range":
        return call_node.func.id, g.target.id, g.iter.args, g.ifs, gen.elt
    if isinstance(g.iter, ast.Call) and isinstance(g.iter.func, ast.Name) and g.iter.func.id == "refs" and len(g.iter.args) == 1:
        return call_node.func.id, g.target.id, ("refs", g.iter.args[0]), g.ifs, gen.elt
    if isinstance(g.iter, (ast.Name, ast.Attribute)):
        return call_node.func.id, g.target.id, ("map", g.iter), g.ifs, gen.elt
    return None


def _range_bounds(I, rargs, frame):
    if len(rargs) == 1:
        return z3.IntVal(0), to_z3(I.eval(rargs[0], frame))
    if len(rargs) == 2:
        return to_z3(I.eval(rargs[0], frame)), to_z3(I.eval(rargs[1], frame))
    raise Unsupported("quantifier range with step")


def _quant_domain(I, rargs, frame):
    """returns (guard(t) -> list of z3 bools, lo, hi) ; lo/hi are None for a dict domain.
    The bound variable is wrapped by I._qwrap (an int, or a heap reference for refs(cls))."""
    I._qwrap = lambda t: SInt(t)
    if isinstance(rargs, tuple) and rargs and rargs[0] == "refs":
        M = _m()
        clsname = I.eval(rargs[1], frame)
        cls = I.reg.resolve(clsname)
        lim = M.heap_limit(I)
        I._qwrap = lambda t, cls=cls: SRef(cls, t)
        return (lambda t: [t >= 1, t < lim]), None, None
    if isinstance(rargs, tuple) and rargs and rargs[0] == "map":
        d = I.eval(rargs[1], frame)
        if isinstance(d, dict):
            raise Unsupported("quantifier over a concrete dict (write it over its items)")
        if not isinstance(d, SMap):
            raise Unsupported("quantifier domain is neither range(...) nor a dict")
        has = d.has
        return (lambda t: [z3.Select(has, t)]), None, None
    lo, hi = _range_bounds(I, rargs, frame)
    return (lambda t: [t >= lo, t < hi]), lo, hi


def snapshot_value(v, memo):
    if isinstance(v, SObj):
        if id(v) in memo:
            return memo[id(v)]
        c = SObj.__new__(SObj)
        c.cls, c.oid, c.label, c.frozen = v.cls, v.oid, v.label, getattr(v, "frozen", False)
        c.fields = {}
        c.heap_snapshot = getattr(v, "heap_snapshot", None)
        if c.heap_snapshot is None:
            c.heap_snapshot = memo.get("__heap__")
        memo[id(v)] = c
        for k, x in v.fields.items():
            c.fields[k] = snapshot_value(x, memo)
        return c
    if isinstance(v, SBytes):
        return SBytes(v.e, v.kind)
    if isinstance(v, SSeq):
        return SSeq(v.arr, v.n, v.ety, v.kind, v.off, v.mem, v.lpos)
    if isinstance(v, SMap):
        return SMap(v.has, v.val, v.kty, v.vty, v.size, v.keys, v.kpos, v.heap if v.heap is not None else memo.get("__heap__"),
                    v.lim if v.lim is not None else memo.get("__limit__"))
    if isinstance(v, SBytesIO):
        return SBytesIO(v.buf, v.pos)
    if isinstance(v, SRef):
        h = memo.get("__heap__")
        return SRef(v.cls, v.id, h if v.heap is None and h is not None else v.heap)
    if isinstance(v, list):
        return [snapshot_value(x, memo) for x in v]
    if isinstance(v, tuple):
        return tuple(snapshot_value(x, memo) for x in v)
    if isinstance(v, dict):
        return {k: snapshot_value(x, memo) for k, x in v.items()}
    return v


def snapshot_locals(frame):
    memo = {}
    out = {}
    f = frame
    chain = []
    while f is not None:
        chain.append(f)
        f = f.parent
    for f in reversed(chain):
        for k, v in f.locals.items():
            out[k] = snapshot_value(v, memo)
    return out


def _has_quantifier(node):
    for sub in ast.walk(node):
        if isinstance(sub, ast.Call) and isinstance(sub.func, ast.Name) and sub.func.id in ("all", "any") and sub.args and isinstance(sub.args[0], ast.GeneratorExp):
            return True
    return False


def _quant_readings(node, pol=-1, out=None):
    """How each bounded quantifier of a hypothesis (pol=-1) or goal (pol=+1) is read:
    'forall' needs instantiation, 'exists' gets a skolem constant."""
    out = set() if out is None else out
    if isinstance(node, ast.UnaryOp) and isinstance(node.op, ast.Not):
        _quant_readings(node.operand, -pol, out)
    elif isinstance(node, ast.BoolOp):
        for v in node.values:
            _quant_readings(v, pol, out)
    elif isinstance(node, ast.IfExp):
        _quant_readings(node.test, 0, out)
        _quant_readings(node.body, pol, out)
        _quant_readings(node.orelse, pol, out)
    elif isinstance(node, ast.Call) and isinstance(node.func, ast.Name) and node.func.id in ("all", "any") and node.args and isinstance(node.args[0], ast.GeneratorExp):
        which = node.func.id
        if pol == 0:
            out.update(("forall", "exists"))
        elif (which == "all") == (pol == -1):
            out.add("forall")
        else:
            out.add("exists")
        _quant_readings(node.args[0].elt, pol, out)
    else:
        for ch in ast.iter_child_nodes(node):
            if _has_quantifier(ch):
                _quant_readings(ch, 0, out)
    return out


def as_lazy_forall(I, conj, frame):
    """A hypothesis conjunct that contains bounded quantifiers becomes a closure q(t): the
    conjunct with every universally-read quantifier instantiated at the single term t (sound:
    the conjunct implies each such instance).  Evaluated over a snapshot of the state."""
    itp = _itp()
    if not _has_quantifier(conj):
        return None
    if "forall" not in _quant_readings(conj, -1):
        return None  # only existentially read quantifiers: assumed eagerly with skolem constants
    snap = snapshot_locals(frame)
    base = itp.Frame(frame.fn, snap, frame.globals, frame.info)
    heap_then = dict(I.path.heap)  # the clause speaks about the heap as it is *now*, not when it is instantiated
    nalloc_then = I.path.nalloc

    def q(t, t2=None):
        sv, st, sd = I.spec, getattr(I, "inst_term", None), getattr(I, "inst_depth", 0)
        I.spec = -1
        I.inst_term = t if t2 is None else (t, t2)
        I.inst_depth = 0
        heap_now, nalloc_now = I.path.heap, I.path.nalloc
        I.path.heap = dict(heap_then)
        I.path.nalloc = nalloc_then
        try:
            return I.as_bool_expr(I.eval(conj, base))
        finally:
            I.path.heap = heap_now
            I.path.nalloc = nalloc_now
            I.spec = sv
            I.inst_term = st
            I.inst_depth = sd

    q.arity = 2 if _quant_depth(conj) >= 2 else 1
    return q


def _quant_depth(node):
    best = 0
    for ch in ast.iter_child_nodes(node):
        best = max(best, _quant_depth(ch))
    if isinstance(node, ast.Call) and isinstance(node.func, ast.Name) and node.func.id in ("all", "any") and node.args and isinstance(node.args[0], ast.GeneratorExp):
        return best + 1
    return best


def spec_call(I, e, frame):
    itp = _itp()
    qp = _quant_parts(I, e)
    if qp is not None:
        which, var, rargs, ifs, elt = qp
        if isinstance(rargs, tuple) and rargs and rargs[0] == "map":
            d0 = I.eval(rargs[1], frame)
            if isinstance(d0, dict):
                # a concrete dict (e.g. after ``self.data = {}``): the quantifier is a finite conjunction
                outs = []
                for key in list(d0):
                    fr = itp.Frame(frame.fn, {var: key}, frame.globals, frame.info, parent=frame)
                    guard = [I.as_bool_expr(I.eval(c, fr)) for c in ifs]
                    body = I.as_bool_expr(I.eval(elt, fr))
                    outs.append(z3.Implies(z3.And(*guard), body) if which == "all" else z3.And(*(guard + [body])))
                if not outs:
                    return which == "all"
                return SBool(simp(z3.And(*outs) if which == "all" else z3.Or(*outs)))
        dom, lo, hi = _quant_domain(I, rargs, frame)
        qwrap = I._qwrap
        pol = I.spec
        clo, chi = (concrete_of(lo), concrete_of(hi)) if lo is not None else (None, None)
        if clo is not None and chi is not None and chi - clo <= 64:
            outs = []
            for t in range(clo, chi):
                fr = itp.Frame(frame.fn, {var: t}, frame.globals, frame.info, parent=frame)
                guard = [I.as_bool_expr(I.eval(c, fr)) for c in ifs]
                body = I.as_bool_expr(I.eval(elt, fr))
                outs.append(z3.Implies(z3.And(*guard), body) if which == "all" else z3.And(*(guard + [body])))
            if not outs:
                return which == "all"
            return SBool(simp(z3.And(*outs) if which == "all" else z3.Or(*outs)))
        if pol == 2:
            raise Unsupported("quantifier inside a term")
        skolem = (which == "all" and pol == 1) or (which == "any" and pol == -1)
        if skolem:
            k = I.path.fresh_int(var)
            if getattr(I, "inst_term", None) is None:
                I.path.add_pool(k)
            elif not getattr(I.path, "_in_pool2_round", False):
                # a skolem born inside an instance of a lazy hypothesis (forall-exists): second-generation term; the
                # hypotheses are instantiated at it once, and what is born there is not used again (no divergence)
                I.path.add_pool2(k)
            fr = itp.Frame(frame.fn, {var: qwrap(k)}, frame.globals, frame.info, parent=frame)
            guard = dom(k) + [I.as_bool_expr(I.eval(c, fr)) for c in ifs]
            body = I.as_bool_expr(I.eval(elt, fr))
            if which == "all":
                return SBool(simp(z3.Implies(z3.And(*guard), body)))
            return SBool(simp(z3.And(*(guard + [body]))))
        # instantiate: at the single closure term (lazy hypotheses) or over the pool
        it = getattr(I, "inst_term", None)
        depth = getattr(I, "inst_depth", 0)
        if it is not None:
            terms = [it[min(depth, len(it) - 1)]] if isinstance(it, tuple) else [it]
        else:
            terms = list(I.path.pool)
            f = frame
            while f is not None:
                for nm, val in list(f.locals.items()):
                    if isinstance(val, SInt) and not any(t.eq(val.e) for t in terms):
                        terms.append(val.e)
                f = f.parent
            extra = []
            for t in terms:
                for d in (simp(t + 1), simp(t - 1)):
                    if not any(u.eq(d) for u in terms + extra):
                        extra.append(d)
            terms += extra + [z3.IntVal(0)] + ([simp(hi - 1), lo] if lo is not None else [])
        outs = []
        I.inst_depth = depth + 1
        try:
            for t in terms:
                fr = itp.Frame(frame.fn, {var: qwrap(t)}, frame.globals, frame.info, parent=frame)
                guard = dom(t) + [I.as_bool_expr(I.eval(c, fr)) for c in ifs]
                body = I.as_bool_expr(I.eval(elt, fr))
                outs.append(z3.Implies(z3.And(*guard), body) if which == "all" else z3.And(*(guard + [body])))
        finally:
            I.inst_depth = depth
        return SBool(simp(z3.And(*outs) if which == "all" else z3.Or(*outs)))
    if isinstance(e.func, ast.Name):
        nm = e.func.id
        if nm not in frame.locals:
            sf = I.reg.spec_functions.get(nm)
            if sf is not None:
                args = [I.eval(a, frame) for a in e.args]
                return sf.smt(I, *args)
    return NotImplemented
