"""Command line driver: verify the contracts of one or more contract modules."""
from __future__ import annotations
import argparse, importlib, json, os, sys, time
from concurrent.futures import ProcessPoolExecutor

def _load(mods):
    from pyvc.api import REG
    for m in mods:
        importlib.import_module(m)
    return REG

def _one(arg):
    mods, name, kind = arg
    from pyvc.api import verify_contract, verify_lemma
    reg = _load(mods)
    try:
        if kind == "lemma":
            return verify_lemma(reg, reg.lemmas[name])
        if kind == "static":
            return reg.statics[name][0](reg)
        if kind == "step":
            from pyvc.api import verify_step
            return verify_step(reg, reg.steps[name])
        if kind == "roundtrip":
            from pyvc.api import verify_roundtrip
            return verify_roundtrip(reg, reg.roundtrips[name])
        return verify_contract(reg, reg.contracts[name])
    except Exception as e:
        import traceback
        return {"contract": name, "status": "engine-error", "unsupported": traceback.format_exc(limit=8), "obligations": [], "props": [], "functions": [], "assumed_contracts": [], "inlined": [], "paths": 0, "covers": 0, "solver_time_s": 0}

def verify_modules(mods, only=None, prop=None, jobs=None):
    reg = _load(mods)
    items = []
    for n, c in reg.contracts.items():
        if only and n not in only: continue
        if prop and prop not in c.props: continue
        items.append((mods, n, "contract"))
    for n, l in reg.lemmas.items():
        if only and n not in only: continue
        if prop and prop not in l.props: continue
        items.append((mods, n, "lemma"))
    for n, (fn, props) in reg.statics.items():
        if only and n not in only: continue
        if prop and prop not in props: continue
        items.append((mods, n, "static"))
    for n, l in reg.steps.items():
        if only and n not in only: continue
        if prop and prop not in l.props: continue
        items.append((mods, n, "step"))
    for n, l in reg.roundtrips.items():
        if only and n not in only: continue
        if prop and prop not in l.props: continue
        items.append((mods, n, "roundtrip"))
    jobs = jobs or min(16, max(1, len(items)))
    if jobs == 1 or len(items) <= 1:
        return [_one(i) for i in items]
    with ProcessPoolExecutor(max_workers=jobs) as ex:
        return list(ex.map(_one, items))

def main():
    ap = argparse.ArgumentParser()
    ap.add_argument("modules", nargs="+")
    ap.add_argument("--only", nargs="*")
    ap.add_argument("--prop")
    ap.add_argument("--jobs", type=int)
    ap.add_argument("--json")
    ap.add_argument("-v", action="store_true")
    a = ap.parse_args()
    t0 = time.time()
    out = verify_modules(a.modules, a.only, a.prop, a.jobs)
    for r in out:
        obs = r["obligations"]
        print(f"{r['status']:12s} {r['contract']}  paths={r['paths']} covers={r['covers']} vcs={len(obs)} unsat={sum(o['status']=='unsat' for o in obs)} t={r.get('wall_s')}")
        if r.get("unsupported"): print("     unsupported:", r["unsupported"])
        for o in obs:
            if o["status"] != "unsat" or a.v:
                print(f"     {o['status']:7s} {o['label']} path={o['path']} {o.get('detail') or ''}")
                if o["status"] == "sat" and o.get("model"): print("        model:", o["model"])
    if a.json: json.dump(out, open(a.json, "w"), indent=1)
    print("wall", round(time.time()-t0, 2))

if __name__ == "__main__":
    main()
