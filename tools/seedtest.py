#!/usr/bin/env python3
"""Confirm seeded property-breaking changes and run the checks against them.

usage: tools/seedtest.py import <srcdir> [ids...]   # confirm candidates from <srcdir>/<id>/patchK.diff and keep them in seeded/
       tools/seedtest.py run [ids...]               # run ./check against every kept seeded change, print which are caught

Every change is applied to a scratch copy of /repo (never to /repo itself); the copy is removed
afterwards.
"""
import json
import os
import shutil
import subprocess
import sys
import tempfile

ROOT = os.path.dirname(os.path.dirname(os.path.abspath(__file__)))
PY = "/venv/bin/python"


def scratch(patch):
    d = tempfile.mkdtemp(prefix="/tmp/seedtest.")
    subprocess.run(["rsync", "-a", "--exclude", ".git", "--exclude", "__pycache__", "/repo/", d + "/"], check=True)
    r = subprocess.run(["patch", "-p1", "-s", "-d", d, "-i", patch], capture_output=True, text=True)
    if r.returncode != 0:
        shutil.rmtree(d, ignore_errors=True)
        raise RuntimeError("patch does not apply: " + r.stdout + r.stderr)
    return d


def run_demo(demo, tree):
    env = dict(os.environ, PYTHONPATH=tree)
    try:
        r = subprocess.run([PY, "-B", demo], env=env, capture_output=True, text=True, timeout=300, cwd=tree)
        return r.returncode, (r.stdout + r.stderr)[-600:]
    except subprocess.TimeoutExpired:
        return 124, "demo timed out"


def run_suite(tree):
    env = dict(os.environ, PYTHONPATH=tree)
    r = subprocess.run([PY, "-m", "pytest", "-q", "-p", "no:cacheprovider", "--timeout=900", "-n", "8", "tests"], env=env,
                       capture_output=True, text=True, cwd=tree)
    tail = r.stdout.strip().splitlines()[-1] if r.stdout.strip() else ""
    failed = sorted(l.split(" ")[1] for l in r.stdout.splitlines() if l.startswith("FAILED "))
    return tail, failed


BASE_FAIL = {"tests/test_name.py::NameTestCase::testFromUnicodeIDNA2008", "tests/test_name.py::NameTestCase::testToUnicode5"}


def run_check(pid, tree, tier="quick"):
    env = dict(os.environ, VERIF_REPO=tree)
    r = subprocess.run([os.path.join(ROOT, "check"), pid, "--tier", tier], env=env, capture_output=True, text=True, cwd=ROOT)
    vio = [l for l in r.stdout.splitlines() if l.startswith("VIOLATION") or l.startswith("  clause=")]
    return r.returncode, vio, r.stdout[-1500:] + r.stderr[-1500:]


def cmd_import(src, ids):
    for pid in sorted(os.listdir(src)):
        if ids and pid not in ids:
            continue
        for k in (1, 2, 3):
            patch = os.path.join(src, pid, f"patch{k}.diff")
            demo = os.path.join(src, pid, f"demo{k}.py")
            if not (os.path.exists(patch) and os.path.exists(demo)):
                continue
            name = f"{pid}-{k + int(os.environ.get('SEED_OFFSET', '0'))}"
            dst = os.path.join(ROOT, "seeded", name)
            try:
                tree = scratch(patch)
            except Exception as e:
                print(name, "REJECTED:", e)
                continue
            try:
                rc_mut, out_mut = run_demo(demo, tree)
                rc_base, out_base = run_demo(demo, "/repo")
                tail, failed = run_suite(tree)
                ok = rc_mut == 1 and rc_base == 0 and set(failed) <= BASE_FAIL
                print(name, "demo(mutant)=", rc_mut, "demo(base)=", rc_base, "suite:", tail, "extra failures:", sorted(set(failed) - BASE_FAIL), "->", "KEEP" if ok else "REJECT")
                if not ok:
                    continue
                os.makedirs(dst, exist_ok=True)
                shutil.copy(patch, os.path.join(dst, "patch.diff"))
                shutil.copy(demo, os.path.join(dst, "demo.py"))
                notes = os.path.join(src, pid, f"notes{k}.md")
                needs = open(notes).read()[:3000] if os.path.exists(notes) else ""
                meta = {"property": pid, "source": "independent sub-agent given only the property text and a scratch worktree",
                        "needs_to_manifest": needs,
                        "confirmed": {"demo_exit_on_changed_tree": rc_mut, "demo_exit_on_unchanged_tree": rc_base, "test_suite_with_change": tail,
                                      "commands": ["rsync /repo -> scratch; patch -p1 < patch.diff", f"PYTHONPATH=scratch {PY} -B demo.py",
                                                   f"PYTHONPATH=scratch {PY} -m pytest -q -p no:cacheprovider --timeout=900 -n 8 tests"]},
                        "detected_by": None}
                json.dump(meta, open(os.path.join(dst, "meta.json"), "w"), indent=1)
            finally:
                shutil.rmtree(tree, ignore_errors=True)


def cmd_run(ids, tier="quick"):
    sd = os.path.join(ROOT, "seeded")
    rows = []
    for name in sorted(os.listdir(sd)):
        pid = name.split("-")[0]
        if ids and pid not in ids and name not in ids:
            continue
        patch = os.path.join(sd, name, "patch.diff")
        if not os.path.exists(patch):
            continue
        tree = scratch(patch)
        try:
            rc, vio, out = run_check(pid, tree, tier)
        finally:
            shutil.rmtree(tree, ignore_errors=True)
        mp = os.path.join(sd, name, "meta.json")
        meta = json.load(open(mp))
        meta["detected_by"] = {"check": f"./check {pid} --tier {tier}", "exit": rc, "violations": vio[:12]}
        json.dump(meta, open(mp, "w"), indent=1)
        print(name, "CAUGHT" if rc == 1 else ("MISSED" if rc == 0 else f"CHECK-ERROR rc={rc}"), (vio[1][:160] if len(vio) > 1 else ""))
        if rc not in (0, 1):
            print(out)
        rows.append((name, rc))
    # the checks write evidence for the scratch tree; restore evidence for /repo afterwards is the caller's job
    return rows


if __name__ == "__main__":
    if sys.argv[1] == "import":
        cmd_import(sys.argv[2], sys.argv[3:])
    elif sys.argv[1] == "run":
        tier = "quick"
        args = sys.argv[2:]
        if args and args[0] in ("quick", "thorough"):
            tier, args = args[0], args[1:]
        cmd_run(args, tier)
