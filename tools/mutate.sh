#!/bin/sh
# tools/mutate.sh <file-relative-to-repo> <sed-expression> -- <command...>
# applies the sed edit to a scratch copy of /repo/dns and runs the command with VERIF_REPO/PYTHONPATH pointing at it
f="$1"; e="$2"; shift 3
d=$(mktemp -d /tmp/mut.XXXXXX)
cp -r /repo/dns "$d/"
sed -i "$e" "$d/$f"
if cmp -s "$d/$f" "/repo/$f"; then echo "MUTATION DID NOT APPLY"; rm -rf "$d"; exit 9; fi
VERIF_REPO="$d" PYTHONPATH="/verif:$d" "$@"
rc=$?
rm -rf "$d"
exit $rc
