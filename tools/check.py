#!/usr/bin/env python3
"""./check <Cnn> [--tier quick|thorough] [--replay FILE]

Decides one property: (1) the deductive tier (pyvc: contracts on the real functions of the
repository, VCs regenerated from the current source, discharged by z3 / cvc5); (2) the bounded
stand-in (native execution of the real code against the same clauses, stated bounds).
Exit 0: held on everything explored; exit 1 + 'VIOLATION property=<id> replay=<path>': violation;
exit 3: fault of the checker itself.
"""

from __future__ import annotations

import argparse
import json
import os
import subprocess
import sys
import time

ROOT = os.path.dirname(os.path.dirname(os.path.abspath(__file__)))
REPO = os.environ.get("VERIF_REPO", "/repo")
sys.path[:0] = [ROOT, REPO]
os.environ["PYTHONPATH"] = f"{ROOT}:{REPO}"
VENV_PY = "/venv/bin/python"


def load_json(p, default):
    try:
        return json.load(open(p))
    except Exception:
        return default


def match_known(v, known):
    """A violation is a known finding iff every key of the entry's 'match' equals the
    corresponding key of the violation's sig (and the clause matches when given)."""
    for k in known:
        if k.get("status") != "open":
            continue
        if k.get("property") and k["property"] != v.get("property"):
            continue
        if k.get("clause") and k["clause"] != v.get("clause"):
            continue
        sig = v.get("sig") or {}
        if all(str(sig.get(a)) == str(b) for a, b in k.get("match", {}).items()):
            return k
    return None


def main():
    ap = argparse.ArgumentParser()
    ap.add_argument("prop")
    ap.add_argument("--tier", default=os.environ.get("VERIF_TIER") or "quick")
    ap.add_argument("--seed", type=int, default=int(os.environ.get("VERIF_SEED") or 0))
    ap.add_argument("--replay")
    ap.add_argument("--no-bounded", action="store_true")
    ap.add_argument("--no-proof", action="store_true")
    a = ap.parse_args()
    prop = a.prop
    tier = a.tier if a.tier in ("quick", "thorough") else "quick"
    if a.replay:
        return replay(prop, a.replay)
    from props import PROPS

    cfg = PROPS[prop]
    t0 = time.time()
    os.makedirs(os.path.join(ROOT, "evidence"), exist_ok=True)
    rdir = os.path.join(ROOT, "replays", prop)
    os.makedirs(rdir, exist_ok=True)
    for f in os.listdir(rdir):
        if f.endswith(".json"):
            os.unlink(os.path.join(rdir, f))
    # ---- bounded stand-in (background)
    bproc = None
    bout = os.path.join(ROOT, "evidence", f".bounded_{prop}.json")
    if not a.no_bounded and os.path.exists(os.path.join(ROOT, "bounded", f"{prop}.py")):
        if os.path.exists(bout):
            os.unlink(bout)
        bproc = subprocess.Popen([VENV_PY, "-m", "bounded.run", prop, "--tier", tier, "--seed", str(a.seed), "--out", bout],
                                 cwd=ROOT, stdout=subprocess.PIPE, stderr=subprocess.PIPE, text=True)
    # ---- deductive tier
    pres = None
    fault = None
    if not a.no_proof:
        try:
            from pyvc import prop as pyprop

            pres = pyprop.run(prop, tier, a.seed)
        except Exception:
            import traceback

            fault = traceback.format_exc()
    bres = None
    if bproc is not None:
        try:
            out, err = bproc.communicate(timeout=3600)
        except subprocess.TimeoutExpired:
            bproc.kill()
            out, err = bproc.communicate()
        bres = load_json(bout, None)
        if bres is None:
            fault = (fault or "") + f"\nbounded stand-in produced no result (rc={bproc.returncode}): {err[-2000:]}"
        try:
            os.unlink(bout)
        except OSError:
            pass
    # ---- merge
    known = load_json(os.path.join(ROOT, "known_findings.json"), {"findings": []})["findings"]
    violations = []
    if pres:
        violations += pres["violations"]
    if bres:
        violations += bres["violations"]
    new, known_hit = [], {}
    for i, v in enumerate(violations):
        v["property"] = prop
        k = match_known(v, known)
        if k is not None:
            known_hit.setdefault(k["id"], (k, []))[1].append(v)
        else:
            new.append(v)
    lines = []
    for kid, (k, vs) in sorted(known_hit.items()):
        lines.append(f"KNOWN-FINDING: property={prop} {k['id']}: {k['what']}")
    n = 0
    for v in new:
        n += 1
        fn = os.path.join("replays", prop, f"{n:03d}_{_slug(v['clause'])}.json")
        json.dump({"property": prop, "clause": v["clause"], "what": v["what"], "sig": v.get("sig"), "tier": v.get("tier"),
                   "replay": v.get("replay"), "repo": REPO}, open(os.path.join(ROOT, fn), "w"), indent=1)
        tail = " no-failing-input-found" if v.get("no_input") else ""
        lines.append(f"VIOLATION property={prop} replay={fn}{tail}")
        lines.append(f"  clause={v['clause']}: {v['what'][:400]}")
    if pres:
        for d in pres["degraded"]:
            if d.get("ledger") != "proved":
                continue  # was not proved on the unchanged tree either: listed under not_proved in the evidence
            lines.append(f"DEGRADED property={prop} function={d['contract']} reason={d['status']}: {str(d['reason'])[:200]}")
    # ---- evidence
    ev = build_evidence(prop, cfg, tier, a.seed, pres, bres, len(new), known_hit, time.time() - t0, fault)
    json.dump(ev, open(os.path.join(ROOT, "evidence", f"{prop}.json"), "w"), indent=1)
    for ln in lines:
        print(ln)
    ob = ev["coverage"].get("obligations", 0)
    print(f"{prop} tier={tier} seed={a.seed} obligations={ob} discharged={ev['coverage'].get('discharged', 0)} "
          f"bounded_evaluations={ev['coverage'].get('evaluations', 0)} violations={len(new)} known={len(known_hit)} wall={ev['wall_s']}s")
    if fault:
        print("CHECKER-FAULT\n" + fault, file=sys.stderr)
        return 3
    if new:
        return 1
    if pres is not None and not a.no_proof and cfg.get("needs_obligations", True) and ob == 0:
        print("CHECKER-FAULT zero obligations generated", file=sys.stderr)
        return 3
    return 0


def _slug(s):
    return "".join(ch if ch.isalnum() or ch in "._-" else "_" for ch in s)[:80]


def build_evidence(prop, cfg, tier, seed, pres, bres, nviol, known_hit, wall, fault):
    cov = {}
    assumptions = list(cfg.get("assumptions", []))
    level = cfg["level"]
    if pres:
        allproved = all(c["status"] in ("proved", "assumed") for c in pres["contracts"]) and pres["obligations"] == pres["discharged"]
        cov.update({
            "obligations": pres["obligations"],
            "discharged": pres["discharged"],
            "checker_cmd": f"./check {prop} --tier {tier}  (pyvc: python3-vt -m pyvc.prop {prop} {tier}; back ends z3 {_z3v()} in-process, z3 CLI and /usr/bin/cvc5 for VCs z3 leaves unknown)",
            "trusted_base": sorted(set(cfg.get("trusted_base", []) + [f"assumed contract: {n}" for n in pres["trusted_contracts"]]
                                       + [f"external model (engine-wide): {k}: {v}" for k, v in pres.get("externals", {}).items()]
                                       + [f"inlined (verified in the caller's context, not modularly): {n}" for n in pres["inlined"]])),
            "functions_under_contract": pres["functions"],
            "contracts": pres["contracts"],
            "contracts_used_at_call_sites": pres["assumed_contracts"],
            "back_ends": pres["backends"],
            "solver_time_s": pres["solver_time_s"],
            "not_proved": pres["not_proved"],
            "heavy_contracts_verified_in_thorough_tier_only": pres.get("not_run_in_quick", []),
            "native_contract_evaluations": pres["native"],
            "proof_samples": pres["samples"],
        })
        if level == "proof" and not allproved:
            level = "other"
    else:
        if level == "proof":
            level = "other"
    if bres:
        cov.update({
            "evaluations": bres["evaluations"],
            "distinct_nontrivial": bres["distinct_nontrivial"],
            "rule": "BOUNDED stand-in (never counted as proved): " + bres.get("bounds", ""),
            "bounded_per_clause": bres.get("per_clause"),
            "bounded_notes": bres.get("notes"),
            "bounded_wall_s": bres.get("wall_s"),
        })
    samples = []
    if pres:
        samples += pres["samples"][:4]
    if bres:
        samples += bres.get("samples", [])[:6]
    cov["samples"] = samples or [{"note": "no samples"}]
    cov["explanation"] = cfg["explanation"] + (" | checker fault: " + fault[:300] if fault else "")
    cov["known_findings_hit"] = {k: len(v[1]) for k, v in known_hit.items()}
    return {
        "property_id": prop, "tier": tier, "seed": seed, "level": level, "coverage": cov,
        "assumptions": assumptions, "wall_s": round(wall, 2), "violations": nviol,
    }


def _z3v():
    try:
        import z3

        return z3.get_version_string()
    except Exception:
        return "?"


def replay(prop, path):
    data = load_json(path if os.path.isabs(path) else os.path.join(ROOT, path), None)
    if data is None:
        print("cannot read replay file")
        return 3
    rp = data.get("replay") or {}
    if rp.get("kind") == "contract":
        from pyvc.prop import load_all_contracts
        from pyvc.native import replay_inputs

        reg = load_all_contracts()
        c = reg.contracts[rp["contract"]]
        inputs = rp.get("inputs") or rp.get("model_inputs")
        if not inputs:
            print(f"no concrete input recorded; failed obligation: {rp.get('obligation')} (solver: {rp.get('solver')})")
            print(json.dumps(rp.get("model"), indent=1)[:2000])
            return 1
        r = replay_inputs(c, inputs)
        print(f"replay {rp['contract']}: {r.verdict} {r.detail}")
        return 1 if r.verdict == "fail" else 0
    # bounded stand-in replay
    p = subprocess.run([VENV_PY, "-m", "bounded.run", prop, "--replay", path if os.path.isabs(path) else os.path.join(ROOT, path)], cwd=ROOT)
    return p.returncode


if __name__ == "__main__":
    sys.exit(main())
