#!/usr/bin/env python3
"""Regenerate MANIFEST.json from props.py (claimed checks) and properties.jsonl."""
import json, os, sys
ROOT = os.path.dirname(os.path.dirname(os.path.abspath(__file__)))
sys.path.insert(0, ROOT)
from props import PROPS, TECHNIQUE, NOT_APPLICABLE
props = [json.loads(l) for l in open(os.path.join(ROOT, "properties.jsonl"))]
m = {
 "version": 1,
 "setup_cmd": "python3-vt tools/selftest.py",
 "hooks": {
  "guard": "RTHALLEY_DNSPYTHON_VERIF",
  "enable": "no hooks: contracts are sidecar files under /verif/contracts keyed by qualified function name; /repo is read (inspect.getsource of the live functions), never instrumented",
  "baseline_off_cmd": "cd /repo && /venv/bin/python -m pytest -ra -q -p no:cacheprovider --timeout=900 --continue-on-collection-errors",
  "source_commits": [],
  "add_only": True
 },
 "engines": [
  {"name": "pyvc", "path": "pyvc/", "serves_properties": sorted(PROPS), "kind_free_text": "contract-based deductive verifier written here: path-enumerating symbolic executor over the ast of the real functions (re-read every run), loop invariants/variants, modular callee contracts, quantifier-free VCs discharged by z3 5.1 (in-process), z3 CLI and cvc5 1.0.3"},
  {"name": "bounded", "path": "bounded/", "serves_properties": sorted(PROPS), "kind_free_text": "bounded stand-ins: native execution of the real code against the same clauses on exhaustive small scopes and seeded inputs; labelled bounded, never counted as proved"}
 ],
 "checks": [],
 "notes": "See DESIGN.md. Exit codes: 0 held, 1 violation (VIOLATION line), 3 checker fault. VERIF_REPO selects the tree (default /repo).",
 "not_applicable": []
}
for p in props:
    pid = p["id"]
    if pid in PROPS:
        c = PROPS[pid]
        m["checks"].append({
            "property_id": pid,
            "quick_cmd": f"./check {pid} --tier quick",
            "thorough_cmd": f"./check {pid} --tier thorough",
            "evidence_file": f"/verif/evidence/{pid}.json",
            "replay_cmd_template": f"./check {pid} --replay {{path}}",
            "engine": "pyvc+bounded",
            "level_claimed": {"category": c["level"], "text": c["explanation"], "design_ref": f"DESIGN.md section 4 ({pid})"},
            "level_note": "; ".join(c["assumptions"]),
            "technique": TECHNIQUE.get(pid, "contract-based deductive verification (pyvc VCs from the real source, z3/cvc5) + bounded native stand-in"),
        })
    else:
        m["not_applicable"].append({"property_id": pid, "reason": NOT_APPLICABLE.get(pid, "check not built yet (in progress; planned per DESIGN.md section 4)")})
json.dump(m, open(os.path.join(ROOT, "MANIFEST.json"), "w"), indent=1)
import jsonschema
jsonschema.validate(m, json.load(open("/root/.vp/MANIFEST.schema.json")))
print("MANIFEST ok:", len(m["checks"]), "checks,", len(m["not_applicable"]), "not applicable")
