#!/usr/bin/env python3
"""setup_cmd: engine self-test (nothing is downloaded or compiled).
 1. a contract known to verify must verify (dns.wirebase.Parser.seek);
 2. canary: the same contract with a false postcondition must produce a sat obligation;
 3. vacuity canaries (false goal fails; contradictory instantiated hypotheses are reported vacuous);
 4. the solvers answer."""
import os, sys
ROOT = os.path.dirname(os.path.dirname(os.path.abspath(__file__)))
REPO = os.environ.get("VERIF_REPO", "/repo")
sys.path[:0] = [ROOT, REPO]
import copy
from pyvc.prop import load_all_contracts
from pyvc.api import verify_contract
reg = load_all_contracts()
c = reg.contracts["dns.wirebase.Parser.seek"]
r = verify_contract(reg, c)
assert r["status"] == "proved", r
c2 = copy.copy(c); c2.ensures = list(c.ensures) + ["self.current == where + 1"]
reg.contracts[c.name] = c2
r2 = verify_contract(reg, c2)
assert r2["status"] == "failed", r2["status"]
# 3. vacuity canaries on the heap lemma: a false goal must fail, contradictory hypotheses must be reported vacuous,
#    and dropping a postcondition of the callee contract must break the lemma (the lemma really uses it)
from pyvc.api import verify_lemma
base = reg.lemmas["lru_unlink_removes_from_ring"]
l = copy.copy(base); l.goals = ["j == j + 1"]
assert verify_lemma(reg, l)["status"] == "failed"
l = copy.copy(base); l.pre_hyps = list(base.pre_hyps) + ["all(order[i] == order[i + 1] for i in range(len(order) - 1))"]
assert verify_lemma(reg, l)["status"] == "vacuous"
u = reg.contracts["dns.resolver.LRUCacheNode.unlink"]
full = list(u.ensures)
u.ensures = full[1:]
try:
    assert verify_lemma(reg, copy.copy(base))["status"] == "failed"
finally:
    u.ensures = full
from pyvc.path import external_solve
assert external_solve("(declare-const x Int)(assert (> x 3))(assert (< x 3))", 10)[0] == "unsat"
print("selftest ok: verify, canary, vacuity canaries, external solvers")
