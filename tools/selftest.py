#!/usr/bin/env python3
"""setup_cmd: engine self-test (nothing is downloaded or compiled).
 1. a contract known to verify must verify (dns.wirebase.Parser.seek);
 2. canary: the same contract with a false postcondition must produce a sat obligation;
 3. the solvers answer."""
import os, sys
ROOT = os.path.dirname(os.path.dirname(os.path.abspath(__file__)))
REPO = os.environ.get("VERIF_REPO", "/repo")
sys.path[:0] = [ROOT, REPO]
import copy
from pyvc.prop import load_all_contracts
from pyvc.api import verify_contract
reg = load_all_contracts()
c = reg.contracts["dns.wirebase.Parser.seek"]
r = verify_contract(reg, c)
assert r["status"] == "proved", r
c2 = copy.copy(c); c2.ensures = list(c.ensures) + ["self.current == where + 1"]
reg.contracts[c.name] = c2
r2 = verify_contract(reg, c2)
assert r2["status"] == "failed", r2["status"]
from pyvc.path import external_solve
assert external_solve("(declare-const x Int)(assert (> x 3))(assert (< x 3))", 10)[0] == "unsat"
print("selftest ok: verify, canary, external solvers")
