#!/bin/sh
# run every registered quick check (N at a time) and print a summary
cd "$(dirname "$0")/.." || exit 3
TIER="${1:-quick}"; J="${2:-4}"
mkdir -p /tmp/runall
ls props.py >/dev/null
python3-vt - <<PY > /tmp/runall/ids
import sys; sys.path.insert(0,'.')
from props import PROPS
print("\n".join(sorted(PROPS)))
PY
cat /tmp/runall/ids | xargs -P "$J" -I{} sh -c "./check {} --tier $TIER > /tmp/runall/{}.out 2>&1; echo {} rc=\$?"
for p in $(cat /tmp/runall/ids); do tail -1 /tmp/runall/$p.out; done
grep -h "^VIOLATION\|^  clause\|^KNOWN\|^DEGRADED\|CHECKER" /tmp/runall/*.out | cut -c1-300
