#!/bin/sh
# run the repository's pinned suite (in parallel); prints the summary line
cd "${1:-/repo}" && /venv/bin/python -m pytest -q -p no:cacheprovider --timeout=900 -n 12 tests 2>&1 | tail -4
