#!/usr/bin/env python3
"""Markdown table of the seeded property-breaking changes and what caught them (from seeded/*/meta.json, as
last written by tools/seedtest.py run)."""
import glob, json, os, re

ROOT = os.path.dirname(os.path.dirname(os.path.abspath(__file__)))
print("| change | file | caught | deductive obligations that fail | bounded clauses that fail |")
print("|---|---|---|---|---|")
tot = caught = ded = 0
for d in sorted(glob.glob(os.path.join(ROOT, "seeded", "*", ""))):
    name = os.path.basename(d.rstrip("/"))
    m = json.load(open(d + "meta.json"))
    det = m.get("detected_by") or {}
    f = re.sub(r"^b/", "", [l for l in open(d + "patch.diff") if l.startswith("+++")][0].split()[1])
    dd, bb = [], []
    for l in det.get("violations") or []:
        l = l.strip()
        if not l.startswith("clause="):
            continue
        c = l[7:].split(":")[0]
        (bb if re.match(r"^C\d\d\.", c) else dd).append(c)
    tot += 1
    ok = det.get("exit") == 1
    caught += ok
    ded += bool(dd)
    short = lambda xs: ", ".join(sorted(set(re.sub(r"^dns\.", "", x)[:70] for x in xs))[:3]) or "-"
    print(f"| {name} | {f} | {'yes' if ok else 'NO'} ({det.get('check', '').split()[-1] if det else ''}) | {short(dd)} | {short(bb)} |")
print()
print(f"{caught} of {tot} caught; {ded} of them by at least one deductive obligation (a contract of the ledger that no longer verifies).")
