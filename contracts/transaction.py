"""Contracts for the life cycle of dns.transaction.Transaction (C10, C13): ended transactions refuse use; leaving the
context commits on a clean exit and rolls back on an exception; the ended flag is set whatever _end_transaction does."""
from pyvc.api import REG
from pyvc.sym import T
import pyvc.spec  # noqa: F401

# ghost field `outcome`: 0 = still open, 1 = _end_transaction(True) ran (commit), 2 = _end_transaction(False) ran (rollback)
REG.declare_class("dns.transaction.Transaction", _ended=T.bool, outcome=T.range(0, 2), read_only=T.bool)
TX = T.obj("dns.transaction.Transaction")

REG.contract(
    "dns.transaction.Transaction._end_transaction",
    params={"self": TX, "commit": T.bool},
    modifies={"self.outcome": None},
    raises=[("builtins.Exception", "True", "may")],
    ensures=["self.outcome == (1 if commit else 2)"],
    ensures_raise=["self.outcome == old_self.outcome or self.outcome == 2"],
    status="assumed", props=["C10", "C13"],
    note="abstract hook implemented by each zone kind (their effect on the zone is the subject of the bounded stand-ins): "
         "it commits or rolls back as told; if it raises, nothing was committed",
)

REG.contract(
    "dns.transaction.Transaction._check_ended",
    params={"self": TX},
    raises=[("dns.transaction.AlreadyEnded", "self._ended")],
    ensures=["self._ended == old_self._ended and self.outcome == old_self.outcome"],
    props=["C10", "C13"],
    note="ended transactions refuse further use",
)

_END_POST = ["self._ended"]
REG.contract(
    "dns.transaction.Transaction._end",
    params={"self": TX, "commit": T.bool},
    modifies={"self._ended": None, "self.outcome": None},
    raises=[("dns.transaction.AlreadyEnded", "self._ended"), ("builtins.Exception", "not self._ended", "may")],
    ensures=["self._ended", "self.outcome == (1 if commit else 2)"],
    ensures_raise={"dns.transaction.AlreadyEnded": ["self._ended and self.outcome == old_self.outcome"],
                   "builtins.Exception": ["self._ended", "self.outcome == old_self.outcome or self.outcome == 2"]},
    props=["C10", "C13"],
    note="_end: refuses an ended transaction without touching it; otherwise the transaction is ended whatever happens, "
         "and a failing commit never counts as committed",
)

for _name, _flag, _out in (("commit", True, 1), ("rollback", False, 2)):
    REG.contract(
        f"dns.transaction.Transaction.{_name}",
        params={"self": TX},
        modifies={"self._ended": None, "self.outcome": None},
        raises=[("dns.transaction.AlreadyEnded", "self._ended"), ("builtins.Exception", "not self._ended", "may")],
        ensures=["self._ended", f"self.outcome == {_out}"],
        ensures_raise={"dns.transaction.AlreadyEnded": ["self.outcome == old_self.outcome"],
                       "builtins.Exception": ["self._ended", "self.outcome == old_self.outcome or self.outcome == 2"]},
        props=["C10", "C13"],
        note=f"{_name}() ends the transaction with outcome {_name}; AlreadyEnded exactly when it had ended before",
    )

REG.contract(
    "dns.transaction.Transaction.__exit__",
    params={"self": TX, "exc_type": T.oneof(None, ValueError), "exc_val": T.const(None), "exc_tb": T.const(None)},
    modifies={"self._ended": None, "self.outcome": None},
    raises=[("builtins.Exception", "not self._ended", "may")],
    returns=T.bool,
    ensures=[
        "result == False",  # the exception that ended the block is never swallowed
        "self._ended",
        # clean exit commits, exit through an exception rolls back; an explicitly ended transaction is left alone
        "old_self._ended or self.outcome == (1 if exc_type is None else 2)",
        "(not old_self._ended) or self.outcome == old_self.outcome",
    ],
    ensures_raise={"builtins.Exception": ["self._ended", "self.outcome == old_self.outcome or self.outcome == 2"]},
    props=["C10", "C13"],
    note="leaving the context: commit exactly on a clean exit, rollback exactly when an exception is propagating; "
         "an error is never reported for a transaction whose commit hook completed",
)


# ----------------------------------------------------------------------------- the hook, for zone transactions
# dns.zone.Transaction._end_transaction is the implementation behind the assumed hook above for plain, versioned and
# B-tree zones.  The zone it talks to is a stub that records which of its three entry points was called (their real
# counterparts in dns.versioned.Zone are under contract in contracts/versioned.py).


class _ZoneStub:
    def _end_read(self, txn):
        raise NotImplementedError

    def _end_write(self, txn):
        raise NotImplementedError

    def _commit_version(self, txn, version, origin):
        raise NotImplementedError


class _ManagerStub:
    pass


def _any_factory(version):  # stands for manager.immutable_version_factory / ImmutableVersion
    raise NotImplementedError


_P = "contracts.transaction."
ZST, VERS = _P + "_ZoneStub", "dns.zone.WritableVersion"
# ended_read / ended_write / committed: how often each entry point was called; committed_version: with which version
REG.declare_heap_class(ZST, ended_read=T.int, ended_write=T.int, committed=T.int, committed_version=T.int, committed_origin=T.int,
                       committed_made_from=T.int)
# a version: the set of changed names (only its size matters), its origin, and (for an immutable copy) the identity of
# the writable version it was made from
_WV = T.obj(VERS, raw=True, changed=T.list_of(T.int), origin=T.int, made_from=T.int)
_ZW = [(ZST, "ended_read"), (ZST, "ended_write"), (ZST, "committed"), (ZST, "committed_version"), (ZST, "committed_origin"),
       (ZST, "committed_made_from")]
_KEEP = lambda *fs: [f"self.{f} == old_self.{f}" for f in ("ended_read", "ended_write", "committed") if f not in fs]
REG.contract(ZST + "._end_read", params={"self": T.ref(ZST)}, raises=[], modifies_heap=_ZW,
             ensures=["self.ended_read == old_self.ended_read + 1"] + _KEEP("ended_read"), status="assumed", props=["C10", "C13"],
             note="stub zone: a reader was unregistered (real counterpart: dns.versioned.Zone._end_read, under contract)")
REG.contract(ZST + "._end_write", params={"self": T.ref(ZST)}, raises=[], modifies_heap=_ZW,
             ensures=["self.ended_write == old_self.ended_write + 1"] + _KEEP("ended_write"), status="assumed", props=["C10", "C13"],
             note="stub zone: the write permission was given back without publishing anything (real counterpart: _end_write)")
REG.contract(ZST + "._commit_version", params={"self": T.ref(ZST), "txn": T.int, "version": _WV, "origin": T.int},
             raises=[], modifies_heap=_ZW,
             ensures=["self.committed == old_self.committed + 1", "self.committed_version == idof(version)",
                      "self.committed_origin == origin",
                      "self.committed_made_from == version.made_from"] + _KEEP("committed"),
             status="assumed", props=["C10", "C13"],
             note="stub zone: a version was published (real counterpart: _commit_version_unlocked, under contract)")


def _factory_model(I, args, kwargs):
    from pyvc.models import key_of
    from pyvc.sym import SInt, SObj
    import dns.zone

    src = args[0]
    return SObj(dns.zone.ImmutableVersion, {"made_from": SInt(key_of(I, src)), "origin": src.fields["origin"]}, label="immutable_version")


REG.external(_any_factory, _factory_model, "immutable-version factory: returns a new version object made from the writable version it is given")

import dns.zone as _dz  # noqa: E402

_orig_resolve_len = None
_ZTX = T.obj("dns.zone.Transaction", raw=True, zone=T.ref(ZST), version=_WV, read_only=T.bool, make_immutable=T.bool,
             manager=T.obj(_P + "_ManagerStub", raw=True, immutable_version_factory=T.const(_any_factory)))
_DOES_COMMIT = "((not self.read_only) and commit and len(self.version.changed) > 0)"
_Z, _OZ = "self.zone", "snap(self.zone, old_self)"
REG.contract(
    "dns.zone.Transaction._end_transaction",
    params={"self": _ZTX, "commit": T.bool},
    modifies_heap=_ZW,
    raises=[],
    ensures=[
        # a read transaction only unregisters itself
        f"(not self.read_only) or ({_Z}.ended_read == {_OZ}.ended_read + 1 and {_Z}.committed == {_OZ}.committed and {_Z}.ended_write == {_OZ}.ended_write)",
        # a write transaction publishes exactly when it is told to commit and something changed ...
        f"(not {_DOES_COMMIT}) or ({_Z}.committed == {_OZ}.committed + 1 and {_Z}.ended_write == {_OZ}.ended_write and {_Z}.ended_read == {_OZ}.ended_read)",
        # ... the version it built (made immutable through the factory when asked to), with that version's origin
        f"(not ({_DOES_COMMIT} and not self.make_immutable)) or {_Z}.committed_version == idof(self.version)",
        f"(not ({_DOES_COMMIT} and self.make_immutable)) or {_Z}.committed_made_from == idof(self.version)",
        f"(not {_DOES_COMMIT}) or {_Z}.committed_origin == self.version.origin",
        # otherwise (rollback, or a commit with nothing changed) nothing is published and the write permission is given back
        f"self.read_only or {_DOES_COMMIT} or ({_Z}.ended_write == {_OZ}.ended_write + 1 and {_Z}.committed == {_OZ}.committed and {_Z}.ended_read == {_OZ}.ended_read)",
    ],
    props=["C10", "C13"],
    note="the zone transaction's end hook: rollback never publishes, commit publishes exactly the version the transaction built "
         "(and only if something changed), a reader only unregisters; this discharges the assumed hook contract for zone "
         "transactions relative to the zone's three entry points",
)

# ---- the plain zone's three entry points (the versioned zone's are in contracts/versioned.py)
_PZ = T.obj("dns.zone.Zone", raw=True, nodes=T.int, origin=T.opt(T.int))
_PV = T.obj(VERS, raw=True, nodes=T.int, origin=T.int)
REG.contract("dns.zone.Zone._commit_version", params={"self": _PZ, "txn": T.int, "version": _PV, "origin": T.int},
             modifies={"self.nodes": None, "self.origin": T.opt(T.int)}, raises=[],
             ensures=["self.nodes == version.nodes", "(self.origin == old_self.origin) if (old_self.origin is not None) else (self.origin == origin)"],
             props=["C10", "C13"], note="plain zone commit: the version's node map becomes the zone's; the origin is set once")
for _m in ("_end_read", "_end_write"):
    REG.contract(f"dns.zone.Zone.{_m}", params={"self": _PZ, "txn": T.int}, raises=[],
                 ensures=["self.nodes == old_self.nodes", "(self.origin is None) == (old_self.origin is None)"],
                 props=["C10", "C13"], note="plain zone: ending a reader or rolling back a writer leaves the published node map untouched")


# ----------------------------------------------------------------------------- owner names: one storage form whatever the spelling (C10)
from contracts.name import NAME, ISABS, LAB  # noqa: E402

_NABS = ISABS("name")
_LN, _LO = "len(name.labels)", "len(origin.labels)"
_BELOW = (f"({_LO} <= {_LN} and all({LAB('name', 'm')} == {LAB('origin', 'm')} for m in range({_LO})))")
REG.contract(
    "dns.zone._validate_name",
    params={"name": NAME, "origin": T.opt(NAME), "relativize": T.bool},
    requires=["(origin is None) or " + ISABS("origin")],
    raises=[("builtins.KeyError", f"(origin is None) or ({_NABS} and not {_BELOW})"),
            ("builtins.KeyError", f"(origin is not None) and (not {_NABS})", "may")],
    returns=NAME,
    ensures=[
        # an absolute name under the origin: stored without the origin's labels in a relativized zone, as is otherwise
        f"(not ({_NABS} and relativize)) or (len(result.labels) == {_LN} - {_LO} and all(result.labels[k] == name.labels[k] for k in range({_LN} - {_LO})))",
        f"(not ({_NABS} and not relativize)) or (result is name)",
        # a relative name: stored as is in a relativized zone, with the origin appended otherwise
        f"(not ((not {_NABS}) and relativize)) or (result is name)",
        f"(not ((not {_NABS}) and not relativize)) or (len(result.labels) == {_LN} + {_LO} "
        f"and all(result.labels[k] == name.labels[k] for k in range({_LN})) and all(result.labels[{_LN} + k] == origin.labels[k] for k in range({_LO})))",
    ],
    props=["C10"],
    note="_validate_name maps every spelling of an owner name to the zone's one storage form (relative labels in a "
         "relativized zone, absolute otherwise); names outside the zone and a missing origin are KeyError; a relative name that "
         "would be too long is KeyError too (modular over the Name contracts)",
)

REG.lemma(
    "validate_name_spelling_independent",
    params={"rel": NAME, "absn": NAME, "origin": NAME, "va": NAME, "vr": NAME, "relativize": T.bool},
    hyps=[
        ISABS("origin"), ISABS("absn"), "not " + ISABS("rel"),
        # absn is rel followed by the origin's labels (the two spellings of one owner name)
        "len(absn.labels) == len(rel.labels) + len(origin.labels)",
        "all(absn.labels[k] == rel.labels[k] for k in range(len(rel.labels)))",
        "all(absn.labels[i] == origin.labels[i - len(rel.labels)] for i in range(len(rel.labels), len(absn.labels)))",
        # va, vr: what the contract of _validate_name says about the results for the two spellings
        "(not relativize) or (len(va.labels) == len(absn.labels) - len(origin.labels) and all(va.labels[k] == absn.labels[k] for k in range(len(absn.labels) - len(origin.labels))))",
        "relativize or (len(va.labels) == len(absn.labels) and all(va.labels[k] == absn.labels[k] for k in range(len(absn.labels))))",
        "(not relativize) or (len(vr.labels) == len(rel.labels) and all(vr.labels[k] == rel.labels[k] for k in range(len(rel.labels))))",
        "relativize or (len(vr.labels) == len(rel.labels) + len(origin.labels) and all(vr.labels[k] == rel.labels[k] for k in range(len(rel.labels))) "
        "and all(vr.labels[i] == origin.labels[i - len(rel.labels)] for i in range(len(rel.labels), len(rel.labels) + len(origin.labels))))",
    ],
    goals=["len(va.labels) == len(vr.labels)", "all(va.labels[k] == vr.labels[k] for k in range(len(va.labels)))"],
    props=["C10"],
    note="over the postconditions of _validate_name: the relative and the absolute spelling of one owner name are stored "
         "under label-for-label the same key, in relativized and non-relativized zones alike",
)
