"""Contracts for the life cycle of dns.transaction.Transaction (C10, C13): ended transactions refuse use; leaving the
context commits on a clean exit and rolls back on an exception; the ended flag is set whatever _end_transaction does."""
from pyvc.api import REG
from pyvc.sym import T
import pyvc.spec  # noqa: F401

# ghost field `outcome`: 0 = still open, 1 = _end_transaction(True) ran (commit), 2 = _end_transaction(False) ran (rollback)
REG.declare_class("dns.transaction.Transaction", _ended=T.bool, outcome=T.range(0, 2), read_only=T.bool)
TX = T.obj("dns.transaction.Transaction")

REG.contract(
    "dns.transaction.Transaction._end_transaction",
    params={"self": TX, "commit": T.bool},
    modifies={"self.outcome": None},
    raises=[("builtins.Exception", "True", "may")],
    ensures=["self.outcome == (1 if commit else 2)"],
    ensures_raise=["self.outcome == old_self.outcome or self.outcome == 2"],
    status="assumed", props=["C10", "C13"],
    note="abstract hook implemented by each zone kind (their effect on the zone is the subject of the bounded stand-ins): "
         "it commits or rolls back as told; if it raises, nothing was committed",
)

REG.contract(
    "dns.transaction.Transaction._check_ended",
    params={"self": TX},
    raises=[("dns.transaction.AlreadyEnded", "self._ended")],
    ensures=["self._ended == old_self._ended and self.outcome == old_self.outcome"],
    props=["C10", "C13"],
    note="ended transactions refuse further use",
)

_END_POST = ["self._ended"]
REG.contract(
    "dns.transaction.Transaction._end",
    params={"self": TX, "commit": T.bool},
    modifies={"self._ended": None, "self.outcome": None},
    raises=[("dns.transaction.AlreadyEnded", "self._ended"), ("builtins.Exception", "not self._ended", "may")],
    ensures=["self._ended", "self.outcome == (1 if commit else 2)"],
    ensures_raise={"dns.transaction.AlreadyEnded": ["self._ended and self.outcome == old_self.outcome"],
                   "builtins.Exception": ["self._ended", "self.outcome == old_self.outcome or self.outcome == 2"]},
    props=["C10", "C13"],
    note="_end: refuses an ended transaction without touching it; otherwise the transaction is ended whatever happens, "
         "and a failing commit never counts as committed",
)

for _name, _flag, _out in (("commit", True, 1), ("rollback", False, 2)):
    REG.contract(
        f"dns.transaction.Transaction.{_name}",
        params={"self": TX},
        modifies={"self._ended": None, "self.outcome": None},
        raises=[("dns.transaction.AlreadyEnded", "self._ended"), ("builtins.Exception", "not self._ended", "may")],
        ensures=["self._ended", f"self.outcome == {_out}"],
        ensures_raise={"dns.transaction.AlreadyEnded": ["self.outcome == old_self.outcome"],
                       "builtins.Exception": ["self._ended", "self.outcome == old_self.outcome or self.outcome == 2"]},
        props=["C10", "C13"],
        note=f"{_name}() ends the transaction with outcome {_name}; AlreadyEnded exactly when it had ended before",
    )

REG.contract(
    "dns.transaction.Transaction.__exit__",
    params={"self": TX, "exc_type": T.oneof(None, ValueError), "exc_val": T.const(None), "exc_tb": T.const(None)},
    modifies={"self._ended": None, "self.outcome": None},
    raises=[("builtins.Exception", "not self._ended", "may")],
    returns=T.bool,
    ensures=[
        "result == False",  # the exception that ended the block is never swallowed
        "self._ended",
        # clean exit commits, exit through an exception rolls back; an explicitly ended transaction is left alone
        "old_self._ended or self.outcome == (1 if exc_type is None else 2)",
        "(not old_self._ended) or self.outcome == old_self.outcome",
    ],
    ensures_raise={"builtins.Exception": ["self._ended", "self.outcome == old_self.outcome or self.outcome == 2"]},
    props=["C10", "C13"],
    note="leaving the context: commit exactly on a clean exit, rollback exactly when an exception is propagating; "
         "an error is never reported for a transaction whose commit hook completed",
)
