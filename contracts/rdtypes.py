"""Relational wire round-trip obligations per rdata class (C02)."""
import contracts.wire  # noqa: F401  Parser contracts
from pyvc.api import REG

import dns.rdataclass
import dns.rdatatype

import importlib
import pkgutil

import dns.rdtypes

IN = int(dns.rdataclass.IN)
ANY = int(dns.rdataclass.ANY)


def _discover():
    """every implemented rdata class found by walking dns/rdtypes (not listed by hand)"""
    out = []
    for sub, rdclass in (("ANY", IN), ("IN", IN), ("CH", int(dns.rdataclass.CH))):
        pkg = importlib.import_module(f"dns.rdtypes.{sub}")
        for m in sorted(pkgutil.iter_modules(pkg.__path__), key=lambda x: x.name):
            if m.name.startswith("_"):
                continue
            try:
                mod = importlib.import_module(f"dns.rdtypes.{sub}.{m.name}")
                cls = getattr(mod, m.name)
                rdtype = int(dns.rdatatype.from_text(m.name.replace("_", "-")))
            except Exception:
                continue
            name = m.name if sub != "CH" else "CH-" + m.name
            out.append((name, f"dns.rdtypes.{sub}.{m.name}.{m.name}", rdclass, rdtype))
    return out


# classes whose round trip is not discharged by pyvc yet, with the reason (they are covered by the bounded stand-in only)
NOT_ATTEMPTED = {
    "A": "address kept as text: str.encode / inet_aton of a symbolic string has no model",
    "AAAA": "call of 'hexlify' with symbolic arguments has no model",
    "AFSDB": "embedded domain name: needs a functional decoder contract (get_name vs wire_enc), not built yet",
    "AMTRELAY": "relay is one of four shapes chosen by a type octet (None / IPv4 / IPv6 / name): loop state of mixed type",
    "APL": "list of address-prefix items with text addresses: exploration does not finish within 240 s",
    "AVC": "codec loops over items (needs a loop invariant) / solver time above the 150 s limit",
    "CH-A": "embedded domain name: needs a functional decoder contract (get_name vs wire_enc), not built yet",
    "CNAME": "embedded domain name: needs a functional decoder contract (get_name vs wire_enc), not built yet",
    "CSYNC": "codec loops over items (needs a loop invariant) / solver time above the 150 s limit",
    "DNAME": "embedded domain name: needs a functional decoder contract (get_name vs wire_enc), not built yet",
    "DSYNC": "embedded domain name: needs a functional decoder contract (get_name vs wire_enc), not built yet",
    "GPOS": "isdigit on a string of unknown length",
    "HIP": "codec loops over items (needs a loop invariant) / solver time above the 150 s limit",
    "HTTPS": "for loop at line 5 over a symbolic sequence needs a loop invariant",
    "IPSECKEY": "gateway is one of four shapes chosen by a type octet (None / IPv4 / IPv6 / name): loop state of mixed type",
    "KX": "embedded domain name: needs a functional decoder contract (get_name vs wire_enc), not built yet",
    "L32": "address kept as text: str.encode / inet_aton of a symbolic string has no model",
    "L64": "no source for 'RdataStyle.__init__': could not get source code",
    "LOC": "constructor <class 'float'> with symbolic arguments has no model",
    "LP": "embedded domain name: needs a functional decoder contract (get_name vs wire_enc), not built yet",
    "MX": "embedded domain name: needs a functional decoder contract (get_name vs wire_enc), not built yet",
    "NAPTR": "embedded domain name: needs a functional decoder contract (get_name vs wire_enc), not built yet",
    "NID": "no source for 'RdataStyle.__init__': could not get source code",
    "NINFO": "codec loops over items (needs a loop invariant) / solver time above the 150 s limit",
    "NS": "embedded domain name: needs a functional decoder contract (get_name vs wire_enc), not built yet",
    "NSAP_PTR": "embedded domain name: needs a functional decoder contract (get_name vs wire_enc), not built yet",
    "NSEC": "codec loops over items (needs a loop invariant) / solver time above the 150 s limit",
    "NSEC3": "codec loops over items (needs a loop invariant) / solver time above the 150 s limit",
    "OPT": "call of 'ceil' with symbolic arguments has no model",
    "PTR": "embedded domain name: needs a functional decoder contract (get_name vs wire_enc), not built yet",
    "PX": "embedded domain name: needs a functional decoder contract (get_name vs wire_enc), not built yet",
    "RESINFO": "codec loops over items (needs a loop invariant) / solver time above the 150 s limit",
    "RP": "embedded domain name: needs a functional decoder contract (get_name vs wire_enc), not built yet",
    "RRSIG": "embedded domain name: needs a functional decoder contract (get_name vs wire_enc), not built yet",
    "RT": "embedded domain name: needs a functional decoder contract (get_name vs wire_enc), not built yet",
    "SIG": "embedded domain name: needs a functional decoder contract (get_name vs wire_enc), not built yet",
    "SOA": "embedded domain name: needs a functional decoder contract (get_name vs wire_enc), not built yet",
    "SPF": "codec loops over items (needs a loop invariant) / solver time above the 150 s limit",
    "SRV": "embedded domain name: needs a functional decoder contract (get_name vs wire_enc), not built yet",
    "SVCB": "for loop at line 5 over a symbolic sequence needs a loop invariant",
    "TKEY": "codec loops over items (needs a loop invariant) / solver time above the 150 s limit",
    "TSIG": "codec loops over items (needs a loop invariant) / solver time above the 150 s limit",
    "TXT": "codec loops over items (needs a loop invariant) / solver time above the 150 s limit",
    "WALLET": "codec loops over items (needs a loop invariant) / solver time above the 150 s limit",
    "WKS": "address kept as text: str.encode / inet_aton of a symbolic string has no model"
}

# minutes of solver time (many validation branches): verified in the thorough tier only
HEAVY = {"ZONEMD", "DS", "CDS", "DLV", "HINFO", "ISDN"}

for tname, cq, rdclass, rdtype in _discover():
    if tname in NOT_ATTEMPTED:
        continue
    REG.roundtrip(tname, cls=cq, rdclass=rdclass, rdtype=rdtype, heavy=tname in HEAVY,
                  note=f"{tname}: decode(w) = x  =>  encode(x) succeeds and decode(encode(x)) = x field by field, consuming exactly; and every value the constructor accepts survives encode-then-decode")
