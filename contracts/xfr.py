"""Contract for the inbound transfer state machine (C13): dns.xfr.Inbound.process_message / __exit__.

The *real* function is verified; its inputs are abstracted through an interface: the message, its records, names,
the transaction manager and the transaction are stub heap classes whose methods carry assumed contracts (what the code
may rely on: name identity, the in-zone predicate, the content signature of an rdataset, the serial of its SOA, and a
transaction that counts what it was told).  What is proved is the discipline of the state machine itself: when it
commits, that it commits last and at most once, and that every error leaves the transaction uncommitted."""
from pyvc.api import REG, loop
from pyvc.sym import T
import pyvc.spec  # noqa: F401


class _StubError(Exception):
    """whatever a transaction may raise when a change is refused (distinct from every error of the code under contract,
    so that an exception raised by a gap in the model cannot hide behind it)"""


class _Name:
    def is_subdomain(self, other):
        raise NotImplementedError


class _SOA:
    pass


class _RRset:
    def copy(self):
        raise NotImplementedError

    def __getitem__(self, i):
        raise NotImplementedError

    def __eq__(self, other):
        raise NotImplementedError

    __hash__ = None


class _Txn:
    def replace(self, name, rdataset):
        raise NotImplementedError

    def add(self, name, rdataset):
        raise NotImplementedError

    def delete_exact(self, name, rdataset):
        raise NotImplementedError

    def commit(self):
        raise NotImplementedError

    def rollback(self):
        raise NotImplementedError


class _Mgr:
    def writer(self, replacement):
        raise NotImplementedError


class _Msg:
    def rcode(self):
        raise NotImplementedError


_P = "contracts.xfr."
NAME, SOA, RR, TXN, MGR, MSG = (_P + n for n in ("_Name", "_SOA", "_RRset", "_Txn", "_Mgr", "_Msg"))
REG.declare_heap_class(NAME, in_zone=T.bool)
REG.declare_heap_class(SOA, serial=T.range(0, 0xFFFFFFFF))
REG.declare_heap_class(RR, name=T.ref(NAME), rdtype=T.range(0, 65535), sig=T.int, first=T.ref(SOA))
# committed/rolled: what the transaction was told; ops: how many changes it was given
REG.declare_heap_class(TXN, committed=T.bool, rolled=T.bool, ops=T.int, replacement=T.bool)
REG.declare_heap_class(MGR)
_TX_W = [(TXN, "committed"), (TXN, "rolled"), (TXN, "ops")]
_ONLY = lambda f, who="self": f"all((t is {who}) or (t.{f} == snap(t, old_self).{f}) for t in refs('{TXN}'))"
_SAME = lambda f: f"all(t.{f} == snap(t, old_self).{f} for t in refs('{TXN}'))"

REG.contract(NAME + ".is_subdomain", params={"self": T.ref(NAME), "other": T.ref(NAME)}, raises=[], returns=T.bool,
             ensures=["result == self.in_zone"], status="assumed", props=["C13"],
             note="stub: whether a record's owner is at or below the zone origin (the only name it is compared with)")
REG.contract(RR + ".copy", params={"self": T.ref(RR)}, raises=[], returns=T.ref(RR),
             ensures=["result.sig == self.sig and result.first.serial == self.first.serial and result.rdtype == self.rdtype"],
             status="assumed", props=["C13"], note="stub: a copy has the same content")
REG.contract(RR + ".__getitem__", params={"self": T.ref(RR), "i": T.int}, raises=[], returns=T.ref(SOA),
             ensures=["result is self.first"], status="assumed", props=["C13"], note="stub: first rdata of the rdataset")
REG.contract(RR + ".__eq__", params={"self": T.ref(RR), "other": T.ref(RR)}, raises=[], returns=T.bool,
             ensures=["result == (self.sig == other.sig)"], status="assumed", props=["C13"],
             note="stub: rdatasets are equal iff their content signature is")
for _m in ("replace", "add", "delete_exact"):
    REG.contract(f"{TXN}.{_m}", params={"self": T.ref(TXN)}, raises=[(_P + "_StubError", "True", "may")],
                 ensures=["self.ops == old_self.ops + 1", _ONLY("ops"), _SAME("committed"), _SAME("rolled")],
                 ensures_raise=[_SAME("ops"), _SAME("committed"), _SAME("rolled")],
                 modifies_heap=_TX_W, status="assumed", props=["C13"],
                 note="stub transaction: one more change recorded, or an exception and nothing recorded")
REG.contract(TXN + ".commit", params={"self": T.ref(TXN)}, raises=[(_P + "_StubError", "True", "may")],
             ensures=["self.committed", _ONLY("committed"), _SAME("rolled"), _SAME("ops")],
             ensures_raise=[_SAME("committed"), _SAME("ops"), _ONLY("rolled")],
             modifies_heap=_TX_W, status="assumed", props=["C13"],
             note="stub transaction: commit either takes effect or raises without effect (proved for the real one: Transaction._end)")
REG.contract(TXN + ".rollback", params={"self": T.ref(TXN)}, raises=[],
             ensures=["self.rolled", _ONLY("rolled"), _SAME("committed"), _SAME("ops")],
             modifies_heap=_TX_W, status="assumed", props=["C13"], note="stub transaction: rollback cannot fail")
REG.contract(MGR + ".writer", params={"self": T.ref(MGR), "replacement": T.bool}, raises=[], returns=T.ref(TXN),
             ensures=["(not result.committed) and (not result.rolled) and result.ops == 0 and result.replacement == replacement"],
             status="assumed", props=["C13"], note="stub manager: a new write transaction is open and empty")
REG.contract(MSG + ".rcode", params={"self": T.obj(MSG, raw=True, rc=T.range(0, 4095))}, raises=[], returns=T.int,
             ensures=["result == self.rc"], status="assumed", props=["C13"], note="stub message: its rcode")

import dns.rdatatype  # noqa: E402

INB = T.obj(
    "dns.xfr.Inbound", raw=True,
    txn_manager=T.ref(MGR), txn=T.ref(TXN, nullable=True), rdtype=T.int,
    incremental=T.bool, serial=T.opt(T.range(0, 0xFFFFFFFF)), is_udp=T.bool, origin=T.ref(NAME),
    soa_rdataset=T.ref(RR, nullable=True), done=T.bool, expecting_SOA=T.bool, delete_mode=T.bool,
)
MESSAGE = T.obj(MSG, raw=True, rc=T.range(0, 4095), question=T.const(()), answer=T.list_of(T.ref(RR)))
_NO_COMMIT = f"all(t.committed == snap(t, old_self).committed for t in refs('{TXN}'))"

_S0 = "message.answer[0].first.serial"
_FIRST_IXFR = ("(message.rc == 0 and self.soa_rdataset is None and self.incremental and len(message.answer) > 0 "
               "and (message.answer[0].name is self.origin) and message.answer[0].rdtype == 6)")
# RFC 1982: the server's serial is behind the base serial
_BACK = (f"((({_S0} < self.serial and self.serial - {_S0} < 2**31) or ({_S0} > self.serial and {_S0} - self.serial > 2**31)) "
         "if self.serial is not None else False)")
REG.contract(
    "dns.xfr.Inbound.process_message",
    heavy=True,
    params={"self": INB, "message": MESSAGE},
    # state invariant of an Inbound between messages: an open transaction is neither committed nor rolled back;
    # an IXFR has a base serial; once done by commit the transaction is gone
    requires=[
        "(self.txn is None) or ((not self.txn.committed) and (not self.txn.rolled))",
        "(not self.incremental) or (self.serial is not None)",
    ],
    modifies={"self.txn": T.ref(TXN, nullable=True), "self.soa_rdataset": T.ref(RR, nullable=True), "self.done": None,
              "self.expecting_SOA": None, "self.delete_mode": None, "self.incremental": None, "self.serial": T.opt(T.range(0, 0xFFFFFFFF))},
    modifies_heap=_TX_W,
    # the documented errors of a transfer, and whatever the transaction itself raises; anything else is unexpected
    raises=[("dns.xfr.TransferError", "message.rc != 0"), ("dns.exception.FormError", "True", "may"),
            # the first message of an IXFR: an older serial is reported as such; a lone newer SOA over UDP asks for TCP;
            # the already-up-to-date answer (equal serial) raises neither
            ("dns.xfr.SerialWentBackwards", f"{_FIRST_IXFR} and {_BACK}"),
            ("dns.xfr.UseTCP", f"{_FIRST_IXFR} and (not {_BACK}) and (({_S0} != self.serial) if self.serial is not None else False) "
                           "and self.is_udp and len(message.answer) == 1"),
            (_P + "_StubError", "True", "may")],
    returns=T.bool,
    max_paths=3000,
    loops={0: loop(
        invariant=[
            _NO_COMMIT,
            "(self.txn is not None) and (not self.txn.committed)",
            "(not commit) or self.done",
            "(not self.incremental) or (self.serial is not None)",
            "(old_self.txn is None) or (self.txn is old_self.txn) or cur(old_self.txn).rolled",
        ],
        types={"self.txn": T.ref(TXN), "self.serial": T.opt(T.range(0, 0xFFFFFFFF))},
        modifies_heap=_TX_W,
    )},
    ensures=[
        "result == self.done",
        # a commit happens only when the transfer is complete, it is the transaction that was open, and it is let go
        f"all((t.committed == snap(t, old_self).committed) or (result and (self.txn is None)) for t in refs('{TXN}'))",
        # an incomplete transfer keeps its transaction open and uncommitted
        "result or ((self.txn is not None) and (not self.txn.committed))",
        # a transaction that was open and has been replaced (AXFR-style answer to an IXFR) or let go was ended, never leaked
        "(old_self.txn is None) or (self.txn is old_self.txn) or cur(old_self.txn).committed or cur(old_self.txn).rolled",
    ],
    # whatever goes wrong - malformed, out of order, wrong serial, surplus records after the final SOA, a failing
    # change or commit - nothing has been committed
    ensures_raise=[_NO_COMMIT],
    props=["C13"],
    note="process_message: commit is the last action, taken at most once and only when the final SOA has been seen and "
         "the rest of the message checked; every raised error leaves every transaction uncommitted (the zone untouched); "
         "an unfinished transfer keeps its transaction open for the rollback in __exit__",
)

REG.contract(
    "dns.xfr.Inbound.process_message#axfr",
    target="dns.xfr.Inbound.process_message", verify_only=True,
    params={"self": INB, "message": MESSAGE},
    # state invariant of an Inbound between messages: an open transaction is neither committed nor rolled back;
    # an IXFR has a base serial; once done by commit the transaction is gone
    requires=[
        "(self.txn is None) or ((not self.txn.committed) and (not self.txn.rolled))",
        "(not self.incremental) or (self.serial is not None)",
        "not self.incremental",  # the AXFR half of the state machine (the full contract, IXFR included, runs in the thorough tier)
    ],
    modifies={"self.txn": T.ref(TXN, nullable=True), "self.soa_rdataset": T.ref(RR, nullable=True), "self.done": None,
              "self.expecting_SOA": None, "self.delete_mode": None, "self.incremental": None, "self.serial": T.opt(T.range(0, 0xFFFFFFFF))},
    modifies_heap=_TX_W,
    # the documented errors of a transfer, and whatever the transaction itself raises; anything else is unexpected
    raises=[("dns.xfr.TransferError", "True", "may"), ("dns.exception.FormError", "True", "may"),
            ("dns.xfr.SerialWentBackwards", "True", "may"), ("dns.xfr.UseTCP", "True", "may"), (_P + "_StubError", "True", "may")],
    returns=T.bool,
    max_paths=3000,
    loops={0: loop(
        invariant=[
            _NO_COMMIT,
            "(self.txn is not None) and (not self.txn.committed)",
            "(not commit) or self.done",
            "not self.incremental",
            "(not self.incremental) or (self.serial is not None)",
            "(old_self.txn is None) or (self.txn is old_self.txn) or cur(old_self.txn).rolled",
        ],
        types={"self.txn": T.ref(TXN), "self.serial": T.opt(T.range(0, 0xFFFFFFFF))},
        modifies_heap=_TX_W,
    )},
    ensures=[
        "result == self.done",
        # a commit happens only when the transfer is complete, it is the transaction that was open, and it is let go
        f"all((t.committed == snap(t, old_self).committed) or (result and (self.txn is None)) for t in refs('{TXN}'))",
        # an incomplete transfer keeps its transaction open and uncommitted
        "result or ((self.txn is not None) and (not self.txn.committed))",
        # a transaction that was open and has been replaced (AXFR-style answer to an IXFR) or let go was ended, never leaked
        "(old_self.txn is None) or (self.txn is old_self.txn) or cur(old_self.txn).committed or cur(old_self.txn).rolled",
    ],
    # whatever goes wrong - malformed, out of order, wrong serial, surplus records after the final SOA, a failing
    # change or commit - nothing has been committed
    ensures_raise=[_NO_COMMIT],
    props=["C13"],
    note="process_message, AXFR case: commit is the last action, taken at most once and only when the final SOA has been seen and "
         "the rest of the message checked; every raised error leaves every transaction uncommitted (the zone untouched); "
         "an unfinished transfer keeps its transaction open for the rollback in __exit__",
)

REG.contract(
    "dns.xfr.Inbound.__exit__",
    params={"self": INB, "exc_type": T.const(None), "exc_val": T.const(None), "exc_tb": T.const(None)},
    requires=["(self.txn is None) or ((not self.txn.committed) and (not self.txn.rolled))"],
    modifies_heap=_TX_W,
    raises=[],
    returns=T.bool,
    ensures=["result == False", "(self.txn is None) or self.txn.rolled", _NO_COMMIT],
    props=["C13"],
    note="leaving the transfer context rolls back whatever transaction is still open and commits nothing",
)
