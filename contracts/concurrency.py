"""Lock-discipline obligations (C12 writers, C11 readers, C17 caches): mechanical, over the ast
of the live classes."""
from pyvc.api import REG
from pyvc.static import lock_discipline

REG.static(
    "versioned_zone_lock_discipline",
    lambda reg: lock_discipline(
        reg, "versioned_zone_lock_discipline", ["dns.versioned.Zone"], "_version_lock",
        shared=["_versions", "_write_txn", "_write_event", "_write_waiters", "_readers", "_pruning_policy"],
        exempt_methods={"__init__": "no other thread can hold a reference during construction"},
        under_lock_methods=["_get_next_version_id"],
        stable_reads={
            ("writer", "_write_txn"): "after admission the field equals the caller's own transaction until the caller ends it: "
                                      "every other writer blocks on _write_txn is None, and only _end_write_unlocked(txn) with "
                                      "txn == _write_txn resets it (asserted there)",
        },
        props=["C12", "C11"],
        note="every access of the shared writer/reader state is inside 'with self._version_lock' or in an *_unlocked method all of "
             "whose call sites hold the lock; no blocking call is made while the lock is held, so readers never wait for a write "
             "transaction.  _get_next_version_id is called by WritableVersion.__init__ from the admitted writer's "
             "_setup_version without the lock: stable because _versions changes only in _commit_version_unlocked, which "
             "requires _write_txn == txn.",
    ),
    props=["C12", "C11"],
)

REG.static(
    "resolver_cache_lock_discipline",
    lambda reg: lock_discipline(
        reg, "resolver_cache_lock_discipline", ["dns.resolver.CacheBase", "dns.resolver.Cache", "dns.resolver.LRUCache"], "lock",
        shared=["data", "statistics", "sentinel", "next_cleaning", "max_size"],
        exempt_methods={"__init__": "no other thread can hold a reference during construction"},
        under_lock_methods=["_maybe_clean"],
        props=["C17"],
        note="every public cache method touches data, the LRU ring and the statistics only inside one 'with self.lock' block, so "
             "each call is one atomic transition and every concurrent history is equivalent to the order of lock acquisitions "
             "(A-gil for the lock itself)",
    ),
    props=["C17"],
)
