"""Contracts for dns/name.py (C01, C04, C06)."""
from pyvc.api import REG, loop
from pyvc.sym import T
import pyvc.spec  # noqa: F401  (registers spec functions)

LABELS = T.tuple_of(T.bytes)

REG.contract(
    "dns.name._validate_labels",
    params={"labels": LABELS},
    raises=[
        ("dns.name.LabelTooLong", "any(len(labels[k]) > 63 for k in range(len(labels)))"),
        ("dns.name.NameTooLong", "wirelen(labels, len(labels)) > 255"),
        ("dns.name.EmptyLabel", "any(labels[k] == b'' for k in range(len(labels) - 1))"),
    ],
    loops={
        0: loop(
            index="idx",
            invariant=[
                "j == idx",
                "l == len(labels)",
                "total == wirelen(labels, idx)",
                "all(len(labels[k]) <= 63 for k in range(idx))",
                "(i < 0 and all(labels[k] != b'' for k in range(idx))) or (0 <= i and i < idx and labels[i] == b'' and all(labels[k] != b'' for k in range(i)))",
            ],
        )
    },
    props=["C01", "C04"],
    note="returns normally iff every label <= 63 octets, wire length <= 255 and an empty label occurs only last",
)

NAME_INV = ("all(len(self.labels[k]) <= 63 for k in range(len(self.labels))) "
            "and wirelen(self.labels, len(self.labels)) <= 255 "
            "and all(self.labels[k] != b'' for k in range(len(self.labels) - 1))")


def _mk_name(f):
    import dns.name

    return dns.name.Name(f["labels"])


def _gen_name(rng):
    import dns.name
    from pyvc.native import SPECIAL

    while True:
        n = rng.choice([0, 1, 1, 2, 2, 3, 4])
        labels = []
        for _ in range(n):
            ln = rng.choice([1, 1, 2, 3, 5, 62, 63])
            labels.append(bytes(rng.choice(SPECIAL + [0x41, 0x61, 0x5A, 0x7A]) for _ in range(ln)))
        if rng.random() < 0.6:
            labels.append(b"")
        try:
            return dns.name.Name(labels)
        except Exception:
            continue


REG.declare_class("dns.name.Name", inv=NAME_INV, make=_mk_name, gen=_gen_name, labels=LABELS)
NAME = T.obj("dns.name.Name")

VALIDATE_RAISES = lambda L: [
    ("dns.name.LabelTooLong", f"any(len({L}[k]) > 63 for k in range(len({L})))"),
    ("dns.name.NameTooLong", f"wirelen({L}, len({L})) > 255"),
    ("dns.name.EmptyLabel", f"any({L}[k] == b'' for k in range(len({L}) - 1))"),
]

REG.contract(
    "dns.name.Name.__init__",
    params={"self": T.obj("dns.name.Name", raw=True), "labels": T.list_of(T.bytes)},
    raises=VALIDATE_RAISES("labels"),
    modifies={"self.labels": LABELS},
    ensures=[
        "len(self.labels) == len(labels)",
        "all(self.labels[k] == labels[k] for k in range(len(labels)))",
        NAME_INV,
    ],
    props=["C01", "C04", "C06"],
    note="class invariant of Name: every constructed name satisfies the 63/255/empty-label rules, else raises",
)

REG.contract(
    "dns.name.from_wire_parser",
    params={"parser": T.obj("dns.wirebase.Parser")},
    requires=["0 <= parser.current and parser.current <= parser.end and parser.end <= len(parser.wire) "
              "and 0 <= parser.furthest and parser.furthest <= len(parser.wire)"],
    raises=[("dns.exception.FormError", "True", "may")],
    returns=NAME,
    loops={
        0: loop(
            invariant=[
                "0 <= parser.current and parser.current <= parser.end and parser.end <= len(parser.wire) "
                "and 0 <= parser.furthest and parser.furthest <= len(parser.wire)",
                "parser.wire == old_parser.wire and parser.end == old_parser.end",
                "0 <= biggest_pointer and biggest_pointer <= old_parser.current",
                "0 <= count and count <= 255",
                "all(1 <= len(labels[k]) and len(labels[k]) <= 63 for k in range(len(labels)))",
            ],
            decreases=["biggest_pointer", "parser.end - parser.current"],
            types={"labels": T.list_of(T.bytes)},
            modifies={"parser.current": T.int, "parser.furthest": T.int},
        )
    },
    site_requires={"dns.wirebase.Parser.seek": ["current < head_biggest_pointer", "head_biggest_pointer <= old_parser.current"]},
    ensures=["parser.current == parser.furthest", "parser.wire == old_parser.wire and parser.end == old_parser.end"],
    ensures_raise=["parser.current == parser.furthest"],
    props=["C01", "C04"],
    note="terminates for every pointer graph (lexicographic variant), only seeks to strictly earlier offsets, "
         "escaping exceptions are FormError (BadPointer, BadLabelType, NameTooLong) only",
)
