"""Contracts for dns/name.py (C01, C04, C06)."""
from pyvc.api import REG, loop
from pyvc.sym import T
import pyvc.spec  # noqa: F401  (registers spec functions)

LABELS = T.tuple_of(T.bytes)

REG.contract(
    "dns.name._validate_labels",
    params={"labels": LABELS},
    raises=[
        ("dns.name.LabelTooLong", "any(len(labels[k]) > 63 for k in range(len(labels)))"),
        ("dns.name.NameTooLong", "wirelen(labels, len(labels)) > 255"),
        ("dns.name.EmptyLabel", "any(labels[k] == b'' for k in range(len(labels) - 1))"),
    ],
    loops={
        0: loop(
            index="idx",
            invariant=[
                "j == idx",
                "l == len(labels)",
                "total == wirelen(labels, idx)",
                "all(len(labels[k]) <= 63 for k in range(idx))",
                "(i < 0 and all(labels[k] != b'' for k in range(idx))) or (0 <= i and i < idx and labels[i] == b'' and all(labels[k] != b'' for k in range(i)))",
            ],
        )
    },
    props=["C01", "C04"],
    note="returns normally iff every label <= 63 octets, wire length <= 255 and an empty label occurs only last",
)

NAME_INV = ("all(len(self.labels[k]) <= 63 for k in range(len(self.labels))) "
            "and wirelen(self.labels, len(self.labels)) <= 255 "
            "and all(self.labels[k] != b'' for k in range(len(self.labels) - 1))")


def _mk_name(f):
    import dns.name

    return dns.name.Name(f["labels"])


def _gen_name(rng):
    import dns.name
    from pyvc.native import SPECIAL

    while True:
        n = rng.choice([0, 1, 1, 2, 2, 3, 4])
        labels = []
        for _ in range(n):
            ln = rng.choice([1, 1, 2, 3, 5, 62, 63])
            labels.append(bytes(rng.choice(SPECIAL + [0x41, 0x61, 0x5A, 0x7A]) for _ in range(ln)))
        if rng.random() < 0.6:
            labels.append(b"")
        try:
            return dns.name.Name(labels)
        except Exception:
            continue


REG.declare_class("dns.name.Name", inv=NAME_INV, make=_mk_name, gen=_gen_name, labels=LABELS)
NAME = T.obj("dns.name.Name")

VALIDATE_RAISES = lambda L: [
    ("dns.name.LabelTooLong", f"any(len({L}[k]) > 63 for k in range(len({L})))"),
    ("dns.name.NameTooLong", f"wirelen({L}, len({L})) > 255"),
    ("dns.name.EmptyLabel", f"any({L}[k] == b'' for k in range(len({L}) - 1))"),
]

REG.contract(
    "dns.name.Name.__init__",
    params={"self": T.obj("dns.name.Name", raw=True), "labels": T.list_of(T.bytes)},
    raises=VALIDATE_RAISES("labels"),
    modifies={"self.labels": LABELS},
    ensures=[
        "len(self.labels) == len(labels)",
        "all(self.labels[k] == labels[k] for k in range(len(labels)))",
        NAME_INV,
    ],
    props=["C01", "C04", "C06"],
    note="class invariant of Name: every constructed name satisfies the 63/255/empty-label rules, else raises",
)

REG.contract(
    "dns.name.from_wire_parser",
    params={"parser": T.obj("dns.wirebase.Parser")},
    requires=["0 <= parser.current and parser.current <= parser.end and parser.end <= len(parser.wire) "
              "and 0 <= parser.furthest and parser.furthest <= len(parser.wire)"],
    raises=[("dns.exception.FormError", "True", "may")],
    returns=NAME,
    loops={
        0: loop(
            invariant=[
                "0 <= parser.current and parser.current <= parser.end and parser.end <= len(parser.wire) "
                "and 0 <= parser.furthest and parser.furthest <= len(parser.wire)",
                "parser.wire == old_parser.wire and parser.end == old_parser.end",
                "0 <= biggest_pointer and biggest_pointer <= old_parser.current",
                "0 <= count and count <= 255",
                "all(1 <= len(labels[k]) and len(labels[k]) <= 63 for k in range(len(labels)))",
            ],
            decreases=["biggest_pointer", "parser.end - parser.current"],
            types={"labels": T.list_of(T.bytes)},
            modifies={"parser.current": T.int, "parser.furthest": T.int},
        )
    },
    site_requires={"dns.wirebase.Parser.seek": ["current < head_biggest_pointer", "head_biggest_pointer <= old_parser.current"]},
    ensures=["parser.current == parser.furthest", "parser.wire == old_parser.wire and parser.end == old_parser.end"],
    ensures_raise=["parser.current == parser.furthest"],
    props=["C01", "C04"],
    note="terminates for every pointer graph (lexicographic variant), only seeks to strictly earlier offsets, "
         "escaping exceptions are FormError (BadPointer, BadLabelType, NameTooLong) only",
)

# ----------------------------------------------------------------------------- C06: canonical order


def ISABS(x):
    return f"(len({x}.labels) > 0 and {x}.labels[len({x}.labels) - 1] == b'')"


def LAB(x, k):
    """label k counted from the right (0 = most significant)"""
    return f"lower({x}.labels[len({x}.labels) - 1 - ({k})])"


L1, L2 = "len(self.labels)", "len(other.labels)"
MINL = f"({L1} if {L1} < {L2} else {L2})"
REL, ORD, N = "result[0]", "result[1]", "result[2]"

FULLCOMPARE_POST = [
    # different relativity: relative sorts first, nothing in common
    f"(not ({ISABS('self')} != {ISABS('other')})) or ({REL} == NameRelation.NONE and {N} == 0 and {ORD} == (1 if {ISABS('self')} else -1))",
    # same relativity
    f"({ISABS('self')} != {ISABS('other')}) or (0 <= {N} and {N} <= {MINL})",
    f"({ISABS('self')} != {ISABS('other')}) or all({LAB('self', 'm')} == {LAB('other', 'm')} for m in range({N}))",
    f"({ISABS('self')} != {ISABS('other')}) or {N} == {MINL} or {LAB('self', N)} != {LAB('other', N)}",
    f"({ISABS('self')} != {ISABS('other')}) or (not {ORD} < 0) or ({N} < {MINL} and blt({LAB('self', N)}, {LAB('other', N)})) or ({N} == {L1} and {L1} < {L2})",
    f"({ISABS('self')} != {ISABS('other')}) or (not {ORD} > 0) or ({N} < {MINL} and blt({LAB('other', N)}, {LAB('self', N)})) or ({N} == {L2} and {L2} < {L1})",
    f"({ISABS('self')} != {ISABS('other')}) or (not {ORD} == 0) or ({N} == {L1} and {L1} == {L2})",
    f"({ISABS('self')} != {ISABS('other')}) or ({REL} == NameRelation.EQUAL) == ({N} == {L1} and {L1} == {L2})",
    f"({ISABS('self')} != {ISABS('other')}) or ({REL} == NameRelation.SUBDOMAIN) == ({N} == {L2} and {L2} < {L1})",
    f"({ISABS('self')} != {ISABS('other')}) or ({REL} == NameRelation.SUPERDOMAIN) == ({N} == {L1} and {L1} < {L2})",
    f"({ISABS('self')} != {ISABS('other')}) or ({REL} == NameRelation.COMMONANCESTOR) == (0 < {N} and {N} < {MINL})",
    f"({ISABS('self')} != {ISABS('other')}) or ({REL} == NameRelation.NONE) == (0 == {N} and {N} < {MINL})",
]

REG.contract(
    "dns.name.Name.fullcompare",
    params={"self": NAME, "other": NAME},
    raises=[],
    returns=T.fixed(T.int, T.int, T.int),
    loops={
        0: loop(
            invariant=[
                "nlabels >= 0 and l >= 0 and order == 0 and namereln == NameRelation.NONE",
                f"ldiff == {L1} - {L2}",
                f"l1 == {L1} - nlabels and l2 == {L2} - nlabels",
                f"l == ({L1} if ldiff < 0 else {L2}) - nlabels",
                f"all({LAB('self', 'm')} == {LAB('other', 'm')} for m in range(nlabels))",
            ],
            decreases=["l"],
        )
    },
    ensures=FULLCOMPARE_POST,
    props=["C06"],
    note="total correctness: the result is the RFC 4034 6.1 comparison (labels right to left, ASCII-lowered "
         "octet order, relative before absolute), n is the longest common case-insensitive suffix, rel per its definition",
)

SAMEREL = f"({ISABS('self')} == {ISABS('other')})"
SUFFIX_OF_SELF = f"({L2} <= {L1} and all({LAB('self', 'm')} == {LAB('other', 'm')} for m in range({L2})))"

REG.contract(
    "dns.name.Name.is_subdomain",
    params={"self": NAME, "other": NAME},
    returns=T.bool,
    ensures=[
        f"(not result) or ({SAMEREL} and {SUFFIX_OF_SELF})",
        f"result or not ({SAMEREL} and {SUFFIX_OF_SELF})",
    ],
    props=["C06"],
    note="is_subdomain(o) iff same relativity and o's labels are a case-insensitive suffix of self's",
)

PREFIX_OF_OTHER = f"({L1} <= {L2} and all({LAB('self', 'm')} == {LAB('other', 'm')} for m in range({L1})))"
REG.contract(
    "dns.name.Name.is_superdomain",
    params={"self": NAME, "other": NAME},
    returns=T.bool,
    ensures=[
        f"(not result) or ({SAMEREL} and {PREFIX_OF_OTHER})",
        f"result or not ({SAMEREL} and {PREFIX_OF_OTHER})",
    ],
    props=["C06"],
)

EQCI = f"({L1} == {L2} and all({LAB('self', 'm')} == {LAB('other', 'm')} for m in range({L1})))"
for op, expr in (("__eq__", "{e}"), ("__ne__", "not {e}")):
    REG.contract(
        f"dns.name.Name.{op}",
        params={"self": NAME, "other": NAME},
        returns=T.bool,
        ensures=[
            "(not result) or (" + expr.format(e=EQCI) + ")" if op == "__eq__" else f"result or {EQCI}",
            f"result or not {EQCI}" if op == "__eq__" else f"(not result) or not {EQCI}",
        ],
        props=["C06", "C07"],
        note="names are equal iff they have the same number of labels and the labels differ at most in ASCII case",
    )

REG.contract(
    "dns.name.Name.concatenate",
    params={"self": NAME, "other": NAME},
    raises=[
        ("dns.name.AbsoluteConcatenation", f"{ISABS('self')} and {L2} > 0"),
        ("dns.name.NameTooLong", "True", "may"),
    ],
    returns=NAME,
    ensures=[
        f"len(result.labels) == {L1} + {L2}",
        f"all(result.labels[k] == self.labels[k] for k in range({L1}))",
        f"all(result.labels[{L1} + k] == other.labels[k] for k in range({L2}))",
    ],
    props=["C01", "C06"],
    note="result is a Name (class invariant: limits hold) whose labels are self's followed by other's; otherwise raises",
)

REG.contract(
    "dns.name.Name.derelativize",
    params={"self": NAME, "origin": NAME},
    raises=[("dns.name.NameTooLong", "True", "may")],
    returns=NAME,
    ensures=[
        f"(not {ISABS('self')}) or result is self",
        f"{ISABS('self')} or (len(result.labels) == {L1} + len(origin.labels) "
        f"and all(result.labels[k] == self.labels[k] for k in range({L1})) "
        f"and all(result.labels[{L1} + k] == origin.labels[k] for k in range(len(origin.labels))))",
    ],
    props=["C01", "C06"],
)

ORIGIN_SUFFIX = (f"({ISABS('self')} == {ISABS('origin')} and len(origin.labels) <= {L1} and "
                 f"all({LAB('self', 'm')} == {LAB('origin', 'm')} for m in range(len(origin.labels))))")
REG.contract(
    "dns.name.Name.relativize",
    params={"self": NAME, "origin": NAME},
    raises=[],
    returns=NAME,
    ensures=[
        f"{ORIGIN_SUFFIX} or result is self",
        f"(not {ORIGIN_SUFFIX}) or (len(result.labels) == {L1} - len(origin.labels) "
        f"and all(result.labels[k] == self.labels[k] for k in range({L1} - len(origin.labels))))",
    ],
    props=["C01", "C06"],
    note="never raises: removing a suffix keeps every limit; the result is the name without origin's labels iff it is a subdomain",
)

REG.contract(
    "dns.name.Name.parent",
    params={"self": NAME},
    raises=[("dns.name.NoParent", f"{L1} == 0 or ({L1} == 1 and self.labels[0] == b'')")],
    returns=NAME,
    ensures=[
        f"len(result.labels) == {L1} - 1",
        f"all(result.labels[k] == self.labels[k + 1] for k in range({L1} - 1))",
    ],
    props=["C01", "C06"],
)

REG.contract(
    "dns.name.Name.split",
    params={"self": NAME, "depth": T.int},
    raises=[("builtins.ValueError", f"depth < 0 or depth > {L1}")],
    returns=T.fixed(NAME, NAME),
    ensures=[
        f"len(result[0].labels) == {L1} - depth and len(result[1].labels) == depth",
        f"all(result[0].labels[k] == self.labels[k] for k in range({L1} - depth))",
        f"all(result[1].labels[k] == self.labels[{L1} - depth + k] for k in range(depth))",
    ],
    props=["C06"],
    note="prefix ++ suffix == labels; ValueError iff depth out of range",
)

# ----------------------------------------------------------------------------- Level-2 lemmas (C06 order laws)
FC = "dns.name.Name.fullcompare"


def _lab(x, k):
    return f"lower({x}.labels[len({x}.labels) - 1 - ({k})])"


def BLT_TRANS(x, y, z, k):
    """instance of transitivity of the octet-string order (A-lib) at label position k"""
    return (f"(not (blt({_lab(x, k)}, {_lab(y, k)}) and blt({_lab(y, k)}, {_lab(z, k)}))) or blt({_lab(x, k)}, {_lab(z, k)})")


REG.lemma(
    "name_order_antisymmetric",
    params={"a": NAME, "b": NAME},
    uses=[(FC, {"self": "a", "other": "b"}, "rab"), (FC, {"self": "b", "other": "a"}, "rba")],
    goals=[
        "(rab[1] < 0) == (rba[1] > 0)",
        "(rab[1] == 0) == (rba[1] == 0)",
        "(rab[1] > 0) == (rba[1] < 0)",
        "rab[2] == rba[2]",
    ],
    props=["C06"],
    note="a < b iff b > a, a == b iff b == a, and the common-label count is symmetric (from the fullcompare contract only)",
)

REG.lemma(
    "name_order_reflexive",
    params={"a": NAME},
    uses=[(FC, {"self": "a", "other": "a"}, "raa")],
    goals=["raa[1] == 0", "raa[0] == dns.name.NameRelation.EQUAL", "raa[2] == len(a.labels)"],
    props=["C06"],
)

for _h, _nm in (("rab[1] < 0 and rbc[1] < 0", "lt_lt"), ("rab[1] == 0 and rbc[1] < 0", "eq_lt"), ("rab[1] < 0 and rbc[1] == 0", "lt_eq"),
                ("rab[1] == 0 and rbc[1] == 0", "eq_eq")):
    REG.lemma(
        f"name_order_transitive_{_nm}",
        params={"a": NAME, "b": NAME, "c": NAME},
        uses=[(FC, {"self": "a", "other": "b"}, "rab"), (FC, {"self": "b", "other": "c"}, "rbc"), (FC, {"self": "a", "other": "c"}, "rac")],
        hyps=[_h] + [BLT_TRANS("a", "b", "c", k) for k in ("rab[2]", "rbc[2]", "rac[2]")],
        goals=["rac[1] == 0" if _nm == "eq_eq" else "rac[1] < 0"],
        props=["C06"],
        note="transitivity of the canonical order (and of equality, and their mix) from three instances of the fullcompare "
             "postcondition plus transitivity of the octet-string order at the deciding label",
    )

REG.lemma(
    "name_eq_iff_case_insensitive_labels",
    params={"a": NAME, "b": NAME},
    uses=[(FC, {"self": "a", "other": "b"}, "rab")],
    goals=[
        f"(not rab[1] == 0) or (len(a.labels) == len(b.labels) and all({_lab('a', 'k')} == {_lab('b', 'k')} for k in range(len(a.labels))))",
        f"rab[1] == 0 or not (len(a.labels) == len(b.labels) and all({_lab('a', 'k')} == {_lab('b', 'k')} for k in range(len(a.labels))))",
    ],
    props=["C06", "C07"],
    note="names compare equal iff they have the same labels up to ASCII case",
)

REG.lemma(
    "name_relation_agrees_with_subdomain",
    params={"a": NAME, "b": NAME},
    uses=[(FC, {"self": "a", "other": "b"}, "rab"), ("dns.name.Name.is_subdomain", {"self": "a", "other": "b"}, "sub"),
          ("dns.name.Name.is_superdomain", {"self": "a", "other": "b"}, "sup")],
    goals=[
        "sub == (rab[0] == dns.name.NameRelation.SUBDOMAIN or rab[0] == dns.name.NameRelation.EQUAL)",
        "sup == (rab[0] == dns.name.NameRelation.SUPERDOMAIN or rab[0] == dns.name.NameRelation.EQUAL)",
        "(not sub) or rab[2] == len(b.labels)",
    ],
    props=["C06"],
    note="the reported relation and common-label count agree with the subdomain/superdomain predicates",
)

# ----------------------------------------------------------------------------- C01-P6 / C15: uncompressed wire form
_ISABS_O = "(len(origin.labels) > 0 and origin.labels[len(origin.labels) - 1] == b'')"
REG.contract(
    "dns.name.Name.to_wire",
    params={"self": NAME, "file": T.const(None), "compress": T.const(None), "origin": T.opt(NAME), "canonicalize": T.bool},
    raises=[("dns.name.NeedAbsoluteNameOrOrigin", f"(not {ISABS('self')}) and (origin is None or not {_ISABS_O})"),
            ("dns.name.NameTooLong", f"(not {ISABS('self')}) and origin is not None", "may")],
    returns=T.bytes,
    loops={
        0: loop(index="i0", invariant=["out == wenc(self.labels, i0, canonicalize)"]),
        1: loop(index="i1", invariant=["out == wenc(self.labels, len(self.labels), canonicalize) + wenc(origin.labels, i1, canonicalize)"]),
    },
    ensures=[
        f"(not {ISABS('self')}) or result == wenc(self.labels, len(self.labels), canonicalize)",
        f"{ISABS('self')} or origin is None or result == wenc(self.labels, len(self.labels), canonicalize) + wenc(origin.labels, len(origin.labels), canonicalize)",
        f"{ISABS('self')} or len(result) <= 255",
    ],
    when=lambda a: a.get("file") is None,
    props=["C01", "C15"],
    note="file=None form (used by to_digestable): the result is exactly the RFC 1035 encoding of the labels (then the origin's "
         "labels for a relative name), lower-cased iff canonicalize, never a compression pointer; NeedAbsoluteNameOrOrigin "
         "exactly when relative without an absolute origin",
)

# ----------------------------------------------------------------------------- C01-P8 / C03 / C08: compressed wire form
_OLDLEN = "len(old_file.getvalue())"
_TABLE_OK = "all(0 <= compress[k] and compress[k] <= 0x3FFF for k in compress)"
_TABLE_FRAME = [
    "compress is None or all((k in compress) and compress[k] == old_compress[k] for k in old_compress)",
    f"compress is None or all((k in old_compress) or ({_OLDLEN} <= compress[k] and compress[k] < len(file.getvalue()) and compress[k] <= 0x3FFF) for k in compress)",
]
REG.contract(
    "dns.name.Name.to_wire#file",
    target="dns.name.Name.to_wire",
    params={"self": NAME, "file": T.bytesio, "compress": T.opt(T.map_of(T.int, T.int)), "origin": T.opt(NAME), "canonicalize": T.bool},
    requires=["file.tell() == len(file.getvalue())", f"compress is None or {_TABLE_OK}"],
    modifies={"file": None, "compress": None},
    raises=[("dns.name.NeedAbsoluteNameOrOrigin", f"(not {ISABS('self')}) and (origin is None or not {_ISABS_O})"),
            ("dns.name.NameTooLong", f"(not {ISABS('self')}) and origin is not None", "may")],
    loops={
        2: loop(index="idx", invariant=[
            "i == idx",
            "all(len(labels[k]) <= 63 for k in range(len(labels)))",
            "all(labels[k] != b'' for k in range(len(labels) - 1))",
            "len(labels) >= 1",
            f"idx == 0 or len(file.getvalue()) > {_OLDLEN}",
            f"file.tell() == len(file.getvalue()) and len(file.getvalue()) >= {_OLDLEN}",
            f"file.getvalue()[:{_OLDLEN}] == old_file.getvalue()",
            f"compress is None or {_TABLE_OK}",
        ] + _TABLE_FRAME, modifies={}),
    },
    ensures=[
        "result is None",
        f"file.tell() == len(file.getvalue()) and len(file.getvalue()) > {_OLDLEN}",
        f"file.getvalue()[:{_OLDLEN}] == old_file.getvalue()",
        f"compress is None or {_TABLE_OK}",
    ] + _TABLE_FRAME,
    ensures_raise=[f"file.getvalue()[:{_OLDLEN}] == old_file.getvalue()"],
    heavy=True,
    when=lambda a: a.get("file") is not None,
    props=["C01", "C03", "C08"],
    note="file/compress form: bytes are only appended; a table entry is added only with the offset at which the suffix starts "
         "in this output, inside the bytes this call wrote, and never above 0x3FFF; existing entries are never changed; a "
         "pointer is packed from a table value, which the table invariant keeps within 14 bits (struct.pack range obligation)",
)

# ----------------------------------------------------------------------------- C01-P3: label text
REG.contract(
    "dns.name._escapify",
    params={"label": T.bytes},
    raises=[],
    returns=T.str,
    loops={0: loop(index="idx", invariant=["text == esc_name(label, idx)"])},
    ensures=["result == esc_name(label, len(label))"],
    props=["C01", "C05"],
    note="bytes branch: the text of a label is the concatenation of the RFC 1035 5.1 escape of each octet "
         "(the set of backslash-quoted octets is fixed by the specification, not read from the code)",
)

# ----------------------------------------------------------------------------- C01-P4: per-octet text step lemmas
# The body of from_text's character loop, run over the 1, 2 or 4 characters that _escapify emits
# for one octet c, appends exactly c to the current label, leaves the state machine idle, appends
# no label and raises nothing.  With the _escapify contract and A-fold this is the induction step
# of from_text(to_text(n)) == n for every octet value.
_STATE = {"labels": T.list_of(T.bytes), "label": T.bytes, "escaping": T.bool, "edigits": T.int, "total": T.int}
_IDLE = ["not escaping"]
_POST = ["label == old_label + bytes([octet])", "not escaping", "len(labels) == len(old_labels)"]
_SPECIAL = "(octet == 34 or octet == 40 or octet == 41 or octet == 46 or octet == 59 or octet == 92 or octet == 64 or octet == 36)"
REG.step_lemma("from_text_octet_quoted", target="dns.name.from_text", loop=0, params={"octet": T.u8}, state=_STATE,
               requires=_IDLE + [_SPECIAL], elements=["92", "octet"], ensures=_POST, props=["C01", "C05"],
               note="a backslash-quoted special octet (\" ( ) . ; \\ @ $) is read back as that octet and does not end the label")
REG.step_lemma("from_text_octet_plain", target="dns.name.from_text", loop=0, params={"octet": T.u8}, state=_STATE,
               requires=_IDLE + [f"not {_SPECIAL}", "octet > 0x20 and octet < 0x7F"], elements=["octet"], ensures=_POST, props=["C01", "C05"],
               note="a printable octet that needs no escape is read back as itself")
REG.step_lemma("from_text_octet_decimal", target="dns.name.from_text", loop=0, params={"octet": T.u8}, state=_STATE,
               requires=_IDLE + ["octet <= 0x20 or octet >= 0x7F"], elements=["92", "48 + octet // 100", "48 + (octet // 10) % 10", "48 + octet % 10"],
               ensures=_POST, props=["C01", "C05"],
               note="a \\DDD escape of any octet 0..255 is read back as that octet")
REG.step_lemma("from_text_label_separator", target="dns.name.from_text", loop=0, params={}, state=_STATE,
               requires=_IDLE + ["len(label) > 0"], elements=["46"],
               ensures=["len(labels) == len(old_labels) + 1", "labels[len(labels) - 1] == old_label", "label == b''", "not escaping",
                        "all(labels[k] == old_labels[k] for k in range(len(old_labels)))"],
               props=["C01"], note="an unescaped dot ends a non-empty label and starts an empty one")


# ----------------------------------------------------------------------------- C06: hash is a function of the lowered labels
import z3 as _z3  # noqa: E402
from pyvc import sym as _S  # noqa: E402
from pyvc.sym import SInt as _SInt, to_z3 as _to_z3  # noqa: E402

# hfold(h0, s, k): the running hash after folding the first k octets of s into h0 (h += (h << 3) + c, i.e. h = 9h + c)
_HFOLD = _z3.Function("hfold", _S.IntS, _S.SeqI, _S.IntS, _S.IntS)
# nhash(labels, i): the hash after the first i labels, each folded in lower case
_NHASH = _z3.Function("nhash", _z3.ArraySort(_S.IntS, _S.SeqI), _S.IntS, _S.IntS)


def _lower_pointwise(I, s, k):
    """bytes.lower() is ASCII lower-casing, octet by octet (A-lib), stated at the position that is used"""
    from pyvc import models as M

    if _z3.is_app(s) and s.decl().eq(M.LOWER):
        x = s.arg(0)
        I.path.assume(_z3.Implies(_z3.And(k >= 0, k < _z3.Length(x)),
                                  s[k] == _z3.If(_z3.And(x[k] >= 65, x[k] <= 90), x[k] + 32, x[k])))


def _hfold_smt(I, h0, s, k):
    from pyvc import models as M

    hz, sz, kz = _to_z3(h0), M.as_seq(I, s), _to_z3(k)
    t = _HFOLD(hz, sz, kz)
    I.path.assume(t == _z3.If(kz <= 0, hz, 9 * _HFOLD(hz, sz, kz - 1) + sz[kz - 1]))
    _lower_pointwise(I, sz, kz - 1)
    return _SInt(t)


def _hfold_native(h0, s, k):
    h = h0
    for c in bytes(s)[:k]:
        h += (h << 3) + c
    return h


def _nhash_smt(I, labels, i):
    from pyvc import models as M

    if not isinstance(labels, _S.SSeq) or _S.concrete_of(_to_z3(labels.off)) != 0:
        raise _S.Unsupported("nhash over a sliced label sequence")
    iz = _to_z3(i)
    arr = labels.arr
    t = _NHASH(arr, iz)
    prev = _z3.Select(arr, iz - 1)
    low = M.lower_of(I, prev)
    step = _HFOLD(_NHASH(arr, iz - 1), low, _z3.Length(low))
    I.path.assume(t == _z3.If(iz <= 0, 0, step))
    return _SInt(t)


def _nhash_native(labels, i):
    h = 0
    for lab in list(labels)[:i]:
        h = _hfold_native(h, bytes(lab).lower(), len(lab))
    return h


REG.spec("hfold", _hfold_smt, _hfold_native, "running hash h = 9h + c over the first k octets of s, starting from h0")
REG.spec("nhash", _nhash_smt, _nhash_native, "name hash after the first i labels, each folded in ASCII lower case")

REG.contract(
    "dns.name.Name.__hash__",
    params={"self": NAME},
    raises=[],
    returns=T.int,
    loops={
        0: loop(index="i", invariant=["h == nhash(self.labels, i)"]),
        1: loop(index="k", invariant=["h == hfold(nhash(self.labels, i), lower(label), k)", "label == self.labels[i]"]),
    },
    ensures=["result == nhash(self.labels, len(self.labels))"],
    props=["C06"],
    note="Name.__hash__ is the fold h = 9h + c over the ASCII-lowered octets of the labels: a function of the lower-cased labels only",
)

REG.lemma(
    "name_hash_respects_equality_step",
    params={"a": NAME, "b": NAME, "i": T.int},
    hyps=[
        "0 <= i and i < len(a.labels) and len(a.labels) == len(b.labels)",
        "nhash(a.labels, i) == nhash(b.labels, i)",
        "lower(a.labels[i]) == lower(b.labels[i])",
    ],
    goals=["nhash(a.labels, i + 1) == nhash(b.labels, i + 1)"],
    props=["C06"],
    note="induction step of 'names that are equal (same labels up to ASCII case, lemma name_eq_iff_case_insensitive_labels) "
         "hash equally': with nhash(.,0) = 0 on both sides, induction on i (the induction principle itself is the one "
         "unchecked step) gives equal results of __hash__ by its contract",
)


# ----------------------------------------------------------------------------- decoding an uncompressed name is the inverse of encoding
_PINV = ("0 <= parser.current and parser.current <= parser.end and parser.end <= len(parser.wire) "
         "and 0 <= parser.furthest and parser.furthest <= len(parser.wire)")
_START = "old_parser.current"
REG.contract(
    "dns.name.from_wire_parser#uncompressed",
    target="dns.name.from_wire_parser", verify_only=True,
    # Name.__init__ is executed (not summarised) so that the result's labels are the collected list itself
    inline_calls=["dns.name.Name.__init__"],
    params={"parser": T.obj("dns.wirebase.Parser")},
    # sequential parsing: nothing beyond the current position has been read yet
    requires=[_PINV, "parser.furthest <= parser.current"],
    raises=[("dns.exception.FormError", "True", "may")],
    returns=NAME,
    loops={
        0: loop(
            invariant=[
                _PINV,
                "parser.wire == old_parser.wire and parser.end == old_parser.end",
                f"0 <= biggest_pointer and biggest_pointer <= {_START}",
                "0 <= count and count <= 255",
                "all(1 <= len(labels[k]) and len(labels[k]) <= 63 for k in range(len(labels)))",
                # while no pointer has been followed: what was consumed (up to the length octet just read) is the
                # encoding of the labels collected so far
                f"(biggest_pointer != {_START}) or ({_START} <= parser.current - 1 "
                f"and parser.wire[{_START}:parser.current - 1] == wenc(labels, len(labels), False) "
                "and count == parser.wire[parser.current - 1])",
                # once a pointer has been followed, its first octet lies in the region that counts as consumed
                f"(biggest_pointer == {_START}) or any(parser.wire[p] >= 192 for p in range({_START}, parser.furthest))",
                f"(biggest_pointer != {_START}) or parser.furthest == parser.current",
            ],
            decreases=["biggest_pointer", "parser.end - parser.current"],
            types={"labels": T.list_of(T.bytes)},
            modifies={"parser.current": T.int, "parser.furthest": T.int},
        )
    },
    site_requires={"dns.wirebase.Parser.seek": ["current < head_biggest_pointer", f"head_biggest_pointer <= {_START}"]},
    ensures=[
        "parser.current == parser.furthest",
        # a name written without compression pointers: re-encoding the result gives back exactly the octets consumed
        f"(not all(parser.wire[p] < 192 for p in range({_START}, parser.current))) "
        f"or parser.wire[{_START}:parser.current] == wenc(result.labels, len(result.labels), False)",
    ],
    props=["C01", "C02", "C03"],
    note="decode then encode is the identity on an uncompressed name: unless a compression pointer (an octet >= 192 in the "
         "consumed region) was followed, the octets consumed are exactly the RFC 1035 encoding of the resulting labels "
         "(with Name.to_wire == wenc, this is one half of 'the wire codecs are exact inverses')",
)
