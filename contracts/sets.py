"""Contracts for dns/set.py (C07: exact set algebra).  Abstract view: the set is the key set of
its ordered dict; elements are abstracted as integer identities (assumption: the elements' ==
is an equivalence and their hash is consistent with it, which is what C06/C07 establish for
names and records)."""
from pyvc.api import REG, loop
from pyvc.sym import T
import pyvc.spec  # noqa: F401

ITEMS = T.map_of(T.int, T.none, ordered=True)


def _mk_set(f):
    import dns.set

    return dns.set.Set(list(f["items"]))


def _gen_set(rng):
    import dns.set

    return dns.set.Set([rng.randrange(6) for _ in range(rng.choice([0, 1, 2, 3, 5]))])


REG.declare_class("dns.set.Set", make=_mk_set, gen=_gen_set, items=ITEMS)
SET = T.obj("dns.set.Set")
ELT = T.range(0, 6)

SAME_AS_OLD = ["all(k in self.items for k in old_self.items)", "all(k in old_self.items for k in self.items)"]

REG.contract(
    "dns.set.Set.add",
    params={"self": SET, "item": ELT},
    raises=[],
    modifies={"self.items": T.map_of(T.int, T.none)},
    ensures=["item in self.items", "all(k in self.items for k in old_self.items)",
             "all((k in old_self.items) or k == item for k in self.items)"],
    props=["C07"],
    note="add: the result is old | {item}; a duplicate collapses (nothing else changes)",
)

REG.contract(
    "dns.set.Set.remove",
    params={"self": SET, "item": ELT},
    raises=[("builtins.ValueError", "not (item in self.items)")],
    modifies={"self.items": T.map_of(T.int, T.none)},
    ensures=["not (item in self.items)", "all((k in self.items) or k == item for k in old_self.items)",
             "all(k in old_self.items for k in self.items)"],
    ensures_raise=SAME_AS_OLD,
    props=["C07"],
)

REG.contract(
    "dns.set.Set.discard",
    params={"self": SET, "item": ELT},
    raises=[],
    modifies={"self.items": T.map_of(T.int, T.none)},
    ensures=["not (item in self.items)", "all((k in self.items) or k == item for k in old_self.items)",
             "all(k in old_self.items for k in self.items)"],
    props=["C07"],
)

_DISTINCT = {"requires": []}
_ALIAS = {"alias": {"other": "self"}}

REG.contract(
    "dns.set.Set.union_update",
    params={"self": SET, "other": SET},
    cases=[_DISTINCT, _ALIAS],
    raises=[],
    modifies={"self.items": T.map_of(T.int, T.none)},
    loops={0: loop(index="i0", invariant=[
        "all(k in self.items for k in old_self.items)",
        "all(other_keys[j] in self.items for j in range(i0))",
        "all((k in old_self.items) or (k in other.items) for k in self.items)",
    ], modifies={"self.items": T.map_of(T.int, T.none)})},
    ghost_entry={"other_keys": "other.items.keys()"},
    ensures=["all(k in self.items for k in old_self.items)", "all(k in self.items for k in other.items)",
             "all((k in old_self.items) or (k in other.items) for k in self.items)"],
    props=["C07"],
    note="in-place union equals set-theoretic union, also when other is self",
)

REG.contract(
    "dns.set.Set.intersection_update",
    params={"self": SET, "other": SET},
    cases=[_DISTINCT, _ALIAS],
    raises=[],
    modifies={"self.items": T.map_of(T.int, T.none)},
    loops={0: loop(index="i0", invariant=[
        "all(k in old_self.items for k in self.items)",
        "all((k in self.items) or not (k in other.items) for k in old_self.items)",
        "all((not (self_keys[j] in self.items)) or (self_keys[j] in other.items) for j in range(i0))",
        "all(self_keys[j] in self.items for j in range(i0, len(self_keys)))",
    ], modifies={"self.items": T.map_of(T.int, T.none)})},
    ghost_entry={"self_keys": "self.items.keys()"},
    ensures=["all((k in old_self.items) and (k in other.items) for k in self.items)",
             "all(k in self.items for k in old_self.items if k in other.items)"],
    props=["C07"],
    note="in-place intersection equals set-theoretic intersection, also when other is self",
)

REG.contract(
    "dns.set.Set.difference_update",
    params={"self": SET, "other": SET},
    cases=[_DISTINCT, _ALIAS],
    raises=[],
    modifies={"self.items": T.map_of(T.int, T.none)},
    loops={0: loop(index="i0", invariant=[
        "all(k in old_self.items for k in self.items)",
        "all((k in self.items) or (k in other.items) for k in old_self.items)",
        "all(not (other_keys[j] in self.items) for j in range(i0))",
    ], modifies={"self.items": T.map_of(T.int, T.none)})},
    ghost_entry={"other_keys": "other.items.keys()"},
    ensures=["all((k in old_self.items) and not (k in old_other.items) for k in self.items)",
             "all(k in self.items for k in old_self.items if not (k in old_other.items))"],
    props=["C07"],
    note="in-place difference equals set-theoretic difference; S - S is empty",
)

REG.contract(
    "dns.set.Set.update",
    params={"self": SET, "other": SET},
    cases=[_DISTINCT],
    raises=[],
    modifies={"self.items": T.map_of(T.int, T.none)},
    loops={0: loop(index="i0", invariant=[
        "all(k in self.items for k in old_self.items)",
        "all(other_keys[j] in self.items for j in range(i0))",
        "all((k in old_self.items) or (k in other.items) for k in self.items)",
    ], modifies={"self.items": T.map_of(T.int, T.none)})},
    ghost_entry={"other_keys": "other.items.keys()"},
    ensures=["all(k in self.items for k in old_self.items)", "all(k in self.items for k in other.items)",
             "all((k in old_self.items) or (k in other.items) for k in self.items)"],
    props=["C07"],
    note="update(other) with another set: the result is the set-theoretic union (iteration is over the other set's items)",
)

# ---- predicates and clear (read-only loops with an early exit; both directions of the verdict) ----
REG.contract(
    "dns.set.Set.issubset",
    params={"self": SET, "other": SET},
    cases=[_DISTINCT, _ALIAS],
    raises=[],
    modifies={},
    loops={0: loop(index="i0", invariant=[
        "all(self_keys[j] in other.items for j in range(i0))",
    ])},
    ghost_entry={"self_keys": "self.items.keys()"},
    ensures=["(not result) or all(k in other.items for k in self.items)",
             "result or any(not (self_keys[j] in other.items) for j in range(len(self_keys)))",
             "result == True or result == False"],
    props=["C07"],
    note="issubset is exactly the set-theoretic inclusion (True iff every element is in other), nothing is modified",
)

REG.contract(
    "dns.set.Set.issuperset",
    params={"self": SET, "other": SET},
    cases=[_DISTINCT, _ALIAS],
    raises=[],
    modifies={},
    loops={0: loop(index="i0", invariant=[
        "all(other_keys[j] in self.items for j in range(i0))",
    ])},
    ghost_entry={"other_keys": "other.items.keys()"},
    ensures=["(not result) or all(k in self.items for k in other.items)",
             "result or any(not (other_keys[j] in self.items) for j in range(len(other_keys)))",
             "result == True or result == False"],
    props=["C07"],
    note="issuperset is exactly the converse inclusion, nothing is modified",
)

REG.contract(
    "dns.set.Set.isdisjoint",
    params={"self": SET, "other": SET},
    cases=[_DISTINCT, _ALIAS],
    raises=[],
    modifies={},
    loops={0: loop(index="i0", invariant=[
        "all(not (other_keys[j] in self.items) for j in range(i0))",
    ])},
    ghost_entry={"other_keys": "other.items.keys()"},
    ensures=["(not result) or all(not (k in self.items) for k in other.items)",
             "result or any((other_keys[j] in self.items) for j in range(len(other_keys)))",
             "result == True or result == False"],
    props=["C07"],
    note="isdisjoint is True iff no element of other is in self (so a non-empty set is not disjoint from itself)",
)

REG.contract(
    "dns.set.Set.clear",
    params={"self": SET},
    raises=[],
    modifies={"self.items": T.map_of(T.int, T.none)},
    ensures=["all(not (k in self.items) for k in old_self.items)", "all(k in old_self.items for k in self.items)"],
    props=["C07"],
    note="clear leaves the empty set",
)
