"""Contracts for dns/tsig.py (C14): the octets fed to the HMAC are exactly the RFC 8945 4.3 digest
components.  The HMAC itself is an external function (A-crypto): the context is modelled by the
ghost concatenation of everything passed to update()."""
from pyvc.api import REG
from pyvc.sym import T
import pyvc.spec  # noqa: F401
from contracts.name import NAME, ISABS

REG.declare_class("dns.tsig.HMACTSig", ghost_data=T.bytes)
CTX = T.obj("dns.tsig.HMACTSig")
REG.declare_class("dns.tsig.Key", name=NAME, algorithm=NAME, secret=T.bytes)
KEY = T.obj("dns.tsig.Key")
REG.declare_class("dns.rdtypes.ANY.TSIG.TSIG", original_id=T.u16, time_signed=T.range(0, 2**48 - 1), fudge=T.u16, error=T.u16, other=T.bytes)
TSIGRD = T.obj("dns.rdtypes.ANY.TSIG.TSIG")

REG.contract(
    "dns.tsig.HMACTSig.update",
    params={"self": CTX, "data": T.bytes},
    raises=[],
    modifies={"self.ghost_data": T.bytes},
    ensures=["self.ghost_data == old_self.ghost_data + data"],
    status="assumed",
    props=["C14"],
    note="ASSUMED (A-crypto): the HMAC context is a function of the concatenation of the update() arguments",
)

REG.contract(
    "dns.tsig.get_context",
    params={"key": KEY},
    raises=[("builtins.NotImplementedError", "True", "may")],
    returns=CTX,
    ensures=["len(result.ghost_data) == 0"],
    status="assumed",
    props=["C14"],
    note="ASSUMED: a new context has digested nothing yet (hmac.new with the key and the algorithm's digest)",
)

_FIRST = "(ctx is None or not multi)"
_T = "(rdata.time_signed if time is None else time)"
_RM = "((be(len(request_mac), 2) + request_mac) if request_mac else b'')"
_COMMON = "be(rdata.original_id, 2) + wire[2:]"
_VARS_FIRST = (f"wenc(key.name.labels, len(key.name.labels), True) + be(255, 2) + be(0, 4) + "
               f"wenc(key.algorithm.labels, len(key.algorithm.labels), True) + be({_T}, 6) + be(rdata.fudge, 2) + "
               f"be(rdata.error, 2) + be(len(rdata.other), 2) + rdata.other")
_VARS_LATER = f"be({_T}, 6) + be(rdata.fudge, 2)"

REG.contract(
    "dns.tsig._digest",
    params={"wire": T.bytes, "key": KEY, "rdata": TSIGRD, "time": T.opt(T.range(0, 2**48 - 1)),
            "request_mac": T.opt(T.bytes), "ctx": T.opt(CTX), "multi": T.oneof(None, False, True)},
    requires=[ISABS("key.name"), ISABS("key.algorithm"), "request_mac is None or len(request_mac) <= 65535", "len(wire) >= 2"],
    raises=[("builtins.ValueError", "len(rdata.other) > 65535"),
            ("builtins.NotImplementedError", f"{_FIRST}", "may")],
    returns=CTX,
    modifies={"ctx.ghost_data": T.bytes},
    result_alias=[(f"not {_FIRST}", "ctx")],
    ensures=[
        f"(not {_FIRST}) or result.ghost_data == {_RM} + {_COMMON} + {_VARS_FIRST}",
        f"{_FIRST} or (result is ctx and result.ghost_data == old_ctx.ghost_data + {_COMMON} + {_VARS_LATER})",
    ],
    props=["C14"],
    note="RFC 8945 4.3: first message: [request MAC length + MAC] + original id + message[2:] + canonical key name + class ANY + "
         "TTL 0 + canonical algorithm name + 48-bit time + fudge + error + other length + other data; subsequent messages of a "
         "multi-message exchange: original id + message[2:] + time + fudge appended to the running context",
)

REG.contract(
    "dns.tsig._maybe_start_digest",
    params={"key": KEY, "mac": T.bytes, "multi": T.oneof(None, False, True)},
    requires=["len(mac) <= 65535"],
    raises=[("builtins.NotImplementedError", "True", "may")],
    returns=T.opt(CTX),
    ensures=["(not multi) or (result is not None)", "(not multi) or result.ghost_data == be(len(mac), 2) + mac", "multi or result is None"],
    props=["C14"],
    note="multi-message chaining: the next context is primed with the length-prefixed MAC of the message just processed",
)

# ----------------------------------------------------------------------------- validate: the order and exactness of the checks


def NAME_EQ(a, b):
    """the names a and b are equal: same number of labels, labels equal up to ASCII case"""
    from contracts.name import LAB

    return f"(len({a}.labels) == len({b}.labels) and all({LAB(a, 'm')} == {LAB(b, 'm')} for m in range(len({a}.labels))))"


REG.contract(
    "dns.tsig.HMACTSig.verify",
    params={"self": CTX, "expected": T.bytes},
    raises=[("dns.tsig.BadSignature", "True", "may")],
    status="assumed", props=["C14"],
    note="ASSUMED (A-crypto): verify() compares the HMAC of what was digested with the given MAC and raises BadSignature on a mismatch",
)
_TSIGRD2 = T.obj("dns.rdtypes.ANY.TSIG.TSIG", algorithm=NAME, mac=T.bytes)
_ADC = "(wire[10] * 256 + wire[11])"
_PEER = {16: "PeerBadSignature", 17: "PeerBadKey", 18: "PeerBadTime", 22: "PeerBadTruncation"}
_NOERR = f"({_ADC} != 0 and rdata.error == 0)"
_INWIN = "((rdata.time_signed - now if rdata.time_signed >= now else now - rdata.time_signed) <= rdata.fudge)"
REG.contract(
    "dns.tsig.validate",
    params={"wire": T.bytes, "key": KEY, "owner": NAME, "rdata": _TSIGRD2, "now": T.range(0, 2**48 - 1),
            "request_mac": T.opt(T.bytes), "tsig_start": T.int, "ctx": T.opt(CTX), "multi": T.oneof(None, False, True)},
    requires=[ISABS("key.name"), ISABS("key.algorithm"), "request_mac is None or len(request_mac) <= 65535",
              "12 <= tsig_start and tsig_start <= len(wire)", "len(rdata.mac) <= 65535", "len(rdata.other) <= 65535"],
    raises=[
        ("dns.exception.FormError", f"{_ADC} == 0"),
    ] + [(f"dns.tsig.{n}", f"{_ADC} != 0 and rdata.error == {c}") for c, n in _PEER.items()] + [
        ("dns.tsig.PeerError", f"{_ADC} != 0 and rdata.error != 0", "may"),
        # the signing time must lie within the fudge window on *both* sides of the validator's clock
        ("dns.tsig.BadTime", f"{_NOERR} and not {_INWIN}"),
        ("dns.tsig.BadKey", f"{_NOERR} and {_INWIN} and not ({NAME_EQ('key.name', 'owner')})"),
        ("dns.tsig.BadAlgorithm", f"{_NOERR} and {_INWIN} and ({NAME_EQ('key.name', 'owner')}) and not ({NAME_EQ('key.algorithm', 'rdata.algorithm')})"),
        ("dns.tsig.BadSignature", "True", "may"),
        ("builtins.NotImplementedError", "True", "may"),
    ],
    returns=T.opt(CTX),
    props=["C14"],
    note="validate: FormError without an additional record; the peer's error code is reported; BadTime exactly when the "
         "signing time is outside the fudge window (either side); then key name, then algorithm (case-insensitively), and only "
         "then the MAC over _digest's components is checked",
)

# ----------------------------------------------------------------------------- sign: the MAC is taken over exactly _digest's octets
import z3 as _z3  # noqa: E402
from pyvc import sym as _S  # noqa: E402
from pyvc.sym import SBytes as _SBytes  # noqa: E402

_HMAC = _z3.Function("hmac_of", _S.SeqI, _S.SeqI)  # keyed digest of everything fed to the context (A-crypto: uninterpreted)


def _hmac_smt(I, data):
    from pyvc import models as M

    return _SBytes(_HMAC(M.as_seq(I, data)), "bytes")


REG.spec("hmac_of", _hmac_smt, lambda d: b"", "the MAC the (fixed) key and algorithm give for the digested octets d")
REG.contract(
    "dns.tsig.HMACTSig.sign", params={"self": CTX}, raises=[], returns=T.bytes,
    ensures=["result == hmac_of(self.ghost_data)", "len(result) <= 65535"], status="assumed", props=["C14"],
    note="ASSUMED (A-crypto): sign() returns the MAC of what was digested (truncated as the algorithm name says)",
)
_TSIGRD3 = T.obj("dns.rdtypes.ANY.TSIG.TSIG", algorithm=NAME, mac=T.bytes)
REG.contract(
    "dns.rdata.Rdata.replace#tsig",
    target="dns.rdata.Rdata.replace",
    params={"self": _TSIGRD3, "time_signed": T.range(0, 2**48 - 1), "mac": T.bytes},
    raises=[], returns=_TSIGRD3, when=lambda b: "fudge" in getattr(b.get("self"), "fields", {}),
    ensures=["result.time_signed == time_signed and result.mac == mac",
             "result.original_id == self.original_id and result.fudge == self.fudge and result.error == self.error "
             "and result.other == self.other"],
    status="assumed", props=["C14"],
    note="ASSUMED: Rdata.replace returns a copy with exactly the named fields replaced (generic constructor path, C07)",
)
REG.contract(
    "dns.tsig.sign",
    no_native=True,
    params={"wire": T.bytes, "key": KEY, "rdata": _TSIGRD3, "time": T.range(0, 2**48 - 1),
            "request_mac": T.opt(T.bytes), "ctx": T.opt(CTX), "multi": T.oneof(None, False, True)},
    requires=[ISABS("key.name"), ISABS("key.algorithm"), "request_mac is None or len(request_mac) <= 65535", "len(wire) >= 2",
              "len(rdata.other) <= 65535"],
    raises=[("builtins.NotImplementedError", "True", "may")],
    returns=T.fixed(_TSIGRD3, T.opt(CTX)),
    ensures=[
        # first message (or a single one): the MAC covers [request MAC] + id-normalised message + the TSIG variables
        f"(not {_FIRST}) or result[0].mac == hmac_of({_RM} + {_COMMON} + {_VARS_FIRST})".replace("{_T}", "time"),
        "result[0].time_signed == time and result[0].fudge == rdata.fudge and result[0].original_id == rdata.original_id "
        "and result[0].error == rdata.error and result[0].other == rdata.other",
        # multi-message exchanges: the next context starts from the length-prefixed MAC just produced
        "(not multi) or (result[1] is not None)",
        "(not multi) or result[1].ghost_data == be(len(result[0].mac), 2) + result[0].mac",
        "multi or result[1] is None",
    ],
    props=["C14"],
    note="sign: the MAC placed in the TSIG record is the HMAC of exactly the RFC 8945 digest components with the given signing "
         "time (modular over _digest), the other TSIG fields are kept, and the follow-up context is primed with that MAC",
)
