"""Small contracts for zone loading rules (C09) and B-tree zone node flags (C20)."""
from pyvc.api import REG
from pyvc.sym import T
import pyvc.spec  # noqa: F401

# RFC 1034 3.6.2 / RFC 4035 2.5: a CNAME may coexist only with its own RRSIG and with NSEC, NSEC3, KEY (and their RRSIGs)
_IS = lambda t: f"(rdtype == {t} or (rdtype == 46 and covers == {t}))"
_CNAME = _IS(5)
_NEUTRAL = f"({_IS(47)} or {_IS(50)} or {_IS(25)})"
REG.contract(
    "dns.node.NodeKind.classify",
    params={"cls": T.const(None), "rdtype": T.u16, "covers": T.u16},
    raises=[],
    ensures=[
        f"(result == NodeKind.CNAME) == {_CNAME}",
        f"(result == NodeKind.NEUTRAL) == ((not {_CNAME}) and {_NEUTRAL})",
        f"(result == NodeKind.REGULAR) == ((not {_CNAME}) and (not {_NEUTRAL}))",
    ],
    props=["C09"],
    note="which record types may coexist with a CNAME: CNAME and RRSIG(CNAME) are CNAME-kind; NSEC, NSEC3, KEY and their RRSIGs "
         "are neutral; everything else is 'other data'",
)


def _mk_bnode(f):
    import dns.btreezone

    return dns.btreezone.Node(dns.btreezone.NodeFlags(f["flags"]))


REG.declare_class("dns.btreezone.Node", make=_mk_bnode, flags=T.range(0, 7))
BNODE = T.obj("dns.btreezone.Node")
for meth, mask in (("is_origin", 1), ("is_delegation", 2), ("is_glue", 4), ("is_origin_or_glue", 5)):
    REG.contract(
        f"dns.btreezone.Node.{meth}",
        params={"self": BNODE},
        raises=[],
        returns=T.bool,
        ensures=[f"result == ((self.flags // 1) % 2 == 1)" if mask == 1 else
                 f"result == ((self.flags // 2) % 2 == 1)" if mask == 2 else
                 f"result == ((self.flags // 4) % 2 == 1)" if mask == 4 else
                 "result == ((self.flags % 2 == 1) or ((self.flags // 4) % 2 == 1))"],
        props=["C20"],
        note="flag predicates read exactly their own bit (ORIGIN=1, DELEGATION=2, GLUE=4)",
    )
