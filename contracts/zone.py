"""Small contracts for zone loading rules (C09) and B-tree zone node flags (C20)."""
from pyvc.api import REG
from pyvc.sym import T
import pyvc.spec  # noqa: F401

# RFC 1034 3.6.2 / RFC 4035 2.5: a CNAME may coexist only with its own RRSIG and with NSEC, NSEC3, KEY (and their RRSIGs)
_IS = lambda t: f"(rdtype == {t} or (rdtype == 46 and covers == {t}))"
_CNAME = _IS(5)
_NEUTRAL = f"({_IS(47)} or {_IS(50)} or {_IS(25)})"
REG.contract(
    "dns.node.NodeKind.classify",
    params={"cls": T.const(None), "rdtype": T.u16, "covers": T.u16},
    raises=[],
    ensures=[
        f"(result == NodeKind.CNAME) == {_CNAME}",
        f"(result == NodeKind.NEUTRAL) == ((not {_CNAME}) and {_NEUTRAL})",
        f"(result == NodeKind.REGULAR) == ((not {_CNAME}) and (not {_NEUTRAL}))",
    ],
    props=["C09"],
    note="which record types may coexist with a CNAME: CNAME and RRSIG(CNAME) are CNAME-kind; NSEC, NSEC3, KEY and their RRSIGs "
         "are neutral; everything else is 'other data'",
)


def _mk_bnode(f):
    import dns.btreezone

    return dns.btreezone.Node(dns.btreezone.NodeFlags(f["flags"]))


REG.declare_class("dns.btreezone.Node", make=_mk_bnode, flags=T.range(0, 7))
BNODE = T.obj("dns.btreezone.Node")
for meth, mask in (("is_origin", 1), ("is_delegation", 2), ("is_glue", 4), ("is_origin_or_glue", 5)):
    REG.contract(
        f"dns.btreezone.Node.{meth}",
        params={"self": BNODE},
        raises=[],
        returns=T.bool,
        ensures=[f"result == ((self.flags // 1) % 2 == 1)" if mask == 1 else
                 f"result == ((self.flags // 2) % 2 == 1)" if mask == 2 else
                 f"result == ((self.flags // 4) % 2 == 1)" if mask == 4 else
                 "result == ((self.flags % 2 == 1) or ((self.flags // 4) % 2 == 1))"],
        props=["C20"],
        note="flag predicates read exactly their own bit (ORIGIN=1, DELEGATION=2, GLUE=4)",
    )


# ----------------------------------------------------------------------------- C20: flags given to a node when it is copied for writing
from contracts.name import NAME  # noqa: E402


class _Deleg:
    """stub delegation index: the two questions the writable version asks it"""

    def is_glue(self, name):
        raise NotImplementedError

    def __contains__(self, name):
        raise NotImplementedError


class _ZoneStub:
    pass


DEL = "contracts.zone._Deleg"
# the index answers are arbitrary but fixed booleans for the name at hand (ghost fields)
REG.declare_class(DEL, glue=T.bool, cut=T.bool)
REG.contract(DEL + ".is_glue", params={"self": T.obj(DEL), "name": NAME}, raises=[], returns=T.bool, ensures=["result == self.glue"],
             status="assumed", props=["C20"], note="stub index: is the name strictly beneath a delegation point")
REG.contract(DEL + ".__contains__", params={"self": T.obj(DEL), "name": NAME}, raises=[], returns=T.bool, ensures=["result == self.cut"],
             status="assumed", props=["C20"], note="stub index: is the name a delegation point")
_BNODE2 = T.obj("dns.btreezone.Node", raw=True, flags=T.range(0, 7))
REG.contract(
    "dns.zone.WritableVersion._maybe_cow_with_name",
    params={"self": T.obj("dns.zone.WritableVersion", raw=True), "name": NAME}, raises=[("builtins.KeyError", "True", "may")],
    returns=T.fixed(_BNODE2, NAME), status="assumed", props=["C20"],
    note="ASSUMED here (base class): returns the node to write to - the existing private copy with the flags it has, or a new "
         "copy with no flags - and the validated name",
)
_WV20 = T.obj("dns.btreezone.WritableVersion", raw=True, delegations=T.obj(DEL), origin=NAME,
              # (the zone's own origin may still be unset while the first version is written: it must not be what is tested)
              zone=T.obj("contracts.zone._ZoneStub", raw=True, relativize=T.bool, origin=T.opt(NAME)))
from contracts.name import LAB  # noqa: E402

_ISORIGIN = ("((len(result[1].labels) == 0) if self.zone.relativize else "
             f"(len(result[1].labels) == len(self.origin.labels) and all({LAB('result[1]', 'm')} == {LAB('self.origin', 'm')} "
             "for m in range(len(result[1].labels)))))")
REG.contract(
    "dns.btreezone.WritableVersion._maybe_cow_with_name",
    params={"self": _WV20, "name": NAME},
    raises=[("builtins.KeyError", "True", "may")],
    returns=T.fixed(_BNODE2, NAME),
    ensures=[
        # exactly one of the three derived flags is (re)asserted, chosen by content: origin, else beneath a cut, else a cut
        f"(not {_ISORIGIN}) or result[0].flags % 2 == 1",
        f"{_ISORIGIN} or (not self.delegations.glue) or (result[0].flags // 4) % 2 == 1",
        f"{_ISORIGIN} or self.delegations.glue or (not self.delegations.cut) or (result[0].flags // 2) % 2 == 1",
    ],
    props=["C20"],
    note="a node handed out for writing carries ORIGIN if it is the zone origin, else GLUE if the delegation index says it "
         "is beneath a cut, else DELEGATION if the index lists it as a cut: a copied node never loses its derived flag",
)
