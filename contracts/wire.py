"""Contracts for dns/wirebase.py and dns/wire.py (C01, C02, C04)."""
from pyvc.api import REG, loop
from pyvc.sym import T
import pyvc.spec  # noqa: F401

PARSER_INV = ("0 <= self.current and self.current <= self.end and self.end <= len(self.wire) "
              "and 0 <= self.furthest and self.furthest <= len(self.wire)")



def _mk_parser(cls):
    def mk(f):
        import importlib

        mod, _, nm = cls.rpartition(".")
        k = getattr(importlib.import_module(mod), nm)
        p = k(f["wire"], 0)
        p.current, p.end, p.furthest = f["current"], f["end"], f["furthest"]
        return p

    return mk


def _gen_parser(cls):
    def gen(rng):
        n = rng.choice([0, 1, 2, 3, 4, 6, 12, 40, 300])
        wire = bytes(rng.choice([0, 1, 2, 3, 63, 64, 0xC0, 0xC1, 0xFF, rng.randrange(256)]) for _ in range(n))
        end = rng.randint(0, n)
        cur = rng.randint(0, end)
        return _mk_parser(cls)({"wire": wire, "current": cur, "end": end, "furthest": rng.randint(0, n)})

    return gen


for _c in ("dns.wirebase.Parser", "dns.wire.Parser"):
    REG.declare_class(_c, inv=PARSER_INV, make=_mk_parser(_c), gen=_gen_parser(_c),
                      wire=T.bytes, current=T.int, end=T.int, furthest=T.int)

PARSER = T.obj("dns.wirebase.Parser")
FRAME = ["self.wire == old_self.wire", "self.end == old_self.end"]

REG.contract(
    "dns.wirebase.Parser.get_bytes",
    params={"self": PARSER, "size": T.int},
    requires=[PARSER_INV],
    raises=[
        ("builtins.AssertionError", "size < 0"),
        ("dns.exception.FormError", "size >= 0 and size > self.end - self.current"),
    ],
    returns=T.bytes,
    modifies={"self.current": T.int, "self.furthest": T.int},
    ensures=[
        "len(result) == size",
        "result == old_self.wire[old_self.current:old_self.current + size]",
        "self.current == old_self.current + size",
        "self.furthest == (old_self.furthest if old_self.furthest >= self.current else self.current)",
        PARSER_INV,
    ] + FRAME,
    ensures_raise=["self.current == old_self.current", "self.furthest == old_self.furthest"] + FRAME,
    props=["C01", "C02", "C04"],
    note="never slices out of range: FormError exactly when fewer than size octets remain",
)

for nm, n in (("get_uint8", 1), ("get_uint16", 2), ("get_uint32", 4), ("get_uint48", 6)):
    val = " + ".join(f"old_self.wire[old_self.current + {k}] * {256 ** (n - 1 - k)}" for k in range(n))
    REG.contract(
        f"dns.wirebase.Parser.{nm}",
        params={"self": PARSER},
        requires=[PARSER_INV],
        raises=[("dns.exception.FormError", f"self.end - self.current < {n}")],
        returns=T.int,
        modifies={"self.current": T.int, "self.furthest": T.int},
        ensures=[
            f"result == {val}",
            f"0 <= result and result < {256 ** n}",
            f"self.current == old_self.current + {n}",
            "self.furthest == (old_self.furthest if old_self.furthest >= self.current else self.current)",
            PARSER_INV,
        ] + FRAME,
        ensures_raise=["self.current == old_self.current", "self.furthest == old_self.furthest"] + FRAME,
        props=["C01", "C02", "C04"],
    )

REG.contract(
    "dns.wirebase.Parser.seek",
    params={"self": PARSER, "where": T.int},
    requires=[PARSER_INV],
    raises=[("dns.exception.FormError", "where < 0 or where > self.end")],
    modifies={"self.current": T.int},
    ensures=["self.current == where", "self.furthest == old_self.furthest", PARSER_INV] + FRAME,
    ensures_raise=["self.current == old_self.current", "self.furthest == old_self.furthest"] + FRAME,
    props=["C01", "C04"],
)

REG.contract(
    "dns.wirebase.Parser.get_remaining",
    params={"self": PARSER},
    requires=[PARSER_INV],
    raises=[],
    returns=T.bytes,
    modifies={"self.current": T.int, "self.furthest": T.int},
    ensures=[
        "result == old_self.wire[old_self.current:old_self.end]",
        "self.current == self.end",
        "self.furthest == (old_self.furthest if old_self.furthest >= self.current else self.current)",
        PARSER_INV,
    ] + FRAME,
    props=["C02", "C04"],
)

REG.contract(
    "dns.wirebase.Parser.get_counted_bytes",
    params={"self": PARSER},
    requires=[PARSER_INV],
    raises=[("dns.exception.FormError",
             "self.end - self.current < 1 or self.end - self.current - 1 < self.wire[self.current]")],
    returns=T.bytes,
    modifies={"self.current": T.int, "self.furthest": T.int},
    ensures=[
        "len(result) == old_self.wire[old_self.current]",
        "result == old_self.wire[old_self.current + 1:old_self.current + 1 + len(result)]",
        "self.current == old_self.current + 1 + len(result)",
        PARSER_INV,
    ] + FRAME,
    props=["C02", "C04"],
    note="length_size=1 form (the default); other sizes are inlined at their call sites",
)
