"""Contracts for the stream framing loops of dns/query.py (C18).  The socket is an external
object under an assumed contract: recv(n) hands over a prefix of at most n octets of the peer's
byte stream (ghost_stream), b'' at end of stream, or raises a would-block exception; send(b)
accepts a prefix of b (appended to ghost_sent) or raises a would-block exception."""
import socket
import ssl

import z3

from pyvc.api import REG, loop
from pyvc.sym import T, SBytes, SInt, ExcVal, to_z3, simp
from pyvc import sym as S
import pyvc.spec  # noqa: F401
from pyvc.interp import PyExc

REG.declare_class("socket.socket", ghost_stream=T.bytes, ghost_sent=T.bytes)
SOCK = T.obj("socket.socket")


def _would_block(I, what):
    d = I.path.choose(4, note=f"sock.{what}")
    if d == 1:
        raise PyExc(ExcVal(BlockingIOError, ()))
    if d == 2:
        raise PyExc(ExcVal(ssl.SSLWantReadError, ()))
    if d == 3:
        raise PyExc(ExcVal(ssl.SSLWantWriteError, ()))


def m_recv(I, args, kwargs):
    sock, n = args[0], to_z3(args[1])
    _would_block(I, "recv")
    p = I.path
    k = p.fresh_int("recv_len")
    stream = sock.fields["ghost_stream"].e
    p.assume(z3.And(k >= 0, k <= n, k <= z3.Length(stream)))
    r = z3.SubSeq(stream, 0, k)
    sock.fields["ghost_stream"] = SBytes(z3.SubSeq(stream, k, z3.Length(stream) - k), "bytes")
    return SBytes(r, "bytes")


def m_send(I, args, kwargs):
    sock, data = args[0], args[1]
    from pyvc import models as M

    e = M.as_seq(I, data)
    _would_block(I, "send")
    p = I.path
    k = p.fresh_int("send_len")
    p.assume(z3.And(k >= 0, k <= z3.Length(e)))
    sock.fields["ghost_sent"] = SBytes(z3.Concat(sock.fields["ghost_sent"].e, z3.SubSeq(e, 0, k)), "bytes")
    return SInt(k)


REG.external(socket.socket.recv, m_recv, "ASSUMED socket.recv(n): returns a prefix of <= n octets of the remaining stream (b'' allowed), or raises BlockingIOError / SSLWantReadError / SSLWantWriteError without consuming anything")
REG.external(socket.socket.send, m_send, "ASSUMED socket.send(b): accepts a prefix of b, returns its length, or raises a would-block exception without sending")

for _w in ("_wait_for_readable", "_wait_for_writable"):
    REG.contract(
        f"dns.query.{_w}",
        params={"s": SOCK, "expiration": T.opt(T.real)},
        raises=[("dns.exception.Timeout", "True", "may")],
        ensures=["s.ghost_stream == old_s.ghost_stream", "s.ghost_sent == old_s.ghost_sent"],
        ensures_raise=["s.ghost_stream == old_s.ghost_stream", "s.ghost_sent == old_s.ghost_sent"],
        status="assumed",
        props=["C18"],
        note="ASSUMED: waiting returns or raises Timeout; it neither reads nor writes",
    )

REG.contract(
    "dns.query._net_read",
    params={"sock": SOCK, "count": T.nat, "expiration": T.opt(T.real)},
    raises=[("builtins.EOFError", "True", "may"), ("dns.exception.Timeout", "True", "may")],
    returns=T.bytes,
    loops={0: loop(invariant=[
        "count >= 0 and len(s) + count == old_count",
        "s == old_sock.ghost_stream[:len(s)] and len(s) <= len(old_sock.ghost_stream)",
        "sock.ghost_stream == old_sock.ghost_stream[len(s):]",
    ], modifies={"sock.ghost_stream": T.bytes})},
    ensures=[
        "len(result) == old_count",
        "result == old_sock.ghost_stream[:old_count]",
        "sock.ghost_stream == old_sock.ghost_stream[old_count:]",
    ],
    props=["C18"],
    note="for every fragmentation of the stream into recv() chunks and would-block events the result is exactly the next `count` "
         "octets in order, never a short result: the only other exits are EOFError and Timeout (termination is not claimed: a "
         "peer may stall forever within the deadline)",
)

REG.contract(
    "dns.query._net_write",
    params={"sock": SOCK, "data": T.bytes, "expiration": T.opt(T.real)},
    raises=[("dns.exception.Timeout", "True", "may")],
    loops={0: loop(invariant=[
        "0 <= current and current <= l and l == len(data)",
        "sock.ghost_sent == old_sock.ghost_sent + data[:current]",
    ], modifies={"sock.ghost_sent": T.bytes})},
    ensures=["sock.ghost_sent == old_sock.ghost_sent + data"],
    props=["C18"],
    note="every octet of data is handed to the socket exactly once and in order, whatever prefix each send() accepts",
)

# ----------------------------------------------------------------------------- async twin
# ghost_deadline: the absolute deadline the caller is working against (None: no deadline)
REG.declare_class("dns._asyncbackend.StreamSocket", ghost_stream=T.bytes, ghost_deadline=T.opt(T.real))
ASOCK = T.obj("dns._asyncbackend.StreamSocket")

REG.contract(
    "dns._asyncbackend.StreamSocket.recv",
    params={"self": ASOCK, "size": T.int, "timeout": T.opt(T.real)},
    # each wait is bounded by what is left of the deadline at the moment it starts (time_last: the caller's latest clock
    # reading); while the call waits the clock moves on (clock_reads=1)
    requires=["(self.ghost_deadline is None) or ((timeout is not None) and timeout <= (self.ghost_deadline - time_last if self.ghost_deadline - time_last > 0 else 0))"],
    clock_reads=1,
    raises=[("dns.exception.Timeout", "True", "may")],
    returns=T.bytes,
    modifies={"self.ghost_stream": T.bytes},
    ensures=["len(result) <= size and len(result) <= len(old_self.ghost_stream)",
             "result == old_self.ghost_stream[:len(result)]",
             "self.ghost_stream == old_self.ghost_stream[len(result):]"],
    ensures_raise=["self.ghost_stream == old_self.ghost_stream"],
    status="assumed",
    props=["C18"],
    note="ASSUMED contract of the async backend's stream recv(): a prefix of at most `size` octets (b'' at end of stream) or Timeout",
)

REG.contract(
    "dns.asyncquery._read_exactly",
    params={"sock": ASOCK, "count": T.nat, "expiration": T.opt(T.real)},
    requires=["(sock.ghost_deadline is None) == (expiration is None)", "(expiration is None) or sock.ghost_deadline == expiration"],
    raises=[("builtins.EOFError", "True", "may"), ("dns.exception.Timeout", "True", "may")],
    returns=T.bytes,
    loops={0: loop(invariant=[
        "count >= 0 and len(s) + count == old_count",
        "s == old_sock.ghost_stream[:len(s)] and len(s) <= len(old_sock.ghost_stream)",
        "sock.ghost_stream == old_sock.ghost_stream[len(s):]",
    ], modifies={"sock.ghost_stream": T.bytes})},
    ensures=["len(result) == old_count", "result == old_sock.ghost_stream[:old_count]",
             "sock.ghost_stream == old_sock.ghost_stream[old_count:]"],
    props=["C18"],
    note="the asyncio/trio twin of _net_read satisfies the same contract ('await e' is read as 'e'); every recv is given a "
         "timeout recomputed from the current clock, so the total wait never exceeds the deadline",
)


# ----------------------------------------------------------------------------- C18: is the datagram from where the query went?
import z3 as _z3  # noqa: E402
from pyvc import sym as _S  # noqa: E402
from pyvc.sym import SBool as _SBool, SBytes as _SBytes  # noqa: E402

# the binary form of a textual address, whether the text is a valid address of the family, and whether it is multicast:
# uninterpreted functions of the text (dns.inet is external to this property)
_PTON = _z3.Function("inet_pton", _S.IntS, _S.SeqI, _S.SeqI)
_PTON_OK = _z3.Function("inet_pton_valid", _S.IntS, _S.SeqI, _S.BoolS)
_MCAST = _z3.Function("inet_is_multicast", _S.SeqI, _S.BoolS)


def _seq(I, v):
    from pyvc import models as M

    return M.as_seq(I, v)


REG.spec("pton", lambda I, af, s: _SBytes(_PTON(_S.to_z3(af), _seq(I, s)), "bytes"), lambda af, s: b"", "binary form of the textual address s in family af")
REG.spec("pton_valid", lambda I, af, s: _SBool(_PTON_OK(_S.to_z3(af), _seq(I, s))), lambda af, s: True, "s is a valid textual address of family af")
REG.spec("is_mcast", lambda I, s: _SBool(_MCAST(_seq(I, s))), lambda s: False, "s is a multicast address")
REG.contract("dns.inet.inet_pton", params={"family": T.int, "text": T.str},
             raises=[("dns.exception.SyntaxError", "not pton_valid(family, text)")], returns=T.bytes,
             ensures=["result == pton(family, text)"], status="assumed", props=["C18"],
             note="ASSUMED: inet_pton is a function of (family, text): the binary address, or SyntaxError for invalid text")
REG.contract("dns.inet.is_multicast", params={"text": T.str}, raises=[("builtins.ValueError", "True", "may")], returns=T.bool,
             ensures=["result == is_mcast(text)"], status="assumed", props=["C18"],
             note="ASSUMED: is_multicast is a function of the address text")
_ADDR = T.fixed(T.str, T.range(0, 65535))
_SAME_BIN = ("(pton_valid(af, from_address[0]) and pton_valid(af, destination[0]) "
             "and pton(af, from_address[0]) == pton(af, destination[0]))")
_MATCH = f"(from_address[1] == destination[1] and ({_SAME_BIN} or is_mcast(destination[0])))"
import socket as _socket  # noqa: E402

REG.contract(
    "dns.query._matches_destination",
    # the clauses speak through uninterpreted functions of the address text (no executable definition): no native evaluation
    no_native=True,
    params={"af": T.oneof(int(_socket.AF_INET), int(_socket.AF_INET6)), "from_address": _ADDR, "destination": T.opt(_ADDR),
            "ignore_unexpected": T.bool},
    raises=[("dns.query.UnexpectedSource", f"(destination is not None) and (not {_MATCH}) and (not ignore_unexpected)"),
            ("builtins.ValueError", "True", "may")],
    returns=T.bool,
    ensures=[f"result == ((destination is None) or {_MATCH})"],
    props=["C18"],
    note="a datagram counts as coming from the queried server exactly when the port is the queried port and the address "
         "is the queried address (compared in binary form) or the query went to a multicast address; otherwise it is "
         "skipped (False) or UnexpectedSource is raised, as configured",
)
