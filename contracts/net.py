"""Contracts for the stream framing loops of dns/query.py (C18).  The socket is an external
object under an assumed contract: recv(n) hands over a prefix of at most n octets of the peer's
byte stream (ghost_stream), b'' at end of stream, or raises a would-block exception; send(b)
accepts a prefix of b (appended to ghost_sent) or raises a would-block exception."""
import socket
import ssl

import z3

from pyvc.api import REG, loop
from pyvc.sym import T, SBytes, SInt, ExcVal, to_z3, simp
from pyvc import sym as S
import pyvc.spec  # noqa: F401
from pyvc.interp import PyExc

REG.declare_class("socket.socket", ghost_stream=T.bytes, ghost_sent=T.bytes)
SOCK = T.obj("socket.socket")


def _would_block(I, what):
    d = I.path.choose(4, note=f"sock.{what}")
    if d == 1:
        raise PyExc(ExcVal(BlockingIOError, ()))
    if d == 2:
        raise PyExc(ExcVal(ssl.SSLWantReadError, ()))
    if d == 3:
        raise PyExc(ExcVal(ssl.SSLWantWriteError, ()))


def m_recv(I, args, kwargs):
    sock, n = args[0], to_z3(args[1])
    _would_block(I, "recv")
    p = I.path
    k = p.fresh_int("recv_len")
    stream = sock.fields["ghost_stream"].e
    p.assume(z3.And(k >= 0, k <= n, k <= z3.Length(stream)))
    r = z3.SubSeq(stream, 0, k)
    sock.fields["ghost_stream"] = SBytes(z3.SubSeq(stream, k, z3.Length(stream) - k), "bytes")
    return SBytes(r, "bytes")


def m_send(I, args, kwargs):
    sock, data = args[0], args[1]
    from pyvc import models as M

    e = M.as_seq(I, data)
    _would_block(I, "send")
    p = I.path
    k = p.fresh_int("send_len")
    p.assume(z3.And(k >= 0, k <= z3.Length(e)))
    sock.fields["ghost_sent"] = SBytes(z3.Concat(sock.fields["ghost_sent"].e, z3.SubSeq(e, 0, k)), "bytes")
    return SInt(k)


REG.external(socket.socket.recv, m_recv, "ASSUMED socket.recv(n): returns a prefix of <= n octets of the remaining stream (b'' allowed), or raises BlockingIOError / SSLWantReadError / SSLWantWriteError without consuming anything")
REG.external(socket.socket.send, m_send, "ASSUMED socket.send(b): accepts a prefix of b, returns its length, or raises a would-block exception without sending")

for _w in ("_wait_for_readable", "_wait_for_writable"):
    REG.contract(
        f"dns.query.{_w}",
        params={"s": SOCK, "expiration": T.opt(T.real)},
        raises=[("dns.exception.Timeout", "True", "may")],
        ensures=["s.ghost_stream == old_s.ghost_stream", "s.ghost_sent == old_s.ghost_sent"],
        ensures_raise=["s.ghost_stream == old_s.ghost_stream", "s.ghost_sent == old_s.ghost_sent"],
        status="assumed",
        props=["C18"],
        note="ASSUMED: waiting returns or raises Timeout; it neither reads nor writes",
    )

REG.contract(
    "dns.query._net_read",
    params={"sock": SOCK, "count": T.nat, "expiration": T.opt(T.real)},
    raises=[("builtins.EOFError", "True", "may"), ("dns.exception.Timeout", "True", "may")],
    returns=T.bytes,
    loops={0: loop(invariant=[
        "count >= 0 and len(s) + count == old_count",
        "s == old_sock.ghost_stream[:len(s)] and len(s) <= len(old_sock.ghost_stream)",
        "sock.ghost_stream == old_sock.ghost_stream[len(s):]",
    ], modifies={"sock.ghost_stream": T.bytes})},
    ensures=[
        "len(result) == old_count",
        "result == old_sock.ghost_stream[:old_count]",
        "sock.ghost_stream == old_sock.ghost_stream[old_count:]",
    ],
    props=["C18"],
    note="for every fragmentation of the stream into recv() chunks and would-block events the result is exactly the next `count` "
         "octets in order, never a short result: the only other exits are EOFError and Timeout (termination is not claimed: a "
         "peer may stall forever within the deadline)",
)

REG.contract(
    "dns.query._net_write",
    params={"sock": SOCK, "data": T.bytes, "expiration": T.opt(T.real)},
    raises=[("dns.exception.Timeout", "True", "may")],
    loops={0: loop(invariant=[
        "0 <= current and current <= l and l == len(data)",
        "sock.ghost_sent == old_sock.ghost_sent + data[:current]",
    ], modifies={"sock.ghost_sent": T.bytes})},
    ensures=["sock.ghost_sent == old_sock.ghost_sent + data"],
    props=["C18"],
    note="every octet of data is handed to the socket exactly once and in order, whatever prefix each send() accepts",
)

# ----------------------------------------------------------------------------- async twin
REG.declare_class("dns._asyncbackend.StreamSocket", ghost_stream=T.bytes)
ASOCK = T.obj("dns._asyncbackend.StreamSocket")

REG.contract(
    "dns._asyncbackend.StreamSocket.recv",
    params={"self": ASOCK, "size": T.int, "timeout": T.opt(T.real)},
    raises=[("dns.exception.Timeout", "True", "may")],
    returns=T.bytes,
    modifies={"self.ghost_stream": T.bytes},
    ensures=["len(result) <= size and len(result) <= len(old_self.ghost_stream)",
             "result == old_self.ghost_stream[:len(result)]",
             "self.ghost_stream == old_self.ghost_stream[len(result):]"],
    ensures_raise=["self.ghost_stream == old_self.ghost_stream"],
    status="assumed",
    props=["C18"],
    note="ASSUMED contract of the async backend's stream recv(): a prefix of at most `size` octets (b'' at end of stream) or Timeout",
)

REG.contract(
    "dns.asyncquery._read_exactly",
    params={"sock": ASOCK, "count": T.nat, "expiration": T.opt(T.real)},
    raises=[("builtins.EOFError", "True", "may"), ("dns.exception.Timeout", "True", "may")],
    returns=T.bytes,
    loops={0: loop(invariant=[
        "count >= 0 and len(s) + count == old_count",
        "s == old_sock.ghost_stream[:len(s)] and len(s) <= len(old_sock.ghost_stream)",
        "sock.ghost_stream == old_sock.ghost_stream[len(s):]",
    ], modifies={"sock.ghost_stream": T.bytes})},
    ensures=["len(result) == old_count", "result == old_sock.ghost_stream[:old_count]",
             "sock.ghost_stream == old_sock.ghost_stream[old_count:]"],
    props=["C18"],
    note="the asyncio/trio twin of _net_read satisfies the same contract ('await e' is read as 'e')",
)
