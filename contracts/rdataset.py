"""Contracts for dns.rdataset.Rdataset (C07 record-set rules, C10 TTL minimisation / singleton rule on merge).
A record is abstracted by an integer identity (as in contracts/sets.py) plus its class, type and covered type."""
from pyvc.api import REG
from pyvc.sym import T
import pyvc.spec  # noqa: F401
import contracts.sets  # noqa: F401  (dns.set.Set contracts used through super())


class _Rd:
    """stub record: what Rdataset.add looks at"""

    def covers(self):
        raise NotImplementedError

    def __hash__(self):
        return 0


RD = "contracts.rdataset._Rd"
REG.declare_heap_class(RD, rdclass=T.u16, rdtype=T.u16, covered=T.u16)
REG.contract(RD + ".covers", params={"self": T.ref(RD)}, raises=[], returns=T.int, ensures=["result == self.covered"],
             status="assumed", props=["C07", "C10"], note="stub record: the type covered by a signature record")
RDS = T.obj("dns.rdataset.Rdataset", raw=True, items=T.map_of(T.int, T.none, ordered=True), rdclass=T.u16, rdtype=T.u16,
            covers=T.u16, ttl=T.range(0, 2**31 - 1))
_SINGLETON = "(rd.rdtype == 5 or rd.rdtype == 39 or rd.rdtype == 47 or rd.rdtype == 30 or rd.rdtype == 6)"  # CNAME DNAME NSEC NXT SOA
_SIG = "(self.rdtype == 46 or self.rdtype == 24)"  # RRSIG, SIG
_MISMATCH = "(self.rdclass != rd.rdclass or self.rdtype != rd.rdtype)"
_ADOPT = "(len(self.items) == 0 and self.covers == 0)"
_UNCHANGED = ["self.ttl == old_self.ttl", "self.covers == old_self.covers", "len(self.items) == len(old_self.items)",
              "all(k in self.items for k in old_self.items)", "all(k in old_self.items for k in self.items)"]

REG.contract(
    "dns.rdataset.Rdataset.update_ttl",
    params={"self": RDS, "ttl": T.range(0, 2**31 - 1)},
    modifies={"self.ttl": None},
    raises=[],
    ensures=["self.ttl == (ttl if (len(self.items) == 0 or ttl < old_self.ttl) else old_self.ttl)",
             "len(self.items) == len(old_self.items)"],
    props=["C07", "C10"],
    note="TTL minimisation: an empty set takes the TTL, otherwise the smaller of the two is kept",
)

REG.contract(
    "dns.rdataset.Rdataset.add",
    params={"self": RDS, "rd": T.ref(RD), "ttl": T.opt(T.range(0, 2**31 - 1))},
    elements_are_keys=True,
    modifies={"self.items": T.map_of(T.int, T.none), "self.ttl": None, "self.covers": None},
    raises=[
        ("dns.rdataset.IncompatibleTypes", _MISMATCH),
        ("dns.rdataset.DifferingCovers", f"(not {_MISMATCH}) and {_SIG} and (not {_ADOPT}) and self.covers != rd.covered"),
    ],
    ensures=[
        "idof(rd) in self.items",
        # a singleton type holds exactly the new record; otherwise the old records stay and only rd is new
        f"(not ({_SINGLETON} and len(old_self.items) > 0)) or all(k == idof(rd) for k in self.items)",
        f"({_SINGLETON} and len(old_self.items) > 0) or all(k in self.items for k in old_self.items)",
        "all((k in old_self.items) or k == idof(rd) for k in self.items)",
        # TTL minimisation on merge; no TTL given: unchanged
        "self.ttl == (old_self.ttl if ttl is None else (ttl if (len(old_self.items) == 0 or ttl < old_self.ttl) else old_self.ttl))",
        # the covered type is adopted only by an empty set that declared none
        f"self.covers == (rd.covered if ({_SIG} and len(old_self.items) == 0 and old_self.covers == 0) else old_self.covers)",
    ],
    # a refused record changes nothing (neither the TTL nor the covered type nor the members)
    ensures_raise=_UNCHANGED,
    props=["C07", "C10"],
    note="Rdataset.add: a record of another class/type, or a signature covering another type, is refused and nothing "
         "changes; otherwise the record is a member, a singleton type replaces the old content, the TTL is the minimum, "
         "and the covered type is adopted only by an empty set that declared none (modular over the Set.add contract)",
)

# ---- in-place union / intersection / update: TTL minimisation first, then the set operation (modular over dns.set.Set)
_TTLMIN = "self.ttl == (other.ttl if (len(old_self.items) == 0 or other.ttl < old_self.ttl) else old_self.ttl)"
_UNION = ["all(k in self.items for k in old_self.items)", "all(k in self.items for k in other.items)",
          "all((k in old_self.items) or (k in other.items) for k in self.items)"]
_INTER = ["all((k in old_self.items) and (k in other.items) for k in self.items)",
          "all((not (k in other.items)) or (k in self.items) for k in old_self.items)"]
for _name, _post in (("union_update", _UNION), ("update", _UNION), ("intersection_update", _INTER)):
    REG.contract(
        f"dns.rdataset.Rdataset.{_name}",
        params={"self": RDS, "other": RDS},
        modifies={"self.items": T.map_of(T.int, T.none), "self.ttl": None},
        raises=[],
        ensures=[_TTLMIN] + _post + ["self.covers == old_self.covers and self.rdtype == old_self.rdtype"],
        props=["C07", "C10"],
        note=f"Rdataset.{_name} (two distinct rdatasets): the TTL becomes the minimum (an empty set takes the other's), the members are "
             "the set-theoretic result",
    )


# ----------------------------------------------------------------------------- records: equality and hash go through the canonical form (C07)
# A record is abstracted by its class, type, whether it holds a relative name, and its DNSSEC canonical form with and
# without an origin (to_digestable is the per-type encoder's business: C02 / C15).
RDATA = T.obj("dns.rdata.Rdata", raw=True, rdclass=T.u16, rdtype=T.u16, has_relative=T.bool, dig_root=T.bytes, dig_none=T.bytes,
              plain_wire=T.bytes, inv="self.has_relative or self.dig_none == self.dig_root")
REG.contract(
    "dns.rdata.Rdata.to_wire#record",
    target="dns.rdata.Rdata.to_wire",
    params={"self": RDATA}, raises=[("dns.name.NeedAbsoluteNameOrOrigin", "True", "may")], returns=T.bytes,
    ensures=["result == self.plain_wire"], status="assumed", props=["C07"],
    when=lambda b: "plain_wire" in getattr(b.get("self"), "fields", {}),
    note="ASSUMED: the non-canonical wire form is some other fixed octet string (letter case of names kept): nothing relates "
         "it to the canonical form",
)
REG.contract(
    "dns.rdata.Rdata.to_digestable",
    params={"self": RDATA, "origin": T.opt(T.obj("dns.name.Name"))},
    raises=[("dns.name.NeedAbsoluteNameOrOrigin", "(origin is None) and self.has_relative")],
    returns=T.bytes,
    ensures=["result == (self.dig_none if origin is None else self.dig_root)"],
    status="assumed", props=["C07"], when=lambda b: "dig_root" in getattr(b.get("self"), "fields", {}),
    note="ASSUMED: the canonical form of an immutable record is a fixed octet string per origin choice; without an origin "
         "it exists exactly when the record holds no relative name, and then does not depend on the origin",
)
_EQ_SPEC = ("(self.rdclass == other.rdclass and self.rdtype == other.rdtype and self.has_relative == other.has_relative "
            "and self.dig_root == other.dig_root)")
REG.contract(
    "dns.rdata.Rdata.__eq__",
    params={"self": RDATA, "other": RDATA},
    raises=[], returns=T.bool, when=lambda b: "dig_root" in getattr(b.get("self"), "fields", {}),
    ensures=[f"result == {_EQ_SPEC}"],
    props=["C07"],
    note="records are equal iff class, type, relativity and canonical form agree",
)
REG.contract(
    "dns.rdata.Rdata.__hash__",
    params={"self": RDATA},
    raises=[], returns=T.int, when=lambda b: "dig_root" in getattr(b.get("self"), "fields", {}),
    ensures=["result == hash(self.dig_root)"],
    props=["C07"],
    note="the hash is taken over the canonical form (relative names completed with the root), the same octets __eq__ compares",
)
REG.lemma(
    "rdata_equal_implies_equal_hash",
    params={"a": RDATA, "b": RDATA},
    uses=[("dns.rdata.Rdata.__eq__", {"self": "a", "other": "b"}, "e"),
          ("dns.rdata.Rdata.__hash__", {"self": "a"}, "ha"), ("dns.rdata.Rdata.__hash__", {"self": "b"}, "hb")],
    goals=["(not e) or ha == hb"],
    props=["C07"],
    note="equal records hash equally (over the two contracts)",
)
