"""Contracts for the resolver's LRU ring (C17): pointer surgery of LRUCacheNode in the symbolic
heap (nodes are references; prev/next are heap fields, so every aliasing between self, node and
their neighbours is covered)."""
from pyvc.api import REG
from pyvc.sym import T
import pyvc.spec  # noqa: F401

NODE = "dns.resolver.LRUCacheNode"
REG.declare_heap_class(NODE, prev=T.ref(NODE), next=T.ref(NODE), key=T.int, hits=T.int, value=T.int)
N = T.ref(NODE)

REG.contract(
    "dns.resolver.LRUCacheNode.link_after",
    params={"self": N, "node": N},
    requires=["node.next.prev is node", "not (self is node)", "not (node.next is self)"],
    raises=[],
    ensures=[
        "self.prev is node and node.next is self",
        "self.next is old_node.next",
        "self.next.prev is self",
        # frame: every other node keeps its links
        "all((n is self) or (n is node) or (n.next is snap(n, old_self).next) for n in refs('dns.resolver.LRUCacheNode'))",
        "all((n is self) or (n is old_node.next) or (n.prev is snap(n, old_self).prev) for n in refs('dns.resolver.LRUCacheNode'))",
    ],
    props=["C17"],
    note="link_after(node) splices self between node and node's old successor; no other node's links change (all aliasing cases)",
)

REG.contract(
    "dns.resolver.LRUCacheNode.unlink",
    params={"self": N},
    requires=["self.next.prev is self and self.prev.next is self"],
    raises=[],
    ensures=[
        "cur(old_self.prev).next is old_self.next",
        "cur(old_self.next).prev is old_self.prev",
        "all((n is old_self.prev) or (n.next is snap(n, old_self).next) for n in refs('dns.resolver.LRUCacheNode'))",
        "all((n is old_self.next) or (n.prev is snap(n, old_self).prev) for n in refs('dns.resolver.LRUCacheNode'))",
    ],
    props=["C17"],
    note="unlink() makes self's neighbours point at each other; no other link changes",
)

for _c in ("dns.resolver.LRUCacheNode.link_after", "dns.resolver.LRUCacheNode.unlink"):
    REG.contracts[_c].modifies_heap = [(NODE, "prev"), (NODE, "next")]

# ----------------------------------------------------------------------------- Level-2: the ring (ghost sequence of node ids)
R = lambda e: f"ref('{NODE}', {e})"


def RING(O, view=lambda x: x):
    return [
        f"len({O}) >= 1",
        f"all({O}[a] != {O}[b] for a in range(len({O})) for b in range(a + 1, len({O})))",
        f"all({view(R(O + '[i]'))}.next is {R(O + '[i + 1]')} for i in range(len({O}) - 1))",
        f"{view(R(O + '[len(' + O + ') - 1]'))}.next is {R(O + '[0]')}",
        f"all({view(R(O + '[i + 1]'))}.prev is {R(O + '[i]')} for i in range(len({O}) - 1))",
        f"{view(R(O + '[0]'))}.prev is {R(O + '[len(' + O + ') - 1]')}",
    ]


REG.lemma(
    "lru_unlink_removes_from_ring",
    params={"order": T.id_seq(), "order2": T.id_seq(), "j": T.int},
    pre_hyps=RING("order") + [
        "1 <= j and j < len(order)",
        "len(order2) == len(order) - 1",
        "all(order2[i] == order[i] for i in range(j))",
        "all(order2[i] == order[i + 1] for i in range(j, len(order) - 1))",
    ],
    uses=[("dns.resolver.LRUCacheNode.unlink", {"self": R("order[j]")}, "u")],
    goals=RING("order2"),
    props=["C17"],
    note="if the nodes form a ring in the order `order` (sentinel first), unlinking the node at position j >= 1 leaves a ring in "
         "the order with that node removed: eviction from the tail and removal on hit/replace keep the recency list well-formed",
)


# ----------------------------------------------------------------------------- the simple cache (dict of answers)
# Keys are abstracted to integers (a CacheKey is only hashed and compared); an Answer is a heap object of which
# only `expiration` matters here.
from pyvc.api import loop  # noqa: E402

ANS = "dns.resolver.Answer"
REG.declare_heap_class(ANS, expiration=T.real)
REG.declare_class("dns.resolver.CacheStatistics", hits=T.int, misses=T.int)
REG.declare_class(
    "dns.resolver.Cache",
    data=T.map_of(T.int, T.ref(ANS), ordered=True), cleaning_interval=T.real, next_cleaning=T.real,
    statistics=T.obj("dns.resolver.CacheStatistics"), lock=T.obj("_thread.LockType"),
)
CACHE = T.obj("dns.resolver.Cache")
_SUBMAP = "all((k in old_self.data) and (self.data[k] is old_self.data[k]) for k in self.data)"

REG.contract(
    "dns.resolver.Cache._maybe_clean",
    params={"self": CACHE},
    modifies={"self.data": T.map_of(T.int, T.ref(ANS)), "self.next_cleaning": None},
    clock_reads=2,
    raises=[],
    loops={
        0: loop(index="i0", types={"keys_to_delete": T.indexed_list_of_int()}, invariant=[
            "all((keys_to_delete[m] in self.data) and self.data[keys_to_delete[m]].expiration <= now for m in range(len(keys_to_delete)))",
            "all(old_pos[keys_to_delete[m]] < i0 for m in range(len(keys_to_delete)))",
            "all(keys_to_delete[a] != keys_to_delete[b] for a in range(len(keys_to_delete)) for b in range(a + 1, len(keys_to_delete)))",
            "now == time_1",
        ]),
        1: loop(index="i1", invariant=[
            "all(not (keys_to_delete[m] in self.data) for m in range(i1))",
            "all(keys_to_delete[m] in self.data for m in range(i1, len(keys_to_delete)))",
            _SUBMAP,
            "all((k in self.data) or (k in keys_to_delete) for k in old_self.data)",
            "now == time_1",
        ], modifies={"self.data": T.map_of(T.int, T.ref(ANS))}),
    },
    ghost_entry={"old_pos": "kpos_of(self.data)"},
    ensures=[
        _SUBMAP,
        # only entries that had expired by the first clock reading are dropped
        "all((k in self.data) or old_self.data[k].expiration <= time_1 for k in old_self.data)",
    ],
    props=["C17"],
    note="the periodic sweep only removes entries (never changes or adds one), removes only entries already expired at its "
         "clock reading, and never raises (no KeyError from the deferred deletions)",
)

REG.contract(
    "dns.resolver.Cache.get",
    params={"self": CACHE, "key": T.int},
    modifies={"self.data": T.map_of(T.int, T.ref(ANS)), "self.next_cleaning": None, "self.statistics.hits": None, "self.statistics.misses": None},
    raises=[],
    returns=T.ref(ANS, nullable=True),
    ensures=[
        # freshness: what is returned had not expired at the clock reading that decided the lookup
        "(result is None) or result.expiration > time_last",
        # it is the stored answer for this key
        "(result is None) or ((key in old_self.data) and (result is old_self.data[key]))",
        # a stored, unexpired answer is found (monotone clock: it cannot have been swept either)
        "(not ((key in old_self.data) and old_self.data[key].expiration > time_last)) or (result is old_self.data[key])",
        # every lookup is counted exactly once
        "self.statistics.hits + self.statistics.misses == old_self.statistics.hits + old_self.statistics.misses + 1",
        "(self.statistics.hits == old_self.statistics.hits + 1) == (result is not None)",
        _SUBMAP,
    ],
    props=["C17"],
    note="Cache.get: never an answer at or after its expiration; the stored unexpired answer is returned; exactly one counter moves",
)

REG.contract(
    "dns.resolver.Cache.put",
    params={"self": CACHE, "key": T.int, "value": T.ref(ANS)},
    modifies={"self.data": T.map_of(T.int, T.ref(ANS)), "self.next_cleaning": None},
    raises=[],
    ensures=[
        "(key in self.data) and (self.data[key] is value)",
        "all((k == key) or ((k in old_self.data) and (self.data[k] is old_self.data[k])) for k in self.data)",
        "all((k in self.data) or old_self.data[k].expiration <= time_1 for k in old_self.data)",
    ],
    props=["C17"],
    note="Cache.put: the key maps to the new answer; every other surviving entry is unchanged; only expired entries disappear",
)

REG.contract(
    "dns.resolver.Cache.flush",
    params={"self": CACHE, "key": T.opt(T.int)},
    modifies={"self.data": T.map_of(T.int, T.ref(ANS)), "self.next_cleaning": None},
    raises=[],
    ensures=[
        "(key is None) or not (key in self.data)",
        "(key is None) or all((k == key) or ((k in self.data) and (self.data[k] is old_self.data[k])) for k in old_self.data)",
        "(key is not None) or all(not (k in old_self.data and k in self.data) for k in old_self.data)",
        _SUBMAP,
    ],
    props=["C17"],
    note="Cache.flush(key) removes exactly that key; flush() removes everything",
)


# ----------------------------------------------------------------------------- the LRU cache: dict + recency ring
# Ghost parameter `order`: the ids of the ring's nodes from the sentinel (position 0) in next-direction, i.e. most
# recently used first.  INV(order) ties the ring to the dict: positions 1.. are exactly the dict's nodes.
REG.heap_classes[NODE] = dict(prev=T.ref(NODE), next=T.ref(NODE), key=T.int, hits=T.int, value=T.ref(ANS))
REG.declare_class(
    "dns.resolver.LRUCache",
    data=T.map_of(T.int, T.ref(NODE), ordered=True), max_size=T.int, sentinel=T.ref(NODE),
    statistics=T.obj("dns.resolver.CacheStatistics"), lock=T.obj("_thread.LockType"),
)
LRU = T.obj("dns.resolver.LRUCache")


def ring_of(at, n, view=lambda x: x):
    """the ring clauses for the sequence i -> at(i) of length n (expressions as text)"""
    N_ = lambda e: view(R(e))
    return [
        f"{n} >= 1",
        f"all({at('a')} != {at('b')} for a in range({n}) for b in range(a + 1, {n}))",
        f"all({N_(at('i'))}.next is {R(at('i + 1'))} for i in range({n} - 1))",
        f"{N_(at(f'{n} - 1'))}.next is {R(at('0'))}",
        f"all({N_(at('i + 1'))}.prev is {R(at('i'))} for i in range({n} - 1))",
        f"{N_(at('0'))}.prev is {R(at(f'{n} - 1'))}",
    ]


def lru_inv(at, n, cache="self"):
    return ring_of(at, n) + [
        f"{R(at('0'))} is {cache}.sentinel",
        f"{n} == len({cache}.data) + 1",
        f"all(({R(at('i'))}.key in {cache}.data) and ({cache}.data[{R(at('i'))}.key] is {R(at('i'))}) for i in range(1, {n}))",
        f"all({cache}.data[k].key == k for k in {cache}.data)",
        f"all(allocated({R(at('i'))}) for i in range({n}))",
    ]


_ORD = lambda e: f"order[{e}]"
# after a hit on the node at position j: that node moves to position 1
_HIT = lambda e: f"(order[0] if ({e}) == 0 else (order[j] if ({e}) == 1 else (order[({e}) - 1] if ({e}) <= j else order[{e}])))"
# after dropping the node at position j
_DROP = lambda e: f"(order[{e}] if ({e}) < j else order[({e}) + 1])"
_KEYED = "(key in self.data) == (1 <= j and j < len(order))"
_FOUND = "(not (key in self.data)) or (self.data[key] is ref('" + NODE + "', order[j]))"
_MODS = {"self.data": T.map_of(T.int, T.ref(NODE)), "self.statistics.hits": None, "self.statistics.misses": None}

REG.contract(
    "dns.resolver.LRUCache.get",
    params={"self": LRU, "key": T.int, "order": T.id_seq(), "j": T.int},
    requires=lru_inv(_ORD, "len(order)") + [_KEYED, _FOUND],
    modifies=_MODS,
    raises=[],
    returns=T.ref(ANS, nullable=True),
    ensures=[
        "(result is None) or result.expiration > time_last",
        "(result is None) or ((key in old_self.data) and (result is snap(old_self.data[key], old_self).value))",
        "(not ((key in old_self.data) and snap(old_self.data[key], old_self).value.expiration > time_last)) or (result is not None)",
        "self.statistics.hits + self.statistics.misses == old_self.statistics.hits + old_self.statistics.misses + 1",
        "(self.statistics.hits == old_self.statistics.hits + 1) == (result is not None)",
    ],
    props=["C17"],
    note="LRUCache.get: never a stale answer; the stored unexpired answer is returned; exactly one counter moves",
)
_HITC = "(result is not None)"
_EXPC = "((result is None) and (key in old_self.data))"
_MISSC = "(not (key in old_self.data))"
_KEEP = "all((k in self.data) and (self.data[k] is old_self.data[k]) for k in old_self.data)"
REG.contract(
    "dns.resolver.LRUCache.get#ring",
    target="dns.resolver.LRUCache.get", verify_only=True, heavy=True,
    params={"self": LRU, "key": T.int, "order": T.id_seq(), "j": T.int},
    requires=lru_inv(_ORD, "len(order)") + [_KEYED, _FOUND],
    modifies=_MODS,
    raises=[],
    returns=T.ref(ANS, nullable=True),
    ensures=(
        # hit: the node moves to the front of the recency order, nothing else moves, the dict is unchanged
        [f"(not {_HITC}) or ({c})" for c in lru_inv(_HIT, "len(order)") + [_KEEP]]
        # expired: the node leaves ring and dict, the rest keeps its order
        + [f"(not {_EXPC}) or ({c})" for c in lru_inv(_DROP, "(len(order) - 1)") + [
            "not (key in self.data)", "all((k == key) or ((k in self.data) and (self.data[k] is old_self.data[k])) for k in old_self.data)"]]
        # miss: nothing changes
        + [f"(not {_MISSC}) or ({c})" for c in lru_inv(_ORD, "len(order)") + [_KEEP]]
    ),
    props=["C17"],
    note="LRUCache.get, recency structure: on a hit the node becomes the most recently used and the relative order of all "
         "others is kept; an expired node is removed from ring and dict; the ring/dict invariant (ghost order) is preserved "
         "in every case (about 100 VCs, minutes: thorough tier)",
)

# ---- put: [drop the node of an existing key]; evict from the tail while full; insert a new node at the front
_PRESENT = "(key in old_self.data)"
_N1 = f"(len(order) - (1 if {_PRESENT} else 0))"
_ORD1 = lambda e: f"(order[{e}] if ((not {_PRESENT}) or ({e}) < j) else order[({e}) + 1])"
_PUTF = lambda e: f"(order[0] if ({e}) == 0 else (idof(self.data[key]) if ({e}) == 1 else {_ORD1(f'({e}) - 1')}))"
_SUB = "all((k in old_self.data) and (self.data[k] is old_self.data[k]) for k in self.data)"

REG.contract(
    "dns.resolver.LRUCache.put",
    heavy=True,
    params={"self": LRU, "key": T.int, "value": T.ref(ANS), "order": T.id_seq(), "j": T.int},
    requires=lru_inv(_ORD, "len(order)") + [_KEYED, _FOUND, "self.max_size >= 1"],
    modifies={"self.data": T.map_of(T.int, T.ref(NODE))},
    raises=[],
    loops={
        0: loop(
            invariant=lru_inv(_ORD1, "(len(self.data) + 1)") + [
                f"len(self.data) + 1 <= {_N1}",
                "not (key in self.data)",
                _SUB,
            ],
            decreases=["len(self.data)"],
            modifies={"self.data": T.map_of(T.int, T.ref(NODE), sized=True)},
            modifies_heap=[(NODE, "prev"), (NODE, "next")],
        ),
    },
    ensures=[
        # the bound
        "len(self.data) <= self.max_size",
        # the key maps to a fresh node holding the value
        "(key in self.data) and (self.data[key].value is value) and (self.data[key].key == key) and (self.data[key].hits == 0)",
        "all(not (self.data[key] is old_self.data[k]) for k in old_self.data)",
        # every other surviving entry is an old entry, unchanged
        "all((k == key) or ((k in old_self.data) and (self.data[k] is old_self.data[k])) for k in self.data)",
        # strictly LRU-first eviction: the survivors are exactly the most recently used old entries, in their old order,
        # behind the new node
        f"len(self.data) <= {_N1}",
    ] + lru_inv(_PUTF, "(len(self.data) + 1)"),
    props=["C17"],
    note="LRUCache.put: never more than max_size entries; the new node is the most recently used; what is evicted is a "
         "suffix of the old recency order (strictly least-recently-used first); ring/dict invariant preserved; no KeyError "
         "(about 170 VCs, ten minutes: thorough tier)",
)

# ---- set_max_size: evict from the least-recently-used end until the new limit holds
REG.contract(
    "dns.resolver.LRUCache.set_max_size",
    heavy=True,
    params={"self": LRU, "max_size": T.int, "order": T.id_seq()},
    requires=lru_inv(_ORD, "len(order)"),
    modifies={"self.data": T.map_of(T.int, T.ref(NODE)), "self.max_size": None},
    raises=[],
    loops={
        0: loop(
            invariant=lru_inv(_ORD, "(len(self.data) + 1)") + [
                "len(self.data) + 1 <= len(order)",
                _SUB,
                "self.max_size == (max_size if max_size >= 1 else 1)",
                "len(self.data) >= self.max_size or len(self.data) == len(old_self.data)",
            ],
            decreases=["len(self.data)"],
            modifies={"self.data": T.map_of(T.int, T.ref(NODE), sized=True)},
            modifies_heap=[(NODE, "prev"), (NODE, "next")],
        ),
    },
    ensures=[
        "self.max_size == (max_size if max_size >= 1 else 1)",
        "len(self.data) <= self.max_size",
        # what survives is the most-recently-used prefix of the old order, untouched; nothing is evicted needlessly
        "len(self.data) == (len(old_self.data) if len(old_self.data) <= self.max_size else self.max_size)",
        _SUB,
    ] + lru_inv(_ORD, "(len(self.data) + 1)"),
    props=["C17"],
    note="LRUCache.set_max_size: the limit is at least 1; entries are evicted strictly from the least-recently-used end and "
         "only as many as needed; ring/dict invariant preserved; no KeyError (thorough tier)",
)

REG.contract(
    "dns.resolver.LRUCache.flush#key",
    target="dns.resolver.LRUCache.flush", verify_only=True, heavy=True,
    params={"self": LRU, "key": T.int, "order": T.id_seq(), "j": T.int},
    requires=lru_inv(_ORD, "len(order)") + [_KEYED, _FOUND],
    modifies={"self.data": T.map_of(T.int, T.ref(NODE))},
    raises=[],
    ensures=[
        "not (key in self.data)",
        "all((k == key) or ((k in self.data) and (self.data[k] is old_self.data[k])) for k in old_self.data)",
        _SUB,
    ] + [f"(not {_PRESENT}) or ({c})" for c in lru_inv(_DROP, "(len(order) - 1)")]
      + [f"{_PRESENT} or ({c})" for c in lru_inv(_ORD, "len(order)")],
    props=["C17"],
    note="LRUCache.flush(key): exactly that entry leaves dict and ring; the recency order of the others is kept (thorough tier)",
)

# ---- the invariant holds initially: a new LRU cache is an empty dict and a ring that is just the sentinel
import threading as _threading  # noqa: E402
from pyvc.sym import SObj as _SObj  # noqa: E402
import _thread  # noqa: E402

REG.external(_threading.Lock, lambda I, args, kwargs: _SObj(_thread.LockType, {}, label="lock"),
             "threading.Lock(): a new lock object (acquisition order and blocking are outside the sequential model)")
REG.contract(
    "dns.resolver.LRUCache.__init__",
    params={"self": T.obj("dns.resolver.LRUCache", raw=True), "max_size": T.int},
    # set_max_size runs before the sentinel exists: its body is executed here (the dict is empty, its loop does not run)
    inline_calls=["dns.resolver.LRUCache.set_max_size"],
    raises=[],
    ensures=[
        "len(self.data) == 0",
        "self.max_size == (max_size if max_size >= 1 else 1)",
        "(self.sentinel.next is self.sentinel) and (self.sentinel.prev is self.sentinel)",
        "self.statistics.hits == 0 and self.statistics.misses == 0",
    ],
    props=["C17"],
    note="base case of the ring/dict invariant: a new LRU cache is empty, its ring is the sentinel alone (ghost order = [sentinel]), "
         "its limit is at least 1 and its counters are zero",
)

# ---- counters: readers and reset (the accounting clauses of get rely on these being faithful)
_CB = T.obj("dns.resolver.CacheBase", raw=True, statistics=T.obj("dns.resolver.CacheStatistics"), lock=T.obj("_thread.LockType"))
REG.contract("dns.resolver.CacheBase.hits", params={"self": _CB}, raises=[], returns=T.int,
             ensures=["result == self.statistics.hits", "self.statistics.hits == old_self.statistics.hits and self.statistics.misses == old_self.statistics.misses"],
             props=["C17"], note="hits() reads the hit counter and changes nothing")
REG.contract("dns.resolver.CacheBase.misses", params={"self": _CB}, raises=[], returns=T.int,
             ensures=["result == self.statistics.misses", "self.statistics.hits == old_self.statistics.hits and self.statistics.misses == old_self.statistics.misses"],
             props=["C17"], note="misses() reads the miss counter and changes nothing")
REG.contract("dns.resolver.CacheBase.reset_statistics", params={"self": _CB}, raises=[],
             modifies={"self.statistics.hits": None, "self.statistics.misses": None},
             ensures=["self.statistics.hits == 0 and self.statistics.misses == 0"],
             props=["C17"], note="reset_statistics() zeroes both counters")
REG.contract("dns.resolver.CacheBase.get_statistics_snapshot", params={"self": _CB}, raises=[],
             returns=T.obj("dns.resolver.CacheStatistics"),
             ensures=["result.hits == self.statistics.hits and result.misses == self.statistics.misses", "not (result is self.statistics)",
                      "self.statistics.hits == old_self.statistics.hits and self.statistics.misses == old_self.statistics.misses"],
             props=["C17"], note="the snapshot is a separate object holding both counters as they are")
REG.contract(
    "dns.resolver.LRUCache.get_hits_for_key",
    params={"self": T.obj("dns.resolver.LRUCache", raw=True, data=T.map_of(T.int, T.ref(NODE)), lock=T.obj("_thread.LockType")), "key": T.int},
    raises=[], returns=T.int,
    ensures=["result == (self.data[key].hits if ((key in self.data) and self.data[key].value.expiration > time_last) else 0)"],
    props=["C17"],
    note="get_hits_for_key: the node's hit count while the answer is unexpired, 0 otherwise; changes nothing",
)
