"""Contracts for dns/rcode.py, dns/opcode.py (C03 header/flag codecs) and dns/serial.py (C10 RFC 1982)."""
from pyvc.api import REG, loop
from pyvc.sym import T, SObj as _SObj
import pyvc.spec  # noqa: F401

REG.contract(
    "dns.rcode.to_flags",
    params={"value": T.int},
    raises=[("builtins.ValueError", "value < 0 or value > 4095")],
    returns=T.fixed(T.int, T.int),
    ensures=[
        "result[0] == value % 16",
        "result[1] == (value // 16) * 2**24",
        "0 <= result[0] and result[0] < 16",
        "0 <= result[1] and result[1] < 2**32 and result[1] % 2**24 == 0",
    ],
    props=["C03"],
    note="the rcode is split into the low 4 header flag bits and the top 8 bits of the OPT TTL; nothing else is touched",
)

REG.contract(
    "dns.rcode.from_flags",
    params={"flags": T.nat, "ednsflags": T.nat},
    raises=[],
    returns=T.int,
    ensures=["result == flags % 16 + ((ednsflags // 2**24) % 256) * 16", "0 <= result and result <= 4095"],
    props=["C03"],
)

REG.lemma(
    "rcode_flags_roundtrip",
    params={"v": T.range(0, 4095), "otherflags": T.range(0, 65535), "otherttl": T.range(0, 2**24 - 1)},
    uses=[("dns.rcode.to_flags", {"value": "v"}, "f"),
          ("dns.rcode.from_flags", {"flags": "(otherflags // 16) * 16 + f[0]", "ednsflags": "f[1] + otherttl"}, "w")],
    goals=["w == v"],
    props=["C03"],
    note="from_flags(to_flags(v)) == v for every rcode 0..4095, whatever the other header flag bits and the low 24 OPT TTL bits are",
)

REG.contract(
    "dns.opcode.to_flags",
    params={"value": T.nat},
    raises=[],
    returns=T.int,
    ensures=["result == (value % 16) * 2048", "result % 2048 == 0 and result < 32768"],
    props=["C03"],
)

REG.contract(
    "dns.opcode.from_flags",
    params={"flags": T.nat},
    raises=[],
    returns=T.int,
    ensures=["result == (flags // 2048) % 16"],
    props=["C03"],
)

REG.lemma(
    "opcode_flags_roundtrip",
    params={"o": T.range(0, 15), "low": T.range(0, 2047), "qr": T.range(0, 1)},
    uses=[("dns.opcode.to_flags", {"value": "o"}, "f"),
          ("dns.opcode.from_flags", {"flags": "qr * 32768 + f + low"}, "w")],
    goals=["w == o"],
    props=["C03"],
    note="from_flags(to_flags(o) | other bits) == o for every opcode 0..15",
)

# ----------------------------------------------------------------------------- RFC 1982 serial arithmetic (C10, C13)


def _mk_serial(f):
    import dns.serial

    return dns.serial.Serial(f["value"], f["bits"])


REG.declare_class("dns.serial.Serial", make=_mk_serial, value=T.range(0, 2**32 - 1), bits=T.const(32))
SERIAL = T.obj("dns.serial.Serial")

REG.contract(
    "dns.serial.Serial.__init__",
    params={"self": T.obj("dns.serial.Serial", raw=True), "value": T.int, "bits": T.const(32)},
    raises=[],
    modifies={"self.value": T.int, "self.bits": T.int},
    ensures=["self.value == value % 2**32", "self.bits == 32", "0 <= self.value and self.value < 2**32"],
    verify_only=True,
    props=["C10", "C13"],
)

LT = "((self.value < other.value and other.value - self.value < 2**31) or (self.value > other.value and self.value - other.value > 2**31))"
GT = "((self.value < other.value and other.value - self.value > 2**31) or (self.value > other.value and self.value - other.value < 2**31))"
for op, rhs in (("__lt__", LT), ("__gt__", GT), ("__eq__", "(self.value == other.value)"), ("__ne__", "(self.value != other.value)"),
                ("__le__", f"(self.value == other.value or {LT})"), ("__ge__", f"(self.value == other.value or {GT})")):
    REG.contract(
        f"dns.serial.Serial.{op}",
        params={"self": SERIAL, "other": SERIAL},
        raises=[],
        returns=T.bool,
        ensures=[f"result == {rhs}"],
        props=["C10", "C13"],
        when=lambda b: isinstance(b.get("other"), _SObj),
        note="RFC 1982 section 3.2 comparison on 32-bit serials",
    )
    if op in ("__le__", "__ge__"):
        continue  # they delegate to __eq__/__lt__/__gt__, whose int forms are verified below
    REG.contract(
        f"dns.serial.Serial.{op}#int",
        params={"self": SERIAL, "other": T.int},
        raises=[],
        returns=T.bool,
        ensures=[f"result == {rhs.replace('other.value', '(other % 2**32)')}"],
        props=["C10", "C13"],
        target=f"dns.serial.Serial.{op}",
        when=lambda b: not isinstance(b.get("other"), _SObj),
        note="comparison against a plain int: the int is reduced modulo 2**32 first",
    )

for op, sign in (("__add__", "+"), ("__sub__", "-")):
    REG.contract(
        f"dns.serial.Serial.{op}",
        params={"self": SERIAL, "other": T.int},
        raises=[("builtins.ValueError", "other > 2**31 - 1 or other < -(2**31 - 1)")],
        returns=SERIAL,
        ensures=[f"result.value == (self.value {sign} other) % 2**32", "result.bits == 32", "self.value == old_self.value"],
        props=["C10", "C13"],
        note="RFC 1982 section 3.1: addition is defined for |n| <= 2**31 - 1 and wraps modulo 2**32; otherwise ValueError",
    )

REG.lemma(
    "serial_increment_is_greater",
    params={"s": SERIAL, "n": T.range(1, 2**31 - 1)},
    uses=[("dns.serial.Serial.__add__", {"self": "s", "other": "n"}, "t"),
          ("dns.serial.Serial.__lt__", {"self": "s", "other": "t"}, "lt"),
          ("dns.serial.Serial.__gt__", {"self": "t", "other": "s"}, "gt")],
    goals=["lt", "gt"],
    props=["C10", "C13"],
    note="RFC 1982: s + n > s for 0 < n <= 2**31 - 1 (so an incremented SOA serial never 'goes backwards')",
)
