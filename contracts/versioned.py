"""Contracts for version retention of dns.versioned.Zone (C11).

The deque of retained versions is modelled as a list of heap references (popleft = pop(0)), the set of open readers
as a list (only min() over it is taken), and the pruning policy as an unconstrained external callable."""
from pyvc.api import REG, loop
from pyvc.sym import T, SBool
import pyvc.spec  # noqa: F401

VER = "dns.zone.Version"
TXN = "dns.zone.Transaction"
REG.declare_heap_class(VER, id=T.int, nodes=T.int)
REG.declare_heap_class(TXN, version=T.ref(VER))


def _any_policy(zone, version):  # stands for whatever callable the application installed
    raise NotImplementedError


import z3 as _z3  # noqa: E402
from pyvc import sym as _S  # noqa: E402

# the policy's answer is some fixed but arbitrary function of what it is shown: how many versions are retained and
# which version is the candidate (pure: it neither changes the zone nor depends on anything else)
_POLICY = _z3.Function("pruning_policy", _S.IntS, _S.IntS, _S.BoolS)


def _policy_model(I, args, kwargs):
    zone, version = args
    return SBool(_POLICY(_S.to_z3(zone.fields["_versions"].n), version.id))


REG.external(_any_policy, _policy_model, "pruning policy: an arbitrary pure application callable (an uninterpreted predicate of the "
             "number of retained versions and the candidate version)")
REG.spec("policy_says", lambda I, n, v: SBool(_POLICY(_S.to_z3(n), v.id)), lambda n, v: True,
         "the answer of the installed pruning policy for a zone with n retained versions and candidate v")

ZONE = T.obj("dns.versioned.Zone", raw=True, _versions=T.list_of(T.ref(VER)), _readers=T.list_of(T.ref(TXN)),
             _pruning_policy=T.const(_any_policy))
_V, _OV = "self._versions", "old_self._versions"
# ids strictly increase along the deque (stated for all pairs: the adjacent form would need an induction at every use)
_INCR = lambda v: f"all({v}[a].id < {v}[b].id for a in range(len({v})) for b in range(a + 1, len({v})))"
# every open reader holds one of the retained versions
# ghost parameter pin: the position in the deque of the version each open reader holds
_PINNED_IN = lambda v, sh="0", pin="pin": (
    f"len({pin}) == len(self._readers) and all(0 <= {pin}[r] - {sh} and {pin}[r] - {sh} < len({v}) "
    f"and ({v}[{pin}[r] - {sh}] is self._readers[r].version) for r in range(len(self._readers)))")
# pruning went as far as it may: it stopped at a version some reader holds (or at the newest one), or the policy said no
_MAXIMAL = (f"(len(self._readers) == 0 and len({_V}) == 1) or any(self._readers[r].version.id <= {_V}[0].id for r in range(len(self._readers))) "
            f"or not policy_says(len({_V}), {_V}[0])")
_SUFFIX = (f"len({_V}) <= len({_OV}) and all({_V}[i] is {_OV}[i + (len({_OV}) - len({_V}))] for i in range(len({_V})))")

REG.contract(
    "dns.versioned.Zone._prune_versions_unlocked",
    params={"self": ZONE, "pin": T.id_seq()},
    requires=[f"len({_V}) >= 1", _INCR(_V), _PINNED_IN(_V)],
    modifies={"self._versions": None},
    raises=[],
    loops={0: loop(invariant=[
        f"len({_V}) >= 1", _SUFFIX, _INCR(_V),
        f"least_kept <= {_V}[len({_V}) - 1].id",
        "all(least_kept <= self._readers[r].version.id for r in range(len(self._readers)))",
        f"(len(self._readers) == 0 and least_kept == {_V}[len({_V}) - 1].id) or any(self._readers[r].version.id == least_kept for r in range(len(self._readers)))",
    ], decreases=[f"len({_V})"])},
    ensures=[
        # a contiguous run of history that ends with the newest version
        f"len({_V}) >= 1", _SUFFIX,
        # every version held by an open reader (and everything newer) is retained, at its shifted position
        _PINNED_IN(_V, f"(len({_OV}) - len({_V}))"),
        _INCR(_V),
        # and otherwise exactly what the policy allows
        _MAXIMAL,
    ],
    props=["C11"],
    note="pruning removes versions only from the old end, never the newest one and never a version at or after the "
         "oldest one an open reader holds, and goes exactly as far as the policy callable allows; terminates",
)

REG.lemma(
    "pruning_keeps_pinned_versions",
    params={"old": T.list_of(T.int), "new": T.list_of(T.int), "p": T.int, "pinned_id": T.int, "sh": T.int},
    hyps=[
        "sh == len(old) - len(new)",
        # version ids along the deque before and after (strictly increasing), new is a suffix of old
        "all(old[a] < old[b] for a in range(len(old)) for b in range(a + 1, len(old)))",
        "len(new) >= 1 and len(new) <= len(old)",
        "all(new[i] == old[i + (len(old) - len(new))] for i in range(len(new)))",
        # the reader's version sat at position p of the old deque, and the postcondition of pruning holds for it
        "0 <= p and p < len(old) and old[p] == pinned_id",
        "new[0] <= pinned_id",
    ],
    goals=["p >= sh", "new[p - sh] == pinned_id"],
    props=["C11"],
    note="from the postcondition of _prune_versions_unlocked: a version that was retained and is held by an open reader is "
         "still retained afterwards, at the shifted position (ids are strictly increasing, so the id bound pins the position)",
)

_ZONE2 = T.obj("dns.versioned.Zone", raw=True, _versions=T.list_of(T.ref(VER)), _readers=T.list_of(T.ref(TXN)),
               _pruning_policy=T.const(_any_policy), nodes=T.int, origin=T.opt(T.int))
_SH = f"(len({_OV}) + 1 - len({_V}))"
REG.contract(
    "dns.versioned.Zone._commit_version_unlocked",
    params={"self": _ZONE2, "txn": T.const(None), "version": T.ref(VER), "origin": T.int, "pin": T.id_seq()},
    # the new version's id is greater than every retained id (_get_next_version_id under the single-writer rule)
    requires=[_INCR(_V), f"all({_V}[i].id < version.id for i in range(len({_V})))",
              _PINNED_IN(_V)],
    modifies={"self._versions": None, "self.nodes": None, "self.origin": T.opt(T.int)},
    raises=[],
    ensures=[
        f"len({_V}) >= 1 and ({_V}[len({_V}) - 1] is version)",
        f"len({_V}) <= len({_OV}) + 1 and all({_V}[i] is {_OV}[i + {_SH}] for i in range(len({_V}) - 1))",
        _INCR(_V),
        _PINNED_IN(_V, f"(len({_OV}) + 1 - len({_V}))"),
        "self.nodes == version.nodes",
        "(self.origin == old_self.origin) if (old_self.origin is not None) else (self.origin == origin)",
    ],
    props=["C11"],
    note="commit: the new version becomes the newest retained one and the published node map; what is retained is a "
         "suffix of the old history plus the new version; ids stay strictly increasing; nothing a reader holds is dropped",
)

REG.contract(
    "dns.versioned.Zone._get_next_version_id",
    params={"self": ZONE},
    requires=[_INCR(_V)],
    raises=[],
    returns=T.int,
    ensures=[f"all({_V}[i].id < result for i in range(len({_V})))", "result >= 1 or len(self._versions) > 0"],
    props=["C11"],
    note="the next version id is greater than the id of every retained version (ids strictly increase)",
)


# ----------------------------------------------------------------------------- C12: FIFO hand-over of the write permission
EVENT = "threading.Event"
REG.declare_heap_class(EVENT, flag=T.bool)
REG.contract(
    "threading.Event.set", params={"self": T.ref(EVENT)}, raises=[],
    ensures=["self.flag", f"all((e is self) or (e.flag == snap(e, old_self).flag) for e in refs('{EVENT}'))"],
    modifies_heap=[(EVENT, "flag")], status="assumed", props=["C12"],
    note="threading.Event.set() sets this event's flag (and wakes its waiters) and touches no other event",
)
_ZONE_W = T.obj("dns.versioned.Zone", raw=True, _write_waiters=T.list_of(T.ref(EVENT)), _write_event=T.ref(EVENT, nullable=True),
                _write_txn=T.ref(TXN, nullable=True))
_W, _OW = "self._write_waiters", "old_self._write_waiters"
_HANDOVER = [
    # the longest-waiting writer (head of the queue) is the one admitted next: it becomes the holder of the write
    # permission (_write_event) and is woken; the others keep their order; nobody else is woken
    f"(not (len({_OW}) > 0)) or ((self._write_event is {_OW}[0]) and self._write_event.flag "
    f"and len({_W}) == len({_OW}) - 1 and all({_W}[i] is {_OW}[i + 1] for i in range(len({_OW}) - 1)))",
    f"(not (len({_OW}) > 0)) or all((e is {_OW}[0]) or (e.flag == snap(e, old_self).flag) for e in refs('{EVENT}'))",
    # nobody waiting: nothing changes
    f"(len({_OW}) > 0) or ((self._write_event is old_self._write_event) and len({_W}) == 0 "
    f"and all(e.flag == snap(e, old_self).flag for e in refs('{EVENT}')))",
]
REG.contract(
    "dns.versioned.Zone._maybe_wakeup_one_waiter_unlocked",
    params={"self": _ZONE_W},
    modifies={"self._write_waiters": None, "self._write_event": T.ref(EVENT, nullable=True)},
    modifies_heap=[(EVENT, "flag")],
    raises=[],
    ensures=_HANDOVER + ["self._write_txn is old_self._write_txn"],
    props=["C12"],
    note="waking a waiter: strictly first-in first-out, exactly one event is set, and that event becomes the token "
         "writer() compares against, so a newcomer cannot take the turn of a woken waiter",
)
REG.contract(
    "dns.versioned.Zone._end_write_unlocked",
    params={"self": _ZONE_W, "txn": T.ref(TXN)},
    requires=["self._write_txn is txn"],
    modifies={"self._write_waiters": None, "self._write_event": T.ref(EVENT, nullable=True), "self._write_txn": T.ref(TXN, nullable=True)},
    modifies_heap=[(EVENT, "flag")],
    raises=[],
    ensures=_HANDOVER + ["self._write_txn is None"],
    props=["C12"],
    note="ending the write transaction releases the write permission and hands it to the head of the queue",
)


# ----------------------------------------------------------------------------- closing a reader
_ZONE_R = T.obj("dns.versioned.Zone", raw=True, _versions=T.list_of(T.ref(VER)), _readers=T.list_of(T.ref(TXN)),
                _pruning_policy=T.const(_any_policy), _version_lock=T.obj("_thread.LockType"))
_OR = "old_self._readers"
REG.contract(
    "dns.versioned.Zone._end_read",
    # ghosts: pin (positions of the readers' versions before), r0 (which reader closes), pin2 (pin without entry r0)
    params={"self": _ZONE_R, "txn": T.ref(TXN), "pin": T.id_seq(), "pin2": T.id_seq(), "r0": T.int},
    requires=[
        f"len({_V}) >= 1", _INCR(_V), _PINNED_IN(_V),
        # the set of open readers: distinct transactions, txn is the one at r0
        "all(not (self._readers[a] is self._readers[b]) for a in range(len(self._readers)) for b in range(a + 1, len(self._readers)))",
        "0 <= r0 and r0 < len(self._readers) and (self._readers[r0] is txn)",
        "len(pin2) == len(pin) - 1 and all(pin2[i] == pin[i] for i in range(r0)) and all(pin2[i] == pin[i + 1] for i in range(r0, len(pin) - 1))",
    ],
    modifies={"self._versions": None, "self._readers": None},
    ghost_at_calls={"dns.versioned.Zone._prune_versions_unlocked": {"pin": "pin2"}},
    raises=[],
    ensures=[
        # the reader is gone, the others keep their place
        f"len(self._readers) == len({_OR}) - 1",
        f"all(self._readers[i] is {_OR}[i] for i in range(r0)) and all(self._readers[i] is {_OR}[i + 1] for i in range(r0, len({_OR}) - 1))",
        f"len({_V}) >= 1", _SUFFIX, _INCR(_V),
        # what the remaining readers hold is retained; beyond that, exactly what the policy allows - at once, not at some later event
        _PINNED_IN(_V, f"(len({_OV}) - len({_V}))", "pin2"),
        _MAXIMAL,
    ],
    props=["C11"],
    note="closing a reader unregisters exactly that transaction and prunes immediately: versions only it was pinning go as far as "
         "the policy allows, versions other readers hold stay (modular over the pruning contract)",
)
