"""Contracts for dns.message (C18): which message counts as a response to a query."""
from pyvc.api import REG, loop
from pyvc.sym import T
import pyvc.spec  # noqa: F401
import contracts.flags  # noqa: F401  (opcode / rcode flag codecs used modularly)

# a question entry is abstracted by an integer identity (RRset equality is C07's subject)
MSG = T.obj("dns.message.Message", raw=True, id=T.u16, flags=T.u16, ednsflags=T.range(0, 0xFFFFFFFF), question=T.indexed_list_of_int())
_OP = lambda m: f"(({m}.flags // 2048) % 16)"
_RC = "(other.flags % 16 + ((other.ednsflags // 2**24) % 256) * 16)"
_HDR = f"(other.flags // 32768 == 1 and self.id == other.id and {_OP('self')} == {_OP('other')})"
_LENIENT = f"(({_RC} == 1 or {_RC} == 2 or {_RC} == 4 or {_RC} == 5) and len(other.question) == 0)"
_UPDATE = f"({_OP('self')} == 5)"
_SAMEQ = ("(all(self.question[k] in other.question for k in range(len(self.question))) "
          "and all(other.question[k] in self.question for k in range(len(other.question))))")
REG.contract(
    "dns.message.Message.is_response",
    params={"self": MSG, "other": MSG},
    raises=[],
    returns=T.bool,
    loops={
        0: loop(index="i0", invariant=["all(self.question[k] in other.question for k in range(i0))"]),
        1: loop(index="i1", invariant=["all(self.question[k] in other.question for k in range(len(self.question)))",
                                       "all(other.question[k] in self.question for k in range(i1))"]),
    },
    ensures=[
        # never a response: QR clear, another id, another opcode
        f"{_HDR} or not result",
        # with a matching header: error rcodes may come without a question; an UPDATE is not compared further;
        # otherwise both question sections must hold the same entries
        f"(not ({_HDR} and ({_LENIENT} or {_UPDATE}))) or result",
        f"(not ({_HDR} and not {_LENIENT} and not {_UPDATE} and result)) or {_SAMEQ}",
        f"(not ({_HDR} and not {_LENIENT} and not {_UPDATE} and not result)) or not {_SAMEQ}",
    ],
    props=["C18"],
    note="is_response: QR set, same id, same opcode (all 4 bits), and - unless the reply is FORMERR/SERVFAIL/NOTIMP/REFUSED "
         "without a question, or the query is an UPDATE - exactly the same question entries",
)
