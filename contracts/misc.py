"""Contracts for small arithmetic kernels: DNSKEY key tag (C15), B-tree node search (C19),
resolver time budget (C16)."""
import z3

from pyvc.api import REG, loop
from pyvc.sym import T, SInt, simp, to_z3
from pyvc import sym as S
import pyvc.spec  # noqa: F401

# keysum(wire, i) = sum_{k<i} (wire[2k] * 256 + wire[2k+1])  (RFC 4034 appendix B accumulation)
KEYSUM = z3.Function("keysum", S.SeqI, S.IntS, S.IntS)


def keysum_smt(I, wire, i):
    from pyvc import models as M

    e = M.as_seq(I, wire)
    iz = to_z3(i)
    t = KEYSUM(e, iz)
    I.path.assume(t == z3.If(iz <= 0, 0, KEYSUM(e, iz - 1) + e[2 * (iz - 1)] * 256 + e[2 * (iz - 1) + 1]))
    return SInt(t)


def keysum_native(wire, i):
    return sum(wire[2 * k] * 256 + wire[2 * k + 1] for k in range(i))


REG.spec("keysum", keysum_smt, keysum_native, "sum over k<i of the big-endian 16-bit words of wire")


def _mk_dnskey(f):
    import dns.rdata

    class _K:
        pass

    import dns.rdtypes.dnskeybase as kb
    import dns.rdataclass, dns.rdatatype

    wire = f["ghost_wire"]
    # flags(2) protocol(1) algorithm(1) key
    flags = int.from_bytes(wire[0:2], "big")
    return kb.DNSKEYBase(dns.rdataclass.IN, dns.rdatatype.DNSKEY, flags, wire[2], wire[3], wire[4:])


def _gen_dnskey(rng):
    n = rng.choice([4, 5, 6, 7, 8, 36, 37, 260, 261])
    wire = bytearray(rng.randrange(256) for _ in range(n))
    wire[3] = rng.choice([1, 5, 8, 13, 15, 253])
    if rng.random() < 0.3:
        wire[0:2] = b"\xff\xff"
        for k in range(4, n):
            wire[k] = 0xFF
    return _mk_dnskey({"ghost_wire": bytes(wire)})


REG.declare_class("dns.rdtypes.dnskeybase.DNSKEYBase", make=_mk_dnskey, gen=_gen_dnskey, ghost={"ghost_wire": lambda o: o.to_wire()},
                  inv="len(self.ghost_wire) >= 4 and self.algorithm == self.ghost_wire[3]",
                  ghost_wire=T.bytes, algorithm=T.u8)

REG.contract(
    "dns.rdata.Rdata.to_wire",
    params={"self": T.obj("dns.rdtypes.dnskeybase.DNSKEYBase")},
    returns=T.bytes,
    ensures=["result == self.ghost_wire"],
    status="assumed",
    when=lambda b: "ghost_wire" in getattr(b.get("self"), "fields", {}),
    props=["C15"],
    note="ASSUMED for the key-tag kernel only: the uncompressed wire form of an immutable record is a fixed octet "
         "string (ghost field); the per-type encoders are covered by the C02 contracts / bounded stand-in",
)

_T = "(keysum(w, len(w) // 2) + (w[len(w) - 1] * 256 if len(w) % 2 != 0 else 0))"
REG.contract(
    "dns.rdtypes.dnskeybase.DNSKEYBase.key_id",
    params={"self": T.obj("dns.rdtypes.dnskeybase.DNSKEYBase")},
    raises=[],
    returns=T.int,
    loops={0: loop(index="idx", invariant=["total == keysum(wire, idx)", "wire == self.ghost_wire", "total >= 0"])},
    ensures=[
        ("self.algorithm == 1 or result == (" + _T + " + (" + _T + " // 65536) % 65536) % 65536").replace("w", "self.ghost_wire").replace("self.ghost_self.ghost_wireire", "self.ghost_wire"),
        "self.algorithm != 1 or result == self.ghost_wire[len(self.ghost_wire) - 3] * 256 + self.ghost_wire[len(self.ghost_wire) - 2]",
        "0 <= result and result <= 65535",
    ],
    props=["C15"],
    note="RFC 4034 appendix B: the key tag is the folded 16-bit one's-complement-style sum of the DNSKEY RDATA "
         "(odd tail octet is the high byte); algorithm 1 uses the RSA/MD5 rule",
)

# ----------------------------------------------------------------------------- B-tree node search (C19)


class _KeyElt:
    def __init__(self, k):
        self.k = k

    def key(self):
        return self.k


def _mk_node(f):
    import dns.btree

    n = dns.btree._Node(3, dns.btree._Creator(), True)
    n.elts = [_KeyElt(k) for k in f["elts"]]
    return n


def _gen_node(rng):
    n = rng.choice([0, 1, 2, 3, 4, 5])
    ks = sorted(rng.sample(range(0, 14), n))
    return _mk_node({"elts": ks})


REG.declare_class("dns.btree._Node", make=_mk_node, gen=_gen_node, ghost={"elts": lambda o: [e.key() for e in o.elts]},
                  inv="all(self.elts[a] < self.elts[b] for a in range(len(self.elts)) for b in range(a + 1, len(self.elts)))",
                  elts=T.list_of(T.int))

REG.contract(
    "dns.btree._Node.search_in_node",
    params={"self": T.obj("dns.btree._Node"), "key": T.int},
    elements_are_keys=True,
    raises=[],
    returns=T.fixed(T.int, T.bool),
    loops={0: loop(invariant=[
        "0 <= l and l <= i and i <= len(self.elts) and i == r + 1 and not equal",
        "all(self.elts[k] < key for k in range(l))",
        "all(key < self.elts[k] for k in range(i, len(self.elts)))",
    ], decreases=["r - l + 1"])},
    ensures=[
        "0 <= result[0] and result[0] <= len(self.elts)",
        "all(self.elts[k] < key for k in range(result[0]))",
        "(not result[1]) or (result[0] < len(self.elts) and self.elts[result[0]] == key)",
        "result[1] or all(key < self.elts[k] for k in range(result[0], len(self.elts)))",
    ],
    props=["C19"],
    note="binary search (with the in-order fast path) over strictly increasing keys: returns the index of the key or of its "
         "least successor; elements are abstracted by their keys, keys by integers (a strict total order, cf. C06)",
)

# ----------------------------------------------------------------------------- resolver time budget (C16)


def _mk_resolver(f):
    import dns.resolver

    r = dns.resolver.Resolver(configure=False)
    r.lifetime, r.timeout = f["lifetime"], f["timeout"]
    return r


REG.declare_class("dns.resolver.BaseResolver", make=_mk_resolver, inv="self.lifetime > 0 and self.timeout > 0",
                  lifetime=T.real, timeout=T.real)

_L = "(self.lifetime if lifetime is None else lifetime)"
_D = "(time_1 - start)"
REG.contract(
    "dns.resolver.BaseResolver._compute_timeout",
    params={"self": T.obj("dns.resolver.BaseResolver"), "start": T.real, "lifetime": T.opt(T.real), "errors": T.const(None)},
    raises=[("dns.resolver.LifetimeTimeout", f"{_D} < -1 or (0 if {_D} < 0 else {_D}) >= {_L}")],
    returns=T.real,
    ensures=[
        f"result == (({_L} - (0 if {_D} < 0 else {_D})) if ({_L} - (0 if {_D} < 0 else {_D})) < self.timeout else self.timeout)",
        "result > 0",
        f"result <= {_L} - (0 if {_D} < 0 else {_D})",
    ],
    props=["C16"],
    note="the per-query timeout is min(remaining lifetime, timeout) and strictly positive; LifetimeTimeout exactly when the "
         "lifetime is used up or the clock went back by more than a second (reals; time_1 is the clock reading)",
)

# ----------------------------------------------------------------------------- C05-P1: quoted character-string text
REG.contract(
    "dns.rdata._escapify",
    params={"qstring": T.bytes},
    raises=[],
    returns=T.str,
    loops={0: loop(index="idx", invariant=["text == esc_qstring(qstring, idx)"], types={})},
    ensures=["result == esc_qstring(qstring, len(qstring))"],
    props=["C05"],
    note="bytes input: the text of a character-string is the concatenation of the escape of each octet: \" and \\ quoted, "
         "0x20..0x7E literal, everything else \\DDD",
)
