"""Contracts for single-node operations of the copy-on-write B-tree (C19): insertion into a leaf, split of a full leaf.
Elements are abstracted by their keys, keys by integers (as for search_in_node in contracts/misc.py)."""
from pyvc.api import REG
from pyvc.sym import T
import pyvc.spec  # noqa: F401
import contracts.misc  # noqa: F401  (the _Node class declaration and the search_in_node contract)

_SORTED = lambda v: f"all({v}[a] < {v}[b] for a in range(len({v})) for b in range(a + 1, len({v})))"
LEAF = T.obj("dns.btree._Node", raw=True, elts=T.list_of(T.int), is_leaf=T.const(True), t=T.int, creator=T.int,
             children=T.const(None))
_E, _OE = "self.elts", "old_self.elts"

REG.contract(
    "dns.btree._Node.insert_nonfull#leaf",
    target="dns.btree._Node.insert_nonfull", verify_only=True, elements_are_keys=True, no_native=True,
    # ghost p: the place of the key in the sorted element list
    params={"self": LEAF, "element": T.int, "in_order": T.bool, "p": T.int},
    requires=["self.t >= 3", f"len({_E}) < 2 * self.t - 1", _SORTED(_E),
              f"0 <= p and p <= len({_E})", f"all({_E}[k] < element for k in range(p))",
              f"all(element <= {_E}[k] for k in range(p, len({_E})))"],
    modifies={"self.elts": None},
    raises=[],
    ensures=[
        # present already: replaced in place (the old element is returned), nothing moves
        f"(not (p < len({_OE}) and {_OE}[p] == element)) or (result == element and len({_E}) == len({_OE}) "
        f"and all({_E}[k] == {_OE}[k] for k in range(len({_OE}))))",
        # absent: inserted at its place, everything else keeps its order
        f"(p < len({_OE}) and {_OE}[p] == element) or ((result is None) and len({_E}) == len({_OE}) + 1 and {_E}[p] == element "
        f"and all({_E}[k] == {_OE}[k] for k in range(p)) and all({_E}[k + 1] == {_OE}[k] for k in range(p, len({_OE}))))",
        _SORTED(_E),
        f"len({_E}) <= 2 * self.t - 1",
    ],
    props=["C19"],
    note="insert_nonfull on a leaf: a present key is replaced in place, an absent one is inserted at its sorted position; the "
         "leaf stays strictly sorted and within the maximum occupancy (uses the search_in_node contract)",
)

REG.contract(
    "dns.btree._Node.split#leaf",
    target="dns.btree._Node.split", verify_only=True, elements_are_keys=True, no_native=True,
    params={"self": LEAF},
    requires=["self.t >= 3", f"len({_E}) == 2 * self.t - 1", _SORTED(_E)],
    modifies={"self.elts": None},
    raises=[],
    ensures=[
        "result[0] is self",
        "result[1] == old_self.elts[self.t - 1]",
        # both halves are minimal, and left ++ [middle] ++ right is the old element list
        f"len({_E}) == self.t - 1 and len(result[2].elts) == self.t - 1",
        f"all({_E}[k] == {_OE}[k] for k in range(self.t - 1))",
        f"all(result[2].elts[k] == {_OE}[self.t + k] for k in range(self.t - 1))",
        "result[2].is_leaf and result[2].t == self.t and result[2].creator == self.creator",
    ],
    props=["C19"],
    note="split of a full leaf: two minimal leaves and the median; concatenated they are the old elements in order; the new "
         "right node belongs to the same creator",
)

# occupancy predicates (verify_only: callers keep inlining them, so no other ledger entry changes)
REG.contract(
    "dns.btree._Node.is_maximal",
    verify_only=True, elements_are_keys=True, no_native=True,
    params={"self": LEAF},
    requires=["self.t >= 3"],
    raises=[("builtins.AssertionError", f"len({_E}) > 2 * self.t - 1")],
    ensures=[f"result == (len({_E}) == 2 * self.t - 1)"],
    props=["C19"],
    note="is_maximal: True exactly at 2t-1 elements (the occupancy at which insertion must split first); an over-full node trips the assertion",
)

REG.contract(
    "dns.btree._Node.is_minimal",
    verify_only=True, elements_are_keys=True, no_native=True,
    params={"self": LEAF},
    requires=["self.t >= 3"],
    raises=[("builtins.AssertionError", f"len({_E}) < self.t - 1")],
    ensures=[f"result == (len({_E}) == self.t - 1)"],
    props=["C19"],
    note="is_minimal: True exactly at t-1 elements (the occupancy below which deletion must steal or merge first)",
)
