"""Contracts for the stub resolver's per-query state machine (C16): dns.resolver._Resolution.

Nameservers are heap objects of which only the constant answer of is_always_max_size() matters (ghost field
always_max; the abstract base method gets an assumed contract returning it)."""
from pyvc.api import REG
from pyvc.sym import T
import pyvc.spec  # noqa: F401

NS = "dns.nameserver.Nameserver"
REG.declare_heap_class(NS, always_max=T.bool)
REG.contract(
    "dns.nameserver.Nameserver.is_always_max_size",
    params={"self": T.ref(NS)}, raises=[], returns=T.bool, ensures=["result == self.always_max"],
    status="assumed", props=["C16"],
    note="abstract method: every concrete nameserver class returns a constant (Do53: False; DoH/DoT/DoQ: True)",
)

REG.declare_class(
    "dns.resolver._Resolution",
    retry_with_tcp=T.bool, nameserver=T.ref(NS, nullable=True), tcp_attempt=T.bool, tcp=T.bool,
    current_nameservers=T.list_of(T.ref(NS)), nameservers=T.list_of(T.ref(NS)), backoff=T.real,
    request=T.const(None), errors=T.const(None),
)
RES = T.obj("dns.resolver._Resolution")
_CUR, _ALL = "old_self.current_nameservers", "old_self.nameservers"
_RETRY = "old_self.retry_with_tcp"
_FRESH = f"((not {_RETRY}) and len({_CUR}) > 0)"
_REARM = f"((not {_RETRY}) and len({_CUR}) == 0 and len({_ALL}) > 0)"

REG.contract(
    "dns.resolver._Resolution.next_nameserver",
    params={"self": RES},
    # protocol invariant established by query_result: a TCP retry is only ever armed for the current, UDP-capable server
    requires=["(not self.retry_with_tcp) or ((self.nameserver is not None) and (not self.nameserver.always_max))",
              "self.backoff >= 0"],
    modifies={"self.retry_with_tcp": None, "self.tcp_attempt": None, "self.nameserver": T.ref(NS, nullable=True),
              "self.current_nameservers": None, "self.backoff": None},
    raises=[("dns.resolver.NoNameservers", "(not self.retry_with_tcp) and len(self.current_nameservers) == 0 and len(self.nameservers) == 0")],
    returns=T.fixed(T.ref(NS), T.bool, T.real),
    ensures=[
        # a truncated UDP reply is retried once over TCP on the same server, without delay, and the flag is consumed
        f"(not {_RETRY}) or ((result[0] is old_self.nameserver) and result[1] and result[2] == 0 and self.tcp_attempt "
        f"and (self.nameserver is old_self.nameserver) and len(self.current_nameservers) == len({_CUR}))",
        "not self.retry_with_tcp",
        # otherwise the next server of the round, in list order, with no delay
        f"(not {_FRESH}) or ((result[0] is {_CUR}[0]) and result[2] == 0 and self.backoff == old_self.backoff "
        f"and len(self.current_nameservers) == len({_CUR}) - 1 "
        f"and all(self.current_nameservers[i] is {_CUR}[i + 1] for i in range(len({_CUR}) - 1)))",
        # round exhausted: re-arm with the servers still considered usable, wait the back-off, double it up to 2 s
        f"(not {_REARM}) or ((result[0] is {_ALL}[0]) and result[2] == old_self.backoff "
        f"and self.backoff == (old_self.backoff * 2 if old_self.backoff * 2 < 2 else 2) "
        f"and len(self.current_nameservers) == len({_ALL}) - 1 "
        f"and all(self.current_nameservers[i] is {_ALL}[i + 1] for i in range(len({_ALL}) - 1)))",
        # the server asked becomes the current one; TCP iff configured or the server needs it
        f"{_RETRY} or ((self.nameserver is result[0]) and (result[1] == (self.tcp or result[0].always_max)) and (self.tcp_attempt == result[1]))",
        # the list of usable servers is not touched here
        f"len(self.nameservers) == len({_ALL}) and all(self.nameservers[i] is {_ALL}[i] for i in range(len({_ALL})))",
    ],
    props=["C16"],
    note="next_nameserver: TCP retry on the same server exactly once after truncation; otherwise servers in list order; "
         "when the round is exhausted the usable servers are re-armed with exponential back-off capped at 2 s; "
         "NoNameservers exactly when none is left",
)


# ----------------------------------------------------------------------------- query_result
import dns.exception  # noqa: E402
import dns.message  # noqa: E402

from contracts.cache import ANS, CACHE  # noqa: E402

REG.heap_classes[ANS] = dict(REG.heap_classes[ANS], rrset=T.ref("dns.rrset.RRset", nullable=True), response=T.int)
REG.declare_heap_class("dns.rrset.RRset")
REG.contract(
    "dns.resolver.Answer.__init__",
    params={"self": T.ref(ANS)}, raises=[("builtins.Exception", "True", "may")], status="assumed", props=["C16"],
    note="building an Answer follows the CNAME chain of the response; it either yields an answer object or raises (any exception)",
)
for _m, _ty in (("answer_port", T.int), ("answer_nameserver", T.str)):
    REG.contract(f"dns.nameserver.Nameserver.{_m}", params={"self": T.ref(NS)}, raises=[], returns=_ty, status="assumed",
                 props=["C16"], note="abstract accessor of a nameserver object (used only for the error log)")
REG.contract("dns.rcode.to_text", params={"value": T.int}, raises=[], returns=T.str, status="assumed", props=["C16"],
             note="text of an rcode (used only for the error log)")

REG.declare_class("dns.message.QueryMessage", flags=T.range(0, 0xFFFF), ednsflags=T.range(0, 0xFFFFFFFF))
_RESOLVER = T.obj("dns.resolver.BaseResolver", raw=True, cache=T.opt(CACHE), retry_servfail=T.bool)
RES2 = T.obj(
    "dns.resolver._Resolution", raw=True,
    retry_with_tcp=T.bool, nameserver=T.ref(NS, nullable=True), tcp_attempt=T.bool, tcp=T.bool,
    current_nameservers=T.list_of(T.ref(NS)), nameservers=T.list_of(T.ref(NS)), backoff=T.real,
    errors=T.list_of(T.opaque), resolver=_RESOLVER, qname=T.int, rdtype=T.range(0, 65535), rdclass=T.range(0, 65535),
    raise_on_no_answer=T.bool, nxdomain_responses=T.map_of(T.int, T.opaque),
)
_EXCS = [None, dns.exception.FormError(), EOFError(), OSError(), NotImplementedError(), dns.message.Truncated(),
         dns.exception.Timeout(), dns.message.BadEDNS()]
_RC = "((response.flags % 16) + ((response.ednsflags // 1048576) % 4096 - (response.ednsflags // 1048576) % 16))"
_BROKEN_EX = "(isinstance(ex, (dns.exception.FormError, EOFError, OSError, NotImplementedError)) or (isinstance(ex, dns.message.Truncated) and old_self.tcp_attempt))"
_SAME_NS = "len(self.nameservers) == len(old_self.nameservers) and all(self.nameservers[i] is old_self.nameservers[i] for i in range(len(old_self.nameservers)))"
_DROPPED = ("len(self.nameservers) == len(old_self.nameservers) - 1 and any("
            "(old_self.nameservers[p] is old_self.nameserver) "
            "and all(not (old_self.nameservers[i] is old_self.nameserver) for i in range(p)) "
            "and all(self.nameservers[i] is old_self.nameservers[i] for i in range(p)) "
            "and all(self.nameservers[i] is old_self.nameservers[i + 1] for i in range(p, len(old_self.nameservers) - 1)) "
            "for p in range(len(old_self.nameservers)))")

_OTHER = f"((ex is None) and {_RC} != 0 and {_RC} != 3 and {_RC} != 6)"
REG.contract(
    "dns.resolver._Resolution.query_result",
    params={"self": RES2, "response": T.opt(T.obj("dns.message.QueryMessage")), "ex": T.oneof(*_EXCS)},
    requires=["self.nameserver is not None", "(ex is None) != (response is None)",
              # the server being asked is one of the usable ones (established by next_nameserver)
              "any(self.nameservers[i] is self.nameserver for i in range(len(self.nameservers)))"],
    modifies={"self.retry_with_tcp": None, "self.nameservers": None, "self.errors": None, "self.nxdomain_responses": None,
              "self.resolver.cache.data": None, "self.resolver.cache.next_cleaning": None},
    raises=[("dns.resolver.NoAnswer", "True", "may"), ("dns.resolver.YXDOMAIN", f"(ex is None) and {_RC} == 6")],
    returns=T.fixed(T.ref(ANS, nullable=True), T.bool),
    ensures=[
        # an I/O or parse failure never ends the loop and is logged once
        "(ex is None) or ((result[0] is None) and (not result[1]) and len(self.errors) == len(old_self.errors) + 1)",
        # a server that proved broken is removed from the usable list (first occurrence), everything else keeps its place
        f"(not ((ex is not None) and {_BROKEN_EX})) or ({_DROPPED})",
        f"(not ((ex is not None) and not {_BROKEN_EX})) or ({_SAME_NS})",
        # truncation over UDP arms exactly one TCP retry; nothing else does
        "self.retry_with_tcp == (old_self.retry_with_tcp or (isinstance(ex, dns.message.Truncated) and not old_self.tcp_attempt))",
        # NOERROR with a well-formed answer ends the loop with that answer, cached under (qname, rdtype, rdclass)
        f"(not ((ex is None) and {_RC} == 0 and result[1])) or ((result[0] is not None) and ({_SAME_NS}) "
        "and ((self.resolver.cache is None) or (((self.qname, self.rdtype, self.rdclass) in self.resolver.cache.data) "
        "and (self.resolver.cache.data[(self.qname, self.rdtype, self.rdclass)] is result[0]))))",
        # NXDOMAIN ends the loop without an answer and is recorded for this qname
        f"(not ((ex is None) and {_RC} == 3 and result[1])) or ((result[0] is None) and (self.qname in self.nxdomain_responses) and ({_SAME_NS}))",
        # the loop only ever ends on NOERROR or NXDOMAIN
        f"(not result[1]) or ((ex is None) and ({_RC} == 0 or {_RC} == 3))",
        # any other rcode: logged; the server is dropped unless it is SERVFAIL and retry_servfail is set
        f"(not {_OTHER}) or ((result[0] is None) and (not result[1]) and len(self.errors) == len(old_self.errors) + 1)",
        f"(not ({_OTHER} and {_RC} == 2 and self.resolver.retry_servfail)) or ({_SAME_NS})",
        f"(not ({_OTHER} and not ({_RC} == 2 and self.resolver.retry_servfail))) or ({_DROPPED})",
    ],
    props=["C16"],
    note="query_result: which outcomes end the resolution, which drop the server for good (never asked again), which arm the "
         "single TCP retry, and that answers are cached under (qname, rdtype, rdclass)",
)


# ----------------------------------------------------------------------------- candidate names: search list and ndots
from contracts.name import NAME, ISABS  # noqa: E402

_LEQ = lambda a, b: f"(len({a}.labels) == len({b}.labels) and all({a}.labels[k] == {b}.labels[k] for k in range(len({a}.labels))))"
# x is qname followed by the labels of s
_CAT = lambda x, s: (f"(len({x}.labels) == len(qname.labels) + len({s}.labels) "
                     f"and all({x}.labels[k] == qname.labels[k] for k in range(len(qname.labels))) "
                     f"and all({x}.labels[len(qname.labels) + k] == {s}.labels[k] for k in range(len({s}.labels))))")
_ABSQ = lambda x: (f"(len({x}.labels) == len(qname.labels) + 1 and {x}.labels[len(qname.labels)] == b'' "
                   f"and all({x}.labels[k] == qname.labels[k] for k in range(len(qname.labels))))")
_SEARCHING = "(search if search is not None else self.use_search_by_default)"
_ND = "(1 if self.ndots is None else self.ndots)"
for _n in (0, 1, 2):
    _res = T.obj("dns.resolver.BaseResolver", raw=True, use_search_by_default=T.bool, search=T.fixed(*([NAME] * _n)),
                 domain=T.const(None), ndots=T.opt(T.range(0, 15)))
    _first_abs = f"(len(qname.labels) > {_ND})"
    _ens = [
        f"(not {ISABS('qname')}) or (len(result) == 1 and result[0] is qname)",
        f"({ISABS('qname')}) or {_SEARCHING} or (len(result) == 1 and {_ABSQ('result[0]')})",
        f"({ISABS('qname')}) or (not {_SEARCHING}) or len(result) == {_n + 1}",
        # enough dots: the absolute name first, then the search list in order
        f"({ISABS('qname')}) or (not {_SEARCHING}) or (not {_first_abs}) or ({_ABSQ('result[0]')}"
        + "".join(f" and {_CAT(f'result[{j + 1}]', f'self.search[{j}]')}" for j in range(_n)) + ")",
        # fewer dots than ndots: the search list first, the absolute name last
        f"({ISABS('qname')}) or (not {_SEARCHING}) or {_first_abs} or ({_ABSQ(f'result[{_n}]')}"
        + "".join(f" and {_CAT(f'result[{j}]', f'self.search[{j}]')}" for j in range(_n)) + ")",
    ]
    REG.contract(
        f"dns.resolver.BaseResolver._get_qnames_to_try#search{_n}",
        target="dns.resolver.BaseResolver._get_qnames_to_try", verify_only=True,
        params={"self": _res, "qname": NAME, "search": T.opt(T.bool)},
        requires=[ISABS(f"self.search[{j}]") for j in range(_n)],
        raises=[("dns.name.NameTooLong", "True", "may")],
        ensures=_ens,
        props=["C16"],
        note=f"candidate names for a search list of {_n} suffix(es) (the loop over the list is a uniform append, so each length is "
             "the same argument): absolute names are tried alone; otherwise the absolute form comes first exactly when the name has "
             "more labels than ndots (default 1, 0 allowed), else last, with the suffixed names in list order in between",
    )
