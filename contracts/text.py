"""Contracts for small text parsers used by the zone-file reader (C09, C04)."""
from pyvc.api import REG, loop
from pyvc.sym import T
import pyvc.spec  # noqa: F401

REG.contract(
    "dns.ttl.from_text",
    params={"text": T.str},
    raises=[("dns.ttl.BadTTL", "True", "may")],
    returns=T.int,
    loops={0: loop(index="i", invariant=["total >= 0 and current >= 0"])},
    ensures=["0 <= result and result <= 4294967295"],
    props=["C09", "C04"],
    note="dns.ttl.from_text: whatever the text (BIND unit syntax, any Unicode decimal digits, any length), the result is a "
         "TTL in 0..2**32-1 or BadTTL is raised - no other exception escapes",
)

# ---- field validators of dns.rdata.Rdata: every integer field a record constructor accepts fits its wire width (C02, C04)
for _meth, _hi in (("_as_uint8", 255), ("_as_uint16", 65535), ("_as_uint32", 4294967295), ("_as_uint48", 281474976710655)):
    REG.contract(
        f"dns.rdata.Rdata.{_meth}",
        params={"cls": T.const(None), "value": T.int},
        raises=[("builtins.ValueError", f"value < 0 or value > {_hi}")],
        returns=T.int,
        ensures=["result == value", f"0 <= result and result <= {_hi}"],
        props=["C02", "C04"],
        note=f"{_meth}: accepts exactly 0..{_hi} and returns the value unchanged, so struct.pack of the field's wire width "
             "cannot fail on a constructed record; anything else is ValueError",
    )

REG.contract(
    "dns.rdata.Rdata._as_int",
    params={"cls": T.const(None), "value": T.int, "low": T.int, "high": T.int},
    raises=[("builtins.ValueError", "value < low or value > high")],
    returns=T.int,
    ensures=["result == value", "low <= result and result <= high"],
    props=["C02", "C04"],
    note="_as_int with both bounds given: accepts exactly low..high",
)

from dns.rdata import Rdata as _Rdata  # noqa: E402

REG.contract(
    "dns.rdata.Rdata._as_ttl#int",
    target="dns.rdata.Rdata._as_ttl",
    params={"cls": T.const(_Rdata), "value": T.int},
    raises=[("builtins.ValueError", "value < 0 or value > 4294967295")],
    returns=T.int,
    ensures=["result == value", "0 <= result and result <= 4294967295"],
    props=["C02", "C09"],
    note="_as_ttl of an integer: 0..2**32-1 (dns.ttl.MAX_TTL, the range dns.ttl.from_text produces), value unchanged",
)
