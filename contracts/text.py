"""Contracts for small text parsers used by the zone-file reader (C09, C04)."""
from pyvc.api import REG, loop
from pyvc.sym import T
import pyvc.spec  # noqa: F401

REG.contract(
    "dns.ttl.from_text",
    params={"text": T.str},
    raises=[("dns.ttl.BadTTL", "True", "may")],
    returns=T.int,
    loops={0: loop(index="i", invariant=["total >= 0 and current >= 0"])},
    ensures=["0 <= result and result <= 4294967295"],
    props=["C09", "C04"],
    note="dns.ttl.from_text: whatever the text (BIND unit syntax, any Unicode decimal digits, any length), the result is a "
         "TTL in 0..2**32-1 or BadTTL is raised - no other exception escapes",
)
