"""Contracts for dns/renderer.py (C03 compression table soundness under rollback, C08 size budget)."""
from pyvc.api import REG, loop
from pyvc.sym import T
import pyvc.spec  # noqa: F401

def _mk_renderer(f):
    import io
    import dns.renderer

    r = dns.renderer.Renderer(id=1)
    r.output = io.BytesIO()
    r.output.write(f["output"]["buf"])
    r.output.seek(f["output"]["pos"])
    r.compress = dict(f["compress"])
    r.max_size, r.reserved, r.section = f["max_size"], f["reserved"], f["section"]
    return r


def _gen_renderer(rng):
    n = rng.choice([12, 13, 20, 40, 300])
    buf = bytes(rng.randrange(256) for _ in range(n))
    comp = {}
    for _ in range(rng.choice([0, 1, 2, 3, 6])):
        comp[rng.randrange(1000)] = rng.choice([12, rng.randrange(0, n + 3), n - 1, n])
    return _mk_renderer({"output": {"buf": buf, "pos": rng.randint(0, n)}, "compress": comp,
                         "max_size": rng.choice([0, 1, 512, 65535]), "reserved": rng.choice([0, 11, 100]), "section": rng.randrange(4)})


REG.declare_class(
    "dns.renderer.Renderer", make=_mk_renderer, gen=_gen_renderer,
    inv="0 <= self.output.tell() and self.output.tell() <= len(self.output.getvalue()) and self.reserved >= 0 and self.max_size >= 0",
    output=T.bytesio, compress=T.map_of(T.int, T.int, ordered=True), max_size=T.int, reserved=T.int, section=T.range(0, 3),
)
RENDERER = T.obj("dns.renderer.Renderer")

REG.contract(
    "dns.renderer.Renderer._rollback",
    params={"self": RENDERER, "where": T.int},
    requires=["0 <= where and where <= len(self.output.getvalue())"],
    modifies={"self.output": None, "self.compress": T.map_of(T.int, T.int)},
    raises=[],
    loops={
        0: loop(index="i0", types={"keys_to_delete": T.indexed_list_of_int()}, invariant=[
            # every entry seen so far with an offset at or beyond the cut is scheduled for deletion
            "all((not old_self.compress[old_keys[j]] >= where) or (old_keys[j] in keys_to_delete) for j in range(i0))",
            # and only such entries of the table are scheduled, each once
            "all((keys_to_delete[m] in old_self.compress) and old_self.compress[keys_to_delete[m]] >= where for m in range(len(keys_to_delete)))",
            "all(old_pos[keys_to_delete[m]] < i0 for m in range(len(keys_to_delete)))",
            "all(keys_to_delete[a] != keys_to_delete[b] for a in range(len(keys_to_delete)) for b in range(a + 1, len(keys_to_delete)))",
        ]),
        1: loop(index="i1", invariant=[
            "all(not (keys_to_delete[m] in self.compress) for m in range(i1))",
            "all(keys_to_delete[m] in self.compress for m in range(i1, len(keys_to_delete)))",
            "all((k in old_self.compress) and self.compress[k] == old_self.compress[k] for k in self.compress)",
            "all((k in self.compress) or (k in keys_to_delete) for k in old_self.compress)",
        ], modifies={"self.compress": T.map_of(T.int, T.int)}),
    },
    ghost_entry={"old_keys": "self.compress.keys()", "old_pos": "kpos_of(self.compress)"},
    ensures=[
        "len(self.output.getvalue()) == where",
        "self.output.tell() == where",
        "self.output.getvalue() == old_self.output.getvalue()[:where]",
        # no compression table entry points at or beyond the truncation point
        "all(self.compress[k] < where for k in self.compress)",
        # frame: surviving entries are unchanged, and every entry below the cut survives
        "all((k in old_self.compress) and self.compress[k] == old_self.compress[k] for k in self.compress)",
        "all((k in self.compress) for k in old_self.compress if old_self.compress[k] < where)",
    ],
    props=["C03", "C08"],
    note="after a rollback the buffer is cut at `where` and the compression table holds exactly the old entries whose "
         "offset lies below the cut: no pointer can later target removed bytes",
)

REG.contract(
    "dns.renderer.Renderer.reserve",
    params={"self": RENDERER, "size": T.int},
    raises=[("builtins.ValueError", "size < 0 or size > self.max_size")],
    modifies={"self.reserved": T.int, "self.max_size": T.int},
    ensures=["self.reserved == old_self.reserved + size", "self.max_size == old_self.max_size - size",
             "self.max_size >= 0 and self.max_size + self.reserved == old_self.max_size + old_self.reserved"],
    props=["C08"],
    note="the budget invariant: max_size + reserved is constant and max_size never goes negative",
)

REG.contract(
    "dns.renderer.Renderer.release_reserved",
    params={"self": RENDERER},
    raises=[],
    modifies={"self.reserved": T.int, "self.max_size": T.int},
    ensures=["self.reserved == 0", "self.max_size == old_self.max_size + old_self.reserved"],
    props=["C08"],
)

REG.contract(
    "dns.renderer.Renderer._set_section",
    params={"self": RENDERER, "section": T.range(0, 3)},
    raises=[("dns.exception.FormError", "self.section > section")],
    modifies={"self.section": T.int},
    ensures=["self.section == section", "self.section >= old_self.section"],
    ensures_raise=["self.section == old_self.section"],
    props=["C03"],
    note="sections only move forward",
)

# ----------------------------------------------------------------------------- C08-P1 / C03-P4: a record set that does not fit is removed whole
from contracts.name import NAME  # noqa: E402

RENDERER_FULL = T.obj("dns.renderer.Renderer", output=T.bytesio, compress=T.map_of(T.int, T.int, ordered=True), max_size=T.int,
                      reserved=T.int, section=T.range(0, 3), origin=T.opt(NAME), counts=T.list_of(T.int))
_R_OK = ["self.output.tell() == len(self.output.getvalue())", "len(self.counts) == 4",
         "all(0 <= self.compress[k] and self.compress[k] <= 0x3FFF and self.compress[k] < len(self.output.getvalue()) for k in self.compress)"]
_OLEN = "len(old_self.output.getvalue())"
_UNCHANGED = [
    f"len(self.output.getvalue()) == {_OLEN}",
    "self.output.getvalue() == old_self.output.getvalue()",
    "all(self.counts[j] == old_self.counts[j] for j in range(4))",
    "all((k in old_self.compress) and self.compress[k] == old_self.compress[k] for k in self.compress)",
    "all((k in self.compress) for k in old_self.compress)",
]

REG.contract(
    "dns.renderer.Renderer.add_question",
    params={"self": RENDERER_FULL, "qname": NAME, "rdtype": T.u16, "rdclass": T.u16},
    requires=_R_OK,
    raises=[("dns.exception.FormError", "self.section > 0"),
            ("dns.exception.TooBig", "True", "may"),
            ("dns.name.NeedAbsoluteNameOrOrigin", "True", "may"),
            ("dns.name.NameTooLong", "True", "may")],
    ensures=_R_OK + [
        "len(self.output.getvalue()) <= self.max_size",
        f"len(self.output.getvalue()) > {_OLEN}",
        f"self.output.getvalue()[:{_OLEN}] == old_self.output.getvalue()",
        "self.counts[0] == old_self.counts[0] + 1 and all(self.counts[j] == old_self.counts[j] for j in range(1, 4))",
        "all((k in self.compress) and self.compress[k] == old_self.compress[k] for k in old_self.compress)",
    ],
    ensures_raise={
        "dns.exception.TooBig": _UNCHANGED + _R_OK,
        "dns.exception.FormError": ["all(self.counts[j] == old_self.counts[j] for j in range(4))"],
    },
    props=["C03", "C08"],
    note="a question that does not fit is removed whole: on TooBig the buffer, the counts and the compression table are exactly "
         "what they were (no entry can point into removed bytes); otherwise the output grew within max_size, old bytes and table "
         "entries are untouched and only the question count moved",
)


# ----------------------------------------------------------------------------- the general case: any record set (C08-P1)
class _RRsetStub:
    """stands for an RRset / Rdataset being rendered: to_wire appends to the buffer, may enter the offsets of names it wrote
    into the compression table, and returns how many records it wrote"""

    def to_wire(self, file, compress=None, origin=None, **kw):
        raise NotImplementedError


RRS = "contracts.renderer._RRsetStub"
REG.declare_class(RRS)
REG.contract(
    RRS + ".to_wire",
    params={"self": T.obj(RRS), "file": T.bytesio, "compress": T.map_of(T.int, T.int), "origin": T.opt(NAME)},
    modifies={"file": None, "compress": T.map_of(T.int, T.int)},
    raises=[("dns.name.NeedAbsoluteNameOrOrigin", "True", "may"), ("dns.name.NameTooLong", "True", "may")],
    returns=T.nat,
    ensures=[
        "file.tell() == len(file.getvalue())",
        "len(file.getvalue()) >= len(old_file.getvalue())",
        "file.getvalue()[:len(old_file.getvalue())] == old_file.getvalue()",
        # table: old entries untouched; new entries point into what was just written, within the 14-bit limit
        "all((k in compress) and compress[k] == old_compress[k] for k in old_compress)",
        "all((k in old_compress) or (len(old_file.getvalue()) <= compress[k] and compress[k] < len(file.getvalue()) and compress[k] <= 0x3FFF) for k in compress)",
    ],
    ensures_raise=[
        "file.tell() == len(file.getvalue())", "len(file.getvalue()) >= len(old_file.getvalue())",
        "file.getvalue()[:len(old_file.getvalue())] == old_file.getvalue()",
        "all((k in compress) and compress[k] == old_compress[k] for k in old_compress)",
        "all((k in old_compress) or (len(old_file.getvalue()) <= compress[k] and compress[k] < len(file.getvalue()) and compress[k] <= 0x3FFF) for k in compress)",
    ],
    status="assumed", props=["C03", "C08"],
    note="ASSUMED interface of a record set's to_wire (proved for names: Name.to_wire#file): it only appends, only adds table "
         "entries for offsets inside what it appended, and returns the number of records written",
)

REG.contract(
    "dns.renderer.Renderer.add_rrset",
    params={"self": RENDERER_FULL, "section": T.range(0, 3), "rrset": T.obj(RRS)},
    requires=_R_OK,
    raises=[("dns.exception.FormError", "self.section > section"),
            ("dns.exception.TooBig", "True", "may"),
            ("dns.name.NeedAbsoluteNameOrOrigin", "True", "may"),
            ("dns.name.NameTooLong", "True", "may")],
    ensures=_R_OK + [
        "len(self.output.getvalue()) <= self.max_size",
        f"len(self.output.getvalue()) >= {_OLEN}",
        f"self.output.getvalue()[:{_OLEN}] == old_self.output.getvalue()",
        "self.counts[section] >= old_self.counts[section] and all((j == section) or self.counts[j] == old_self.counts[j] for j in range(4))",
        "all((k in self.compress) and self.compress[k] == old_self.compress[k] for k in old_self.compress)",
        "self.section == section",
    ],
    ensures_raise={
        # the section marker already names the section of the set that did not fit: Message.to_wire decides from it
        # whether dropping the set means truncation (TC) or just a shorter additional section
        "dns.exception.TooBig": _UNCHANGED + _R_OK + ["self.section == section"],
        "dns.exception.FormError": ["all(self.counts[j] == old_self.counts[j] for j in range(4))"],
    },
    props=["C03", "C08"],
    note="any record set that does not fit is removed whole: on TooBig the buffer, the counts and the compression table are "
         "exactly what they were; otherwise the output grew within max_size, old bytes and table entries are untouched, only "
         "this section's count moved and the section marker is set BEFORE rendering (truncation decisions read it)",
)


class _RdatasetStub:
    def to_wire(self, name, file, compress=None, origin=None, **kw):
        raise NotImplementedError


RDSS = "contracts.renderer._RdatasetStub"
REG.declare_class(RDSS)
REG.contract(
    RDSS + ".to_wire",
    params={"self": T.obj(RDSS), "name": NAME, "file": T.bytesio, "compress": T.map_of(T.int, T.int), "origin": T.opt(NAME)},
    modifies={"file": None, "compress": T.map_of(T.int, T.int)},
    raises=[("dns.name.NeedAbsoluteNameOrOrigin", "True", "may"), ("dns.name.NameTooLong", "True", "may")],
    returns=T.nat,
    ensures=[
        "file.tell() == len(file.getvalue())",
        "len(file.getvalue()) >= len(old_file.getvalue())",
        "file.getvalue()[:len(old_file.getvalue())] == old_file.getvalue()",
        # table: old entries untouched; new entries point into what was just written, within the 14-bit limit
        "all((k in compress) and compress[k] == old_compress[k] for k in old_compress)",
        "all((k in old_compress) or (len(old_file.getvalue()) <= compress[k] and compress[k] < len(file.getvalue()) and compress[k] <= 0x3FFF) for k in compress)",
    ],
    ensures_raise=[
        "file.tell() == len(file.getvalue())", "len(file.getvalue()) >= len(old_file.getvalue())",
        "file.getvalue()[:len(old_file.getvalue())] == old_file.getvalue()",
        "all((k in compress) and compress[k] == old_compress[k] for k in old_compress)",
        "all((k in old_compress) or (len(old_file.getvalue()) <= compress[k] and compress[k] < len(file.getvalue()) and compress[k] <= 0x3FFF) for k in compress)",
    ],
    status="assumed", props=["C03", "C08"],
    note="ASSUMED interface of a record set's to_wire (proved for names: Name.to_wire#file): it only appends, only adds table "
         "entries for offsets inside what it appended, and returns the number of records written",
)

REG.contract(
    "dns.renderer.Renderer.add_rdataset",
    params={"self": RENDERER_FULL, "section": T.range(0, 3), "name": NAME, "rdataset": T.obj(RDSS)},
    requires=_R_OK,
    raises=[("dns.exception.FormError", "self.section > section"),
            ("dns.exception.TooBig", "True", "may"),
            ("dns.name.NeedAbsoluteNameOrOrigin", "True", "may"),
            ("dns.name.NameTooLong", "True", "may")],
    ensures=_R_OK + [
        "len(self.output.getvalue()) <= self.max_size",
        f"len(self.output.getvalue()) >= {_OLEN}",
        f"self.output.getvalue()[:{_OLEN}] == old_self.output.getvalue()",
        "self.counts[section] >= old_self.counts[section] and all((j == section) or self.counts[j] == old_self.counts[j] for j in range(4))",
        "all((k in self.compress) and self.compress[k] == old_self.compress[k] for k in old_self.compress)",
        "self.section == section",
    ],
    ensures_raise={
        # the section marker already names the section of the set that did not fit: Message.to_wire decides from it
        # whether dropping the set means truncation (TC) or just a shorter additional section
        "dns.exception.TooBig": _UNCHANGED + _R_OK + ["self.section == section"],
        "dns.exception.FormError": ["all(self.counts[j] == old_self.counts[j] for j in range(4))"],
    },
    props=["C03", "C08"],
    note="add_rdataset, same as add_rrset: any record set that does not fit is removed whole: on TooBig the buffer, the counts and the compression table are "
         "exactly what they were; otherwise the output grew within max_size, old bytes and table entries are untouched, only "
         "this section's count moved and the section marker is set BEFORE rendering (truncation decisions read it)",
)
