"""Per-property configuration of the checks: claimed level, assumptions (ids of DESIGN.md
section 5) and the explanation written into the evidence file."""

A_COMMON = [
    "A-sem: pyvc's model of the Python subset agrees with CPython 3.12 (cross-checked natively, not proved)",
    "A-dyn: no monkey-patching; names resolve as in the imported modules",
    "A-lib: struct, int.to_bytes/from_bytes, bytes.lower, bytes ordering, dict/deque behave as documented",
    "A-mem: no MemoryError/RecursionError",
]

PROPS = {}


def prop(pid, level, explanation, assumptions=(), trusted_base=(), **kw):
    PROPS[pid] = dict(level=level, explanation=explanation, assumptions=A_COMMON + list(assumptions),
                      trusted_base=list(trusted_base), **kw)


prop("C01", "other",
     "Contracts on dns.name (_validate_labels, Name.__init__, from_wire_parser, ...) and dns.wirebase.Parser are "
     "discharged for all inputs by pyvc from the current source (class invariant of Name, wire decoder bounds/termination/"
     "strictly-earlier pointers, uncompressed and compressed encoders' discipline, decode-then-encode identity on uncompressed "
     "names (from_wire_parser#uncompressed: the octets consumed are the RFC 1035 encoding of the result), label text and the "
     "per-octet step lemmas of from_text); clauses not proved are covered by the bounded stand-in (exhaustive small scope + seeded), labelled bounded.",
     assumptions=["A-fold: a for loop over a++b is the loop over a then over b", "A-ext: IDNA codecs are external",
                  "L-frame: the RFC 1035 encoding of labels[lo:hi] does not depend on list cells outside lo..hi-1 (instantiated, by induction, not re-proved)"])

TECHNIQUE = {}
NOT_APPLICABLE = {}

_GENERIC = ("Deductive tier: the contracts tagged with this property are discharged for all inputs by pyvc from the current "
            "source (listed under coverage.contracts; anything not proved is under coverage.not_proved). Bounded tier: the "
            "stand-in executes the real code natively against the property's clauses on the stated scope; it is labelled "
            "bounded and never counted as discharged. ")

prop("C02", "other", _GENERIC + "Proved: wire Parser primitives every codec is built on (exact consumption, FormError on short input) and "
     "the relational wire round trip of 24 record classes discovered by walking dns/rdtypes (for arbitrary octets w: if decode(w) "
     "returns x having consumed w, encode(x) cannot fail and decode(encode(x)) equals x field by field, consuming exactly, so the "
     "encoding is a fixed point); the constructors' field validators Rdata._as_uint8/16/32/48, _as_int and _as_ttl accept exactly the "
     "field's wire range and return the value unchanged. Classes with embedded names, item loops, address text or floats are listed in "
     "contracts/rdtypes.py:NOT_ATTEMPTED with the reason and are covered by the bounded stand-in only.", needs_obligations=True)
prop("C03", "other", _GENERIC + "Proved: rcode/opcode flag codecs and their round-trip lemmas; Renderer._rollback (buffer cut, table "
     "purged: no entry at or beyond the cut survives, entries below it are untouched), _set_section, add_question (removed whole on "
     "TooBig), and the table discipline of Name.to_wire with a file (entries only at offsets written by the call, <= 0x3FFF; thorough "
     "tier). Whole-message render/parse composition is bounded.")
prop("C04", "other", _GENERIC + "Proved: exception sets and termination of the wire parser kernel (Parser.*, name.from_wire_parser, "
     "_validate_labels, Name.__init__). Text side and per-type bodies are bounded.")
prop("C05", "other", _GENERIC + "Proved: the text of a character-string (dns.rdata._escapify) and of a label (dns.name._escapify) is the "
     "concatenation of the specified escape of each octet, and the per-octet step lemmas over the body of name.from_text's loop "
     "(each escape form is read back as exactly that octet). Per-type text composition and the tokenizer are bounded.")
prop("C06", "proof", "Name.fullcompare is proved totally correct against the RFC 4034 6.1 order (pyvc, all inputs); antisymmetry, "
     "reflexivity, transitivity, equality-iff-case-insensitive-labels and agreement with the subdomain predicates are Level-2 lemmas "
     "over that contract; relativize/derelativize/parent/split/concatenate have label-exact contracts. Name.__hash__ is proved to be "
     "the fold h = 9h + c over the ASCII-lowered labels (nested loop invariants over the real loops), and the induction step of "
     "'equal names hash equally' is a Level-2 lemma (the induction principle over the label index is the one unchecked step). "
     "Successor/predecessor are covered by the bounded stand-in (labelled bounded).",
     assumptions=["A-lower: bytes.lower() is octet-wise ASCII lower-casing",
                  "A-order: bytes comparison is a strict total (lexicographic) order on octet strings; its transitivity is instantiated at the deciding label",
                  "L-sum: additivity of the finite sum wirelen (instantiated, not re-proved by the solver)"])
prop("C07", "other", _GENERIC + "Proved: Name equality contract (shared with C06); dns.set.Set add/remove/discard and the in-place union, "
     "intersection and difference against set theory over the abstract key set, including the self-aliasing cases; issubset, issuperset, "
     "isdisjoint (both directions of the verdict, early exit included) and clear; Rdataset.add and "
     "update_ttl (a record of another class/type or a signature covering another type is refused and nothing changes; singleton "
     "types replace; TTL minimisation; the covered type is adopted only by an empty set that declared none), modular over Set.add. "
     "Rdata.__eq__ and __hash__ both go through the canonical form (class, type, relativity and to_digestable octets), with the lemma "
     "that equal records hash equally, over an assumed per-record canonical form. Copying forms, insertion order, the other "
     "Rdataset operations and immutability are bounded.", needs_obligations=True,
     assumptions=["A-key: element == is an equivalence with a consistent hash (elements are abstracted as integer identities)"])
prop("C08", "other", _GENERIC + "Proved: the budget invariant of reserve/release_reserved, Renderer._rollback, and 'a record set that "
     "does not fit is removed whole' for add_question, add_rrset and add_rdataset (on TooBig the buffer, counts and compression "
     "table are exactly what they were and the section marker already names the section of the set that was dropped; otherwise the "
     "output grew within max_size and nothing old moved), the record sets being stubs under an assumed append-only to_wire "
     "interface (proved for names: Name.to_wire#file). Message.to_wire control, reserve exactness and padding are bounded.",
     assumptions=["A-towire: RRset/Rdataset.to_wire only appends to the buffer and only enters offsets of what it appended into the compression table"])
prop("C09", "other", _GENERIC + "Proved: the CNAME/other-data classification rule (NodeKind.classify) against the RFC rule; the TTL field "
     "parser dns.ttl.from_text (any text gives a TTL in 0..2**32-1 or BadTTL, nothing else escapes; loop invariant over the real "
     "per-character loop). The field grammar of the reader and emitter, directives and $GENERATE are decided by the bounded stand-in.",
     assumptions=["A-unicode: str.isdecimal / int() / str.lower on non-ASCII characters are uninterpreted (decimal digits have a value 0..9)"])
prop("C10", "other", _GENERIC + "Proved: RFC 1982 Serial arithmetic and comparison contracts and the increment lemma; the transaction "
     "life cycle (_check_ended, _end, commit, rollback, __exit__: ended transactions refuse use, a clean exit commits, an exit through "
     "an exception rolls back and is never swallowed, the ended flag is set whatever the zone's hook does) against an assumed contract "
     "of the abstract _end_transaction hook; that hook as implemented for zone transactions (dns.zone.Transaction._end_transaction: "
     "rollback never publishes, commit publishes exactly the version the transaction built and only if something changed, a reader "
     "only unregisters) relative to the zone's three entry points, which are under contract for the plain zone here and for the "
     "versioned zone under C11; Rdataset.add/update_ttl (TTL minimisation on merge, singleton replacement, refusal of foreign "
     "records without any change); _validate_name (every spelling of an owner name is mapped to the zone's one storage form, "
     "names outside the zone are KeyError) with the lemma that the relative and the absolute spelling of one name give the same key. "
     "The content of zones after sequences of operations is bounded.",
     assumptions=["A-hook: Transaction subclasses other than dns.zone.Transaction implement _end_transaction as told (assumed contract)"])
prop("C11", "other", _GENERIC + "Discharged: the mechanical lock-discipline obligations of dns.versioned.Zone (readers pick and register "
     "their version under the lock); version retention on the real functions in a symbolic heap: _prune_versions_unlocked (only the "
     "old end is removed, never the newest version nor anything at or after the oldest version an open reader holds, for every answer "
     "of the policy callable; terminates), _commit_version_unlocked (modularly over the pruning contract), _get_next_version_id "
     "(greater than every retained id), _end_read (unregisters exactly that reader and prunes at once, as far as the policy "
     "allows) and the lemma that a pinned version keeps its shifted position. Snapshot isolation of reads and immutability are bounded.",
     assumptions=["A-policy: the pruning policy is an arbitrary pure callable (an uninterpreted predicate of the number of retained versions and the candidate)"])
prop("C12", "other", _GENERIC + "Discharged: the mechanical lock-discipline obligations (every access of the writer/reader state under "
     "_version_lock or in *_unlocked methods whose call sites hold it; no blocking call under the lock); the hand-over step on the "
     "real functions: _maybe_wakeup_one_waiter_unlocked and _end_write_unlocked wake exactly the head of the waiter queue, make its "
     "event the token writer() compares against, and keep the order of the others (FIFO). The monitor invariant over whole "
     "schedules is not proved; schedules are enumerated by the bounded stand-in. Liveness under an unfair scheduler is out of reach.",
     assumptions=["A-event: threading.Event.set() sets that event only (assumed contract)"])
prop("C13", "other", _GENERIC + "Proved: RFC 1982 Serial comparison used for 'serial went backwards'; the transaction life cycle the "
     "transfer relies on (commit/rollback/__exit__, see C10); the transfer state machine itself, on the real "
     "Inbound.process_message with its collaborators abstracted by stub classes under assumed contracts (names, rdatasets, "
     "transaction manager, transaction): commit is the last action, at most once, only after the final SOA and the rest of the "
     "message; every raised error (only the documented ones can be raised) leaves every transaction uncommitted; a replaced or "
     "finished transaction is never leaked; Inbound.__exit__ rolls back what is open. Quick tier: the AXFR half; thorough tier: "
     "the full machine (about 3800 VCs) with the exact conditions of SerialWentBackwards, UseTCP and TransferError. Convergence to the server's content is bounded.",
     assumptions=["A-stub: records, names and transactions seen by process_message satisfy the stub contracts in contracts/xfr.py "
                  "(name identity, in-zone predicate, content signature, a transaction that commits or raises without effect)"])
prop("C14", "other", _GENERIC + "Proved: dns.tsig._digest feeds the HMAC exactly the RFC 8945 4.3 digest components (first and "
     "subsequent messages, request MAC prefix, 48-bit time split) and _maybe_start_digest primes the next context with the "
     "length-prefixed MAC; the HMAC context is a ghost concatenation (assumed); dns.tsig.validate performs its checks in the "
     "documented order with exact conditions (no additional record: FormError; peer error codes; BadTime exactly when the signing "
     "time is outside the fudge window on either side; key name, then algorithm, case-insensitively; then the MAC over _digest's "
     "components, modularly over the _digest contract); dns.tsig.sign puts into the TSIG record the HMAC of exactly those "
     "components with the given signing time, keeps the other fields and primes the follow-up context. The message-level "
     "composition of sign and validate and bit-flip rejection are bounded.",
     assumptions=["A-crypto: hashlib/hmac are trusted"])
prop("C15", "other", _GENERIC + "Proved: DNSKEY key tag (RFC 4034 appendix B) with loop invariant over the real loop. Other computations are bounded.",
     assumptions=["A-crypto: hash functions are trusted"])
prop("C16", "other", _GENERIC + "Proved: the lifetime budget (_compute_timeout) over reals with an external clock; the two steps of "
     "the resolution state machine on the real code: next_nameserver (single TCP retry on the same server after truncation, list "
     "order, re-arming with exponential back-off capped at 2 s, NoNameservers exactly when nothing is left) and query_result (which "
     "outcomes end the resolution, which remove the server for good, which arm the TCP retry, NXDOMAIN recording, caching under "
     "(qname, rdtype, rdclass) through the proved Cache.put contract); _get_qnames_to_try for search lists of 0, 1 and 2 "
     "suffixes (absolute form first exactly when the name has more labels than ndots, 0 allowed, else last; suffixed names in "
     "list order). The composition into whole resolutions and CNAME chaining are bounded.",
     assumptions=["A-float: clock readings and timeouts are reals",
                  "A-abs: nameserver objects, Answer construction and rcode text are abstracted by assumed contracts (listed in the trusted base)"])
prop("C17", "other", _GENERIC + "Discharged: the mechanical lock-discipline obligations of the cache classes (linearizability by one "
     "lock hold per public method); on the real functions, in a symbolic heap: Cache._maybe_clean/get/put/flush (never an answer "
     "at or after its expiration, the stored unexpired answer is found, exactly one counter moves, only expired entries disappear), "
     "LRUCacheNode.link_after/unlink (all aliasing cases), LRUCache.__init__ (the invariant's base case), LRUCache.get and, in the "
     "thorough tier, LRUCache.get#ring, put, set_max_size and flush(key) with a ghost recency order (bound never exceeded, eviction "
     "strictly from the least-recently-used end and only as far as needed, hit moves to the front, ring and dict stay in step, no "
     "KeyError), plus the ring lemma for unlink. flush() of everything, whole histories and thread schedules are bounded.",
     assumptions=["A-key: cache keys are abstracted to integers (a key is only hashed and compared)",
                  "A-float: clock readings are reals and never decrease"])
prop("C18", "other", _GENERIC + "Proved: stream framing loops _net_read, _net_write and the async _read_exactly against an assumed "
     "socket contract (any fragmentation into chunks and would-block events yields exactly the requested octets in order, or "
     "EOFError/Timeout, never a short result); Message.is_response (QR, id, all four opcode bits, question entries compared as sets, "
     "the two documented leniencies) and _matches_destination (queried port, and queried address in binary form or multicast "
     "destination; skipped or UnexpectedSource as configured). The receive loops and TSIG/one-shot composition are bounded.",
     assumptions=["A-ext: socket.recv/send and the async backend recv behave as their stated contracts",
                  "A-inet: dns.inet.inet_pton / is_multicast are functions of the address text (assumed contracts)"])
prop("C19", "other", _GENERIC + "Proved: _Node.search_in_node (binary search, termination); insert_nonfull on a leaf (replace in place / "
     "insert at the sorted position, strictly sorted and within the occupancy bound afterwards, modular over the search contract); "
     "split of a full leaf (two minimal halves and the median, concatenation preserved, same creator); the occupancy predicates "
     "is_maximal/is_minimal (exactly 2t-1 / t-1 elements). Internal-node restructuring, "
     "copy-on-write isolation, cursors and whole histories are bounded (lists of child nodes inside heap objects are outside the "
     "engine's heap model).")
prop("C20", "other", _GENERIC + "Proved: the node flag predicates read exactly their own bit; the B-tree zone's "
     "_maybe_cow_with_name gives a node handed out for writing the derived flag its name calls for (ORIGIN, else GLUE beneath a "
     "cut, else DELEGATION for a name in the delegation index) against a stub index. The invariant 'flags and delegation index "
     "are a function of content' over histories and bounds() are decided by the bounded stand-in (recomputation from content "
     "after every commit).")
