"""Per-property configuration of the checks: claimed level, assumptions (ids of DESIGN.md
section 5) and the explanation written into the evidence file."""

A_COMMON = [
    "A-sem: pyvc's model of the Python subset agrees with CPython 3.12 (cross-checked natively, not proved)",
    "A-dyn: no monkey-patching; names resolve as in the imported modules",
    "A-lib: struct, int.to_bytes/from_bytes, bytes.lower, bytes ordering, dict/deque behave as documented",
    "A-mem: no MemoryError/RecursionError",
]

PROPS = {}


def prop(pid, level, explanation, assumptions=(), trusted_base=(), **kw):
    PROPS[pid] = dict(level=level, explanation=explanation, assumptions=A_COMMON + list(assumptions),
                      trusted_base=list(trusted_base), **kw)


prop("C01", "other",
     "Contracts on dns.name (_validate_labels, Name.__init__, from_wire_parser, ...) and dns.wirebase.Parser are "
     "discharged for all inputs by pyvc from the current source; clauses not (yet) proved are listed under not_proved and "
     "covered by the bounded stand-in (exhaustive small scope + seeded), which is labelled bounded.",
     assumptions=["A-fold: a for loop over a++b is the loop over a then over b", "A-ext: IDNA codecs are external"])

TECHNIQUE = {}
NOT_APPLICABLE = {}
