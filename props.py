"""Per-property configuration of the checks: claimed level, assumptions (ids of DESIGN.md
section 5) and the explanation written into the evidence file."""

A_COMMON = [
    "A-sem: pyvc's model of the Python subset agrees with CPython 3.12 (cross-checked natively, not proved)",
    "A-dyn: no monkey-patching; names resolve as in the imported modules",
    "A-lib: struct, int.to_bytes/from_bytes, bytes.lower, bytes ordering, dict/deque behave as documented",
    "A-mem: no MemoryError/RecursionError",
]

PROPS = {}


def prop(pid, level, explanation, assumptions=(), trusted_base=(), **kw):
    PROPS[pid] = dict(level=level, explanation=explanation, assumptions=A_COMMON + list(assumptions),
                      trusted_base=list(trusted_base), **kw)


prop("C01", "other",
     "Contracts on dns.name (_validate_labels, Name.__init__, from_wire_parser, ...) and dns.wirebase.Parser are "
     "discharged for all inputs by pyvc from the current source (class invariant of Name, wire decoder bounds/termination/"
     "strictly-earlier pointers, uncompressed and compressed encoders' discipline, label text and the per-octet step lemmas of "
     "from_text); clauses not proved are covered by the bounded stand-in (exhaustive small scope + seeded), labelled bounded.",
     assumptions=["A-fold: a for loop over a++b is the loop over a then over b", "A-ext: IDNA codecs are external"])

TECHNIQUE = {}
NOT_APPLICABLE = {}

_GENERIC = ("Deductive tier: the contracts tagged with this property are discharged for all inputs by pyvc from the current "
            "source (listed under coverage.contracts; anything not proved is under coverage.not_proved). Bounded tier: the "
            "stand-in executes the real code natively against the property's clauses on the stated scope; it is labelled "
            "bounded and never counted as discharged. ")

prop("C02", "other", _GENERIC + "Proved: wire Parser primitives every codec is built on (exact consumption, FormError on short input) and "
     "the relational wire round trip of 24 record classes discovered by walking dns/rdtypes (for arbitrary octets w: if decode(w) "
     "returns x having consumed w, encode(x) cannot fail and decode(encode(x)) equals x field by field, consuming exactly, so the "
     "encoding is a fixed point). Classes with embedded names, item loops, address text or floats are listed in "
     "contracts/rdtypes.py:NOT_ATTEMPTED with the reason and are covered by the bounded stand-in only.", needs_obligations=True)
prop("C03", "other", _GENERIC + "Proved: rcode/opcode flag codecs and their round-trip lemmas; Renderer._rollback (buffer cut, table "
     "purged: no entry at or beyond the cut survives, entries below it are untouched), _set_section, add_question (removed whole on "
     "TooBig), and the table discipline of Name.to_wire with a file (entries only at offsets written by the call, <= 0x3FFF; thorough "
     "tier). Whole-message render/parse composition is bounded.")
prop("C04", "other", _GENERIC + "Proved: exception sets and termination of the wire parser kernel (Parser.*, name.from_wire_parser, "
     "_validate_labels, Name.__init__). Text side and per-type bodies are bounded.")
prop("C05", "other", _GENERIC + "Proved: the text of a character-string (dns.rdata._escapify) and of a label (dns.name._escapify) is the "
     "concatenation of the specified escape of each octet, and the per-octet step lemmas over the body of name.from_text's loop "
     "(each escape form is read back as exactly that octet). Per-type text composition and the tokenizer are bounded.")
prop("C06", "proof", "Name.fullcompare is proved totally correct against the RFC 4034 6.1 order (pyvc, all inputs); antisymmetry, "
     "reflexivity, transitivity, equality-iff-case-insensitive-labels and agreement with the subdomain predicates are Level-2 lemmas "
     "over that contract; relativize/derelativize/parent/split/concatenate have label-exact contracts. Successor/predecessor and the "
     "hash law are covered by the bounded stand-in (labelled bounded).",
     assumptions=["A-order: bytes comparison is a strict total (lexicographic) order on octet strings; its transitivity is instantiated at the deciding label",
                  "L-sum: additivity of the finite sum wirelen (instantiated, not re-proved by the solver)"])
prop("C07", "other", _GENERIC + "Proved: Name equality contract (shared with C06); dns.set.Set add/remove/discard and the in-place union, "
     "intersection and difference against set theory over the abstract key set, including the self-aliasing cases. Copying forms, "
     "insertion order, Rdataset rules and immutability are bounded.", needs_obligations=True,
     assumptions=["A-key: element == is an equivalence with a consistent hash (elements are abstracted as integer identities)"])
prop("C08", "other", _GENERIC + "Proved: the budget invariant of reserve/release_reserved, Renderer._rollback, and add_question as the "
     "model case of 'a record set that does not fit is removed whole' (on TooBig the buffer, counts and compression table are exactly "
     "what they were). Message.to_wire control, reserve exactness and padding are bounded.")
prop("C09", "other", _GENERIC + "Proved: the CNAME/other-data classification rule (NodeKind.classify) against the RFC rule. The field "
     "grammar of the reader and emitter, directives and $GENERATE are decided by the bounded stand-in.")
prop("C10", "other", _GENERIC + "Proved: RFC 1982 Serial arithmetic and comparison contracts and the increment lemma. Transactions are bounded.")
prop("C11", "other", _GENERIC + "Discharged: the mechanical lock-discipline obligations of dns.versioned.Zone (readers pick and register "
     "their version under the lock). Snapshot isolation, retention and immutability are bounded.")
prop("C12", "other", _GENERIC + "Discharged: the mechanical lock-discipline obligations (every access of the writer/reader state under "
     "_version_lock or in *_unlocked methods whose call sites hold it; no blocking call under the lock). The monitor invariant itself "
     "is not proved; schedules are enumerated by the bounded stand-in. Liveness under an unfair scheduler is out of reach.")
prop("C13", "other", _GENERIC + "Proved: RFC 1982 Serial comparison used for 'serial went backwards'. The transfer state machine is bounded.")
prop("C14", "other", _GENERIC + "Proved: dns.tsig._digest feeds the HMAC exactly the RFC 8945 4.3 digest components (first and "
     "subsequent messages, request MAC prefix, 48-bit time split) and _maybe_start_digest primes the next context with the "
     "length-prefixed MAC; the HMAC context is a ghost concatenation (assumed). sign/validate composition and rejection are bounded.",
     assumptions=["A-crypto: hashlib/hmac are trusted"])
prop("C15", "other", _GENERIC + "Proved: DNSKEY key tag (RFC 4034 appendix B) with loop invariant over the real loop. Other computations are bounded.",
     assumptions=["A-crypto: hash functions are trusted"])
prop("C16", "other", _GENERIC + "Proved: the lifetime budget (_compute_timeout) over reals with an external clock. The resolution state machine is bounded.",
     assumptions=["A-float: clock readings and timeouts are reals"])
prop("C17", "other", _GENERIC + "Discharged: the mechanical lock-discipline obligations of the cache classes (linearizability by one "
     "lock hold per public method). Freshness, LRU order and counters are bounded.")
prop("C18", "other", _GENERIC + "Proved: stream framing loops _net_read, _net_write and the async _read_exactly against an assumed "
     "socket contract (any fragmentation into chunks and would-block events yields exactly the requested octets in order, or "
     "EOFError/Timeout, never a short result). is_response, source matching and the receive loops are bounded.",
     assumptions=["A-ext: socket.recv/send and the async backend recv behave as their stated contracts"])
prop("C19", "other", _GENERIC + "Proved: _Node.search_in_node (binary search, termination). Tree restructuring and copy-on-write are bounded.")
prop("C20", "other", _GENERIC + "Proved: the node flag predicates read exactly their own bit. The invariant 'flags and delegation index "
     "are a function of content' and bounds() are decided by the bounded stand-in (recomputation from content after every commit).")
